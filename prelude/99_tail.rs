} // verus!
fn main() {}
