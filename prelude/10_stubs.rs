// ===== TRUSTED STUBS for external crates (tokio channels, futures::Fuse, time) =====
// ghost record of everything handed to a user's outgoing queue: (queue id, line)
pub ghost struct Outbox { pub log: Seq<(int, Seq<char>)> }

#[verifier::external_body]
#[verifier::accept_recursive_types(T)]
pub struct UnboundedSender<T> { p: std::marker::PhantomData<T> }
#[verifier::external_body]
#[verifier::accept_recursive_types(T)]
pub struct UnboundedReceiver<T> { p: std::marker::PhantomData<T> }
#[verifier::external_body]
#[verifier::accept_recursive_types(T)]
pub struct SendError<T> { p: std::marker::PhantomData<T> }
#[verifier::external_body]
#[verifier::accept_recursive_types(T)]
pub struct Fuse<T> { p: std::marker::PhantomData<T> }

impl<T> UnboundedSender<T> {
    // identity of the queue this sender feeds (both ends of one tokio channel share it)
    pub uninterp spec fn id(&self) -> int;
}
impl<T> UnboundedReceiver<T> {
    pub uninterp spec fn id(&self) -> int;
}
impl UnboundedSender<String> {
    #[verifier::external_body]
    pub fn send(&self, x: String, Tracked(outbox): Tracked<&mut Outbox>) -> (r: Result<(), SendError<String>>)
        ensures
            r is Ok ==> final(outbox).log == old(outbox).log.push((self.id(), x@)),
            r is Err ==> final(outbox).log == old(outbox).log,
    { unimplemented!() }
}

pub mod oneshot {
    use super::*;
    #[verifier::external_body]
    #[verifier::accept_recursive_types(T)]
    pub struct Sender<T> { p: std::marker::PhantomData<T> }
    #[verifier::external_body]
    #[verifier::accept_recursive_types(T)]
    pub struct Receiver<T> { p: std::marker::PhantomData<T> }
    #[verifier::external_body]
    pub fn channel<T>() -> (r: (Sender<T>, Receiver<T>))
    { unimplemented!() }
    impl<T> Receiver<T> {
        #[verifier::external_body]
        pub fn fuse(self) -> (r: Fuse<Receiver<T>>) { unimplemented!() }
    }
    impl<T> Sender<T> {
        pub uninterp spec fn id(&self) -> int;
        #[verifier::external_body]
        pub fn send(self, t: T) -> (r: Result<(), T>)
        { unimplemented!() }
    }
}

// wall clock: opaque seconds since the epoch (SystemTime::now().duration_since(UNIX_EPOCH).unwrap().as_secs())
#[verifier::external_body]
pub fn verif_now_secs() -> u64 { unimplemented!() }

// chrono: the local wall clock and its two renderings (TRUSTED: total functions of the external crate, values opaque)
pub struct Local;
#[verifier::external_body]
#[verifier::accept_recursive_types(Tz)]
pub struct DateTime<Tz> { p: std::marker::PhantomData<Tz> }
impl Local {
    #[verifier::external_body]
    pub fn now() -> DateTime<Local> { unimplemented!() }
}
impl<Tz> DateTime<Tz> {
    #[verifier::external_body]
    pub fn timestamp(&self) -> i64 { unimplemented!() }
    #[verifier::external_body]
    pub fn to_rfc2822(&self) -> String { unimplemented!() }
}

// opaque error type replacing Box<dyn Error> (rule R2): only Ok/Err-ness is kept
pub struct HErr { pub k: u8 }
impl<T> From<SendError<T>> for HErr {
    #[verifier::external_body]
    fn from(e: SendError<T>) -> HErr { HErr { k: 0 } }
}
pub struct IoError { pub k: u8 }
pub enum LinesCodecError { MaxLineLengthExceeded, Io(IoError) }
impl From<IoError> for HErr {
    #[verifier::external_body]
    fn from(e: IoError) -> HErr { HErr { k: 0 } }
}
impl From<LinesCodecError> for HErr {
    #[verifier::external_body]
    fn from(e: LinesCodecError) -> HErr { HErr { k: 0 } }
}

// `E1 + E2` with E1: String (rule R10; Verus ICE on String + &&str): opaque result, nothing in the contracts uses the text
#[verifier::external_body]
pub fn verif_str_plus(a: String, b: &str) -> (r: String)
    ensures r@ == a@ + b@
{ a + b }
impl From<String> for HErr {
    #[verifier::external_body]
    fn from(e: String) -> HErr { HErr { k: 0 } }
}
