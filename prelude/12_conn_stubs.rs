// ===== TRUSTED STUBS: the connection's outgoing buffer and the feed helpers =====
// abstract record of one item handed to the connection's own reply buffer (not its rendered text)
#[verifier::external_body]
pub ghost struct FedItem { x: int }
// item produced by feed_msg(server_name, t) / feed_msg_source(source, t)
pub uninterp spec fn fed<T>(prefix: Seq<char>, t: T) -> FedItem;
// rendered relay line ":source <t>" of send_msg_display, and Message::to_string_with_source
pub uninterp spec fn disp<T>(source: Seq<char>, t: T) -> Seq<char>;

#[verifier::external_body]
pub struct BufferedLineStream { x: u8 }
impl BufferedLineStream {
    pub uninterp spec fn log(&self) -> Seq<FedItem>;
}
#[verifier::external_body]
pub struct AtomicI32 { x: u8 }
#[verifier::external_body]
pub struct AtomicUsize { x: u8 }
#[verifier::external_body]
pub struct IpAddr { x: u8 }
