// ===== TRUSTED STUBS: the connection's outgoing buffer and the feed helpers =====
// abstract record of one item handed to the connection's own reply buffer (not its rendered text)
#[verifier::external_body]
pub ghost struct FedItem { x: int }
// item produced by feed_msg(server_name, t) / feed_msg_source(source, t)
pub uninterp spec fn fed<T>(prefix: Seq<char>, t: T) -> FedItem;
// rendered relay line ":source <t>" of send_msg_display, and Message::to_string_with_source
pub uninterp spec fn disp<T>(source: Seq<char>, t: T) -> Seq<char>;
// the text `Display` produces for a value (uninterpreted except for strings and references, which forward)
pub uninterp spec fn dv<T>(t: T) -> Seq<char>;
pub broadcast axiom fn ax_dv_ref<T>(t: &T)
    ensures #[trigger] dv::<&T>(t) == dv::<T>(*t);
pub broadcast axiom fn ax_dv_str(t: &str)
    ensures #[trigger] dv::<&str>(t) == t@;
pub broadcast axiom fn ax_dv_string(t: String)
    ensures #[trigger] dv::<String>(t) == t@;
// ":source <t>" (send_msg_display, feed_msg_source)
pub broadcast axiom fn ax_disp_def<T>(source: Seq<char>, t: T)
    ensures #[trigger] disp::<T>(source, t) == seq![':'] + source + seq![' '] + dv::<T>(t);
pub broadcast axiom fn ax_dv_char(c: char)
    ensures #[trigger] dv::<char>(c) == seq![c];
pub broadcast group display_text { ax_dv_ref, ax_dv_str, ax_dv_string, ax_dv_char, ax_disp_def }
// rule R23: format!("p0{}p1", a) with plain placeholders; the concatenations are opaque so that handler bodies carry no sequence arithmetic
#[verifier::opaque]
pub open spec fn fmt1_text(p0: Seq<char>, a: Seq<char>, p1: Seq<char>) -> Seq<char> { p0 + a + p1 }
#[verifier::opaque]
pub open spec fn fmt2_text(p0: Seq<char>, a: Seq<char>, p1: Seq<char>, b: Seq<char>, p2: Seq<char>) -> Seq<char> { p0 + a + p1 + b + p2 }
#[verifier::opaque]
pub open spec fn fmt3_text(p0: Seq<char>, a: Seq<char>, p1: Seq<char>, b: Seq<char>, p2: Seq<char>, c: Seq<char>, p3: Seq<char>) -> Seq<char> { p0 + a + p1 + b + p2 + c + p3 }
#[verifier::opaque]
pub open spec fn fmt5_text(p0: Seq<char>, a: Seq<char>, p1: Seq<char>, b: Seq<char>, p2: Seq<char>, c: Seq<char>, p3: Seq<char>, d: Seq<char>, p4: Seq<char>, e: Seq<char>, p5: Seq<char>) -> Seq<char> {
    p0 + a + p1 + b + p2 + c + p3 + d + p4 + e + p5
}
#[verifier::external_body]
pub fn verif_fmt5<A: fmt::Display, B: fmt::Display, C: fmt::Display, D: fmt::Display, E: fmt::Display>(p0: &str, a: &A, p1: &str, b: &B, p2: &str, c: &C, p3: &str, d: &D, p4: &str, e: &E, p5: &str) -> (r: String)
    ensures r@ == fmt5_text(p0@, dv::<&A>(a), p1@, dv::<&B>(b), p2@, dv::<&C>(c), p3@, dv::<&D>(d), p4@, dv::<&E>(e), p5@)
{ unimplemented!() }
#[verifier::external_body]
pub fn verif_fmt1<A: fmt::Display>(p0: &str, a: &A, p1: &str) -> (r: String)
    ensures r@ == fmt1_text(p0@, dv::<&A>(a), p1@)
{ unimplemented!() }
#[verifier::external_body]
pub fn verif_fmt2<A: fmt::Display, B: fmt::Display>(p0: &str, a: &A, p1: &str, b: &B, p2: &str) -> (r: String)
    ensures r@ == fmt2_text(p0@, dv::<&A>(a), p1@, dv::<&B>(b), p2@)
{ unimplemented!() }
#[verifier::external_body]
pub fn verif_fmt3<A: fmt::Display, B: fmt::Display, C: fmt::Display>(p0: &str, a: &A, p1: &str, b: &B, p2: &str, c: &C, p3: &str) -> (r: String)
    ensures r@ == fmt3_text(p0@, dv::<&A>(a), p1@, dv::<&B>(b), p2@, dv::<&C>(c), p3@)
{ unimplemented!() }

#[verifier::external_body]
pub struct BufferedLineStream { x: u8 }
impl BufferedLineStream {
    pub uninterp spec fn log(&self) -> Seq<FedItem>;
}
#[verifier::external_body]
pub struct AtomicI32 { x: u8 }
#[verifier::external_body]
pub struct AtomicUsize { x: u8 }
#[verifier::external_body]
pub struct IpAddr { x: u8 }

// ghost record of the connection's quit flag (AtomicI32 behind an Arc: the store goes through &self, so its effect is
// recorded in a ghost parameter added by rule R6q)
pub ghost struct Signals { pub quit: int }
pub use std::sync::atomic::Ordering;
impl AtomicI32 {
    #[verifier::external_body]
    pub fn store(&self, v: i32, o: Ordering, Tracked(sig): Tracked<&mut Signals>)
        ensures final(sig).quit == v
    { unimplemented!() }
}

// argon2 password verification (external crate): an uninterpreted predicate
pub uninterp spec fn hash_ok(password: Seq<char>, hash: Seq<char>) -> bool;
#[verifier::external_body]
pub struct ArgonError { x: u8 }
#[verifier::external_body]
pub async fn argon2_verify_password_async(password: String, hash: String) -> (r: Result<(), ArgonError>)
    ensures r is Ok <==> hash_ok(password@, hash@)
{ unimplemented!() }
