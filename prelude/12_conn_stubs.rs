// ===== TRUSTED STUBS: the connection's outgoing buffer and the feed helpers =====
// abstract record of one item handed to the connection's own reply buffer (not its rendered text)
#[verifier::external_body]
pub ghost struct FedItem { x: int }
// item produced by feed_msg(server_name, t) / feed_msg_source(source, t)
pub uninterp spec fn fed<T>(prefix: Seq<char>, t: T) -> FedItem;
// rendered relay line ":source <t>" of send_msg_display, and Message::to_string_with_source
pub uninterp spec fn disp<T>(source: Seq<char>, t: T) -> Seq<char>;

#[verifier::external_body]
pub struct BufferedLineStream { x: u8 }
impl BufferedLineStream {
    pub uninterp spec fn log(&self) -> Seq<FedItem>;
}
#[verifier::external_body]
pub struct AtomicI32 { x: u8 }
#[verifier::external_body]
pub struct AtomicUsize { x: u8 }
#[verifier::external_body]
pub struct IpAddr { x: u8 }

// ghost record of the connection's quit flag (AtomicI32 behind an Arc: the store goes through &self, so its effect is
// recorded in a ghost parameter added by rule R6q)
pub ghost struct Signals { pub quit: int }
pub use std::sync::atomic::Ordering;
impl AtomicI32 {
    #[verifier::external_body]
    pub fn store(&self, v: i32, o: Ordering, Tracked(sig): Tracked<&mut Signals>)
        ensures final(sig).quit == v
    { unimplemented!() }
}

// argon2 password verification (external crate): an uninterpreted predicate
pub uninterp spec fn hash_ok(password: Seq<char>, hash: Seq<char>) -> bool;
#[verifier::external_body]
pub struct ArgonError { x: u8 }
#[verifier::external_body]
pub async fn argon2_verify_password_async(password: String, hash: String) -> (r: Result<(), ArgonError>)
    ensures r is Ok <==> hash_ok(password@, hash@)
{ unimplemented!() }
