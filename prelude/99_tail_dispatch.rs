} // verus!
// Display impls of the crate's own types are NOT verified (reply.rs etc.): placeholders so that trait bounds resolve.
impl<'a> fmt::Display for Reply<'a> { fn fmt(&self, f: &mut fmt::Formatter<'_>) -> fmt::Result { Ok(()) } }
impl fmt::Display for UserModes { fn fmt(&self, f: &mut fmt::Formatter<'_>) -> fmt::Result { Ok(()) } }
impl fmt::Display for ChannelModes { fn fmt(&self, f: &mut fmt::Formatter<'_>) -> fmt::Result { Ok(()) } }
impl fmt::Display for CapState { fn fmt(&self, f: &mut fmt::Formatter<'_>) -> fmt::Result { Ok(()) } }
impl fmt::Display for CommandError { fn fmt(&self, f: &mut fmt::Formatter<'_>) -> fmt::Result { Ok(()) } }
fn main() {}
