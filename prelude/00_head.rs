#![feature(allocator_api)]
#![allow(unused_imports, unused_variables, dead_code, unused_mut, non_snake_case, unused_assignments, deprecated)]
// ===== TRUSTED PRELUDE (DESIGN.md §2.3) — every axiom here is an assumption listed in evidence =====
use vstd::prelude::*;
use std::collections::{HashMap, HashSet};
use std::fmt;
use std::sync::Arc;
verus! {
use vstd::std_specs::hash::*;
use vstd::std_specs::iter::*;
use vstd::std_specs::fmt::*;

// ---- String / str key bridge (vstd proves the key model only for primitive keys) ----
pub uninterp spec fn string_of(s: Seq<char>) -> String;
pub broadcast axiom fn ax_string_of_view(s: Seq<char>)
    ensures (#[trigger] string_of(s))@ == s;
pub broadcast axiom fn ax_string_ext(x: String)
    ensures (#[trigger] string_of(x@)) == x;
pub open spec fn sk(q: &str) -> String { string_of(q@) }
// the same for string slices: a &str value is determined by its characters
pub uninterp spec fn str_of(s: Seq<char>) -> &'static str;
pub broadcast axiom fn ax_str_of_view(s: Seq<char>)
    ensures (#[trigger] str_of(s))@ == s;
pub broadcast axiom fn ax_str_ext(x: &str)
    ensures #[trigger] str_of(x@) == x;

pub broadcast axiom fn ax_contains_str_key<V>(m: Map<String, V>, q: &str)
    ensures #[trigger] contains_borrowed_key::<String, V, str>(m, q) <==> m.contains_key(sk(q));
pub broadcast axiom fn ax_maps_str_key<V>(m: Map<String, V>, q: &str, v: V)
    ensures #[trigger] maps_borrowed_key_to_value::<String, V, str>(m, q, v) <==> (m.contains_key(sk(q)) && m[sk(q)] == v);
pub broadcast axiom fn ax_str_key_removed<V>(o: Map<String, V>, n: Map<String, V>, q: &str)
    ensures #[trigger] borrowed_key_removed::<String, V, str>(o, n, q) <==> n == o.remove(sk(q));
pub broadcast axiom fn ax_set_contains_str(m: Set<String>, q: &str)
    ensures #[trigger] set_contains_borrowed_key::<String, str>(m, q) <==> m.contains(sk(q));
pub broadcast axiom fn ax_sets_differ_str(o: Set<String>, n: Set<String>, q: &str)
    ensures #[trigger] sets_differ_by_borrowed_key::<String, str>(o, n, q) <==> (n == o.remove(sk(q)) );
pub broadcast axiom fn ax_key_model()
    ensures #[trigger] obeys_key_model::<String>();
pub uninterp spec fn bkey<K, Q: ?Sized>(q: &Q) -> K;
pub uninterp spec fn bridge_ok<K, Q: ?Sized>() -> bool;
pub broadcast axiom fn ax_bkey_str(q: &str)
    ensures #[trigger] bkey::<String, str>(q) == sk(q);
pub broadcast axiom fn ax_bkey_string(q: &String)
    ensures #[trigger] bkey::<String, String>(q) == *q;
pub broadcast axiom fn ax_bridge_ok()
    ensures #[trigger] bridge_ok::<String, str>();
pub broadcast axiom fn ax_bridge_ok2()
    ensures #[trigger] bridge_ok::<String, String>();
pub broadcast axiom fn ax_to_string_string(s: &String, r: String)
    ensures #[trigger] vstd::string::to_string_from_display_ensures::<String>(s, r) <==> r == *s;
pub broadcast axiom fn ax_to_string_refstr<'a>(s: &&'a str, r: String)
    ensures #[trigger] vstd::string::to_string_from_display_ensures::<&'a str>(s, r) <==> r@ == (**s)@;
pub broadcast axiom fn ax_to_string_refrefstr<'a, 'b>(s: &&'b &'a str, r: String)
    ensures #[trigger] vstd::string::to_string_from_display_ensures::<&'b &'a str>(s, r) <==> r@ == (***s)@;
pub broadcast group bridge { ax_to_string_string, ax_to_string_refstr, ax_to_string_refrefstr, ax_str_of_view, ax_str_ext, ax_set_contains_str, ax_sets_differ_str, ax_bridge_ok, ax_bridge_ok2, ax_bkey_str, ax_bkey_string,
    ax_string_of_view, ax_string_ext, ax_contains_str_key, ax_maps_str_key, ax_str_key_removed, ax_key_model }

// ---- std functions vstd has no specification for ----
pub assume_specification<'a, K, V, S, A, Q> [std::collections::HashMap::<K, V, S, A>::get_mut] (m: &'a mut std::collections::HashMap<K, V, S, A>, k: &Q) -> (r: std::option::Option<&'a mut V>)
           where
           A: std::alloc::Allocator,
           K: std::cmp::Eq + std::hash::Hash + std::borrow::Borrow<Q>,
           Q: std::marker::MetaSized + std::hash::Hash + std::cmp::Eq + ?Sized,
           S: std::hash::BuildHasher,
    ensures
        bridge_ok::<K, Q>() ==> match r {
            Some(v) => old(m)@.contains_key(bkey::<K, Q>(k)) && *v == old(m)@[bkey::<K, Q>(k)]
                && final(m)@ == old(m)@.insert(bkey::<K, Q>(k), *final(v)),
            None => !old(m)@.contains_key(bkey::<K, Q>(k)) && *final(m) == *old(m),
        },
;

// ---- proved (not assumed): iteration facts ----
// a duplicate-free sequence of length |S| that covers S contains only members of S
pub broadcast proof fn lemma_cover_is_exact(r: Seq<&String>, s: Set<String>)
    requires
        #![trigger r.no_duplicates(), s.len()]
        r.no_duplicates(),
        r.len() == s.len(),
        forall|k: String| s.contains(k) ==> exists|i: int| 0 <= i < r.len() && *#[trigger] r[i] == k,
    ensures
        forall|i: int| 0 <= i < r.len() ==> s.contains(*#[trigger] r[i]),
{
    let m = r.map_values(|x: &String| *x);
    assert(m.len() == r.len());
    assert(m.no_duplicates()) by {
        assert forall|i: int, j: int| 0 <= i < m.len() && 0 <= j < m.len() && i != j implies m[i] != m[j] by {
            assert(m[i] == *r[i]); assert(m[j] == *r[j]);
            assert(r[i] != r[j]);
        }
    }
    m.unique_seq_to_set();
    assert(m.to_set().len() == s.len());
    assert(s.subset_of(m.to_set())) by {
        assert forall|k: String| s.contains(k) implies m.to_set().contains(k) by {
            let i = choose|i: int| 0 <= i < r.len() && *#[trigger] r[i] == k;
            assert(m[i] == k);
        }
    }
    vstd::set_lib::lemma_subset_equality(s, m.to_set());
    assert forall|i: int| 0 <= i < r.len() implies s.contains(*#[trigger] r[i]) by {
        assert(m[i] == *r[i]);
        assert(m.to_set().contains(m[i]));
    }
}

// a finite map with pairwise different values has as many values as keys (proved)
pub proof fn lemma_inj_values_len<K, V>(m: Map<K, V>)
    requires forall|k1: K, k2: K| m.contains_key(k1) && m.contains_key(k2) && k1 != k2 ==> m[k1] != m[k2],
    ensures m.values().len() == m.dom().len(),
    decreases m.dom().len(),
{
    if m.dom().len() == 0 {
        assert(m.dom() =~= Set::<K>::empty());
        assert(m.values() =~= Set::<V>::empty()) by {
            assert forall|v: V| !m.values().contains(v) by {
                if m.values().contains(v) { let k = choose|k: K| m.contains_key(k) && m[k] == v; assert(m.dom().contains(k)); }
            }
        }
    } else {
        let k = m.dom().choose();
        let m2 = m.remove(k);
        assert(m2.dom() =~= m.dom().remove(k));
        lemma_inj_values_len(m2);
        assert(!m2.values().contains(m[k])) by {
            if m2.values().contains(m[k]) { let k2 = choose|k2: K| m2.contains_key(k2) && m2[k2] == m[k]; assert(m.contains_key(k2) && k2 != k); }
        }
        assert(m.values() =~= m2.values().insert(m[k])) by {
            assert forall|v: V| m.values().contains(v) <==> m2.values().insert(m[k]).contains(v) by {
                if m.values().contains(v) { let kk = choose|kk: K| m.contains_key(kk) && m[kk] == v; if kk != k { assert(m2.contains_key(kk) && m2[kk] == v); } }
                if m2.values().contains(v) { let kk = choose|kk: K| m2.contains_key(kk) && m2[kk] == v; assert(m.contains_key(kk) && m[kk] == v); }
                if v == m[k] { assert(m.contains_key(k)); }
            }
        }
    }
}
// a sequence of length |S| that covers the finite set S has no duplicates and contains only members of S
pub proof fn lemma_pigeon<A>(vals: Seq<A>, s: Set<A>)
    requires vals.len() == s.len(), forall|a: A| s.contains(a) ==> vals.contains(a),
    ensures vals.no_duplicates(), forall|i: int| 0 <= i < vals.len() ==> s.contains(#[trigger] vals[i]),
{
    vals.lemma_cardinality_of_set();
    assert(s.subset_of(vals.to_set())) by {
        assert forall|a: A| s.contains(a) implies vals.to_set().contains(a) by { assert(vals.contains(a)); }
    }
    vstd::set_lib::lemma_len_subset(s, vals.to_set());
    vstd::set_lib::lemma_subset_equality(s, vals.to_set());
    vals.lemma_no_dup_set_cardinality();
    assert forall|i: int| 0 <= i < vals.len() implies s.contains(#[trigger] vals[i]) by { assert(vals.to_set().contains(vals[i])); }
}

pub proof fn lemma_nodup_subset_full(order: Seq<String>, members: Set<String>)
    requires order.no_duplicates(), order.len() == members.len(),
        forall|i: int| 0 <= i < order.len() ==> members.contains(#[trigger] order[i]),
    ensures forall|n: String| order.contains(n) <==> members.contains(n)
{
    order.unique_seq_to_set();
    assert(order.to_set().subset_of(members)) by {
        assert forall|n: String| order.to_set().contains(n) implies members.contains(n) by {
            let i = choose|i: int| 0 <= i < order.len() && order[i] == n;
        }
    }
    vstd::set_lib::lemma_subset_equality(order.to_set(), members);
    assert forall|n: String| order.contains(n) <==> members.contains(n) by {
        if order.contains(n) { assert(order.to_set().contains(n)); }
        if members.contains(n) { assert(order.to_set().contains(n)); }
    }
}

// ---- machine-size fact: a user table cannot hold usize::MAX entries (every entry occupies more than one byte of address space) ----
pub broadcast axiom fn ax_hashmap_len_bound<V>(m: HashMap<String, V>)
    ensures #[trigger] m@.len() < usize::MAX;

// ---- operators on strings: vstd has the PartialEqSpec trait but no instance for String ----
use vstd::std_specs::cmp::*;
pub broadcast axiom fn ax_string_eq_spec()
    ensures #[trigger] <String as PartialEqSpec<String>>::obeys_eq_spec();
pub broadcast axiom fn ax_string_eq_def(a: String, b: String)
    ensures #[trigger] <String as PartialEqSpec<String>>::eq_spec(&a, &b) == (a@ == b@);
pub broadcast axiom fn ax_string_str_eq_spec<'a>()
    ensures #[trigger] <String as PartialEqSpec<&'a str>>::obeys_eq_spec();
pub broadcast axiom fn ax_string_str_eq_def<'a>(a: String, b: &'a str)
    ensures #[trigger] <String as PartialEqSpec<&'a str>>::eq_spec(&a, &b) == (a@ == b@);
pub broadcast axiom fn ax_string_str2_eq_spec()
    ensures #[trigger] <String as PartialEqSpec<str>>::obeys_eq_spec();
pub broadcast axiom fn ax_string_str2_eq_def(a: String, b: &str)
    ensures #[trigger] <String as PartialEqSpec<str>>::eq_spec(&a, b) == (a@ == b@);
pub broadcast group string_eq { ax_string_str2_eq_spec, ax_string_str2_eq_def, ax_string_eq_spec, ax_string_eq_def, ax_string_str_eq_spec, ax_string_str_eq_def }

// <[T]>::contains (std): true iff some element compares equal
pub assume_specification<T: PartialEq>[<[T]>::contains](s: &[T], x: &T) -> (r: bool)
    ensures <T as PartialEqSpec<T>>::obeys_eq_spec() ==> r == exists|i: int| 0 <= i < s@.len() && <T as PartialEqSpec<T>>::eq_spec(#[trigger] &s@[i], x);

// HashSet::from([T; N]) (std): the set of the array's elements
pub assume_specification<T: std::cmp::Eq + std::hash::Hash, const N: usize>[<HashSet<T> as std::convert::From<[T; N]>>::from](arr: [T; N]) -> (r: HashSet<T>)
    ensures r@ == arr@.to_set();

// machine-size fact: the entries of a hash set and of a vector live in one address space (each entry takes more than one byte)
pub broadcast axiom fn ax_set_vec_len_bound<T>(a: HashSet<String>, v: Vec<T>)
    ensures #[trigger] a@.len() + #[trigger] v@.len() < usize::MAX;

// Option::or / as_deref (std): one-line facts
pub assume_specification<T> [std::option::Option::<T>::or] (a: std::option::Option<T>, b: std::option::Option<T>) -> (r: std::option::Option<T>)
    where T: std::marker::Destruct,
    ensures r == (if a is Some { a } else { b });
pub assume_specification<T> [std::option::Option::<T>::as_deref] (a: &std::option::Option<T>) -> (r: std::option::Option<&<T as std::ops::Deref>::Target>)
    where T: std::ops::Deref,
    ensures r is Some <==> a is Some;
pub broadcast axiom fn ax_str_string_eq_spec<'a>()
    ensures #[trigger] <&'a str as PartialEqSpec<String>>::obeys_eq_spec();
pub broadcast axiom fn ax_str_string_eq_def<'a>(a: &'a str, b: String)
    ensures #[trigger] <&'a str as PartialEqSpec<String>>::eq_spec(&a, &b) == (a@ == b@);
pub broadcast group string_eq2 { ax_str_string_eq_spec, ax_str_string_eq_def }

// Vec::dedup (std): removes consecutive repeated elements (each element is compared with the last one kept)
pub open spec fn dedup_adj<T: PartialEq>(s: Seq<T>) -> Seq<T>
    decreases s.len()
{
    if s.len() <= 1 { s } else {
        let r = dedup_adj(s.drop_last());
        if <T as PartialEqSpec<T>>::eq_spec(&r.last(), &s.last()) { r } else { r.push(s.last()) }
    }
}
pub assume_specification<T, A>[std::vec::Vec::<T, A>::dedup](v: &mut std::vec::Vec<T, A>)
    where A: std::alloc::Allocator, T: std::cmp::PartialEq,
    ensures <T as PartialEqSpec<T>>::obeys_eq_spec() ==> final(v)@ == dedup_adj(old(v)@);
pub broadcast axiom fn ax_str_str_eq_spec<'a>()
    ensures #[trigger] <&'a str as PartialEqSpec<&'a str>>::obeys_eq_spec();
pub broadcast axiom fn ax_str_str_eq_def<'a>(a: &'a str, b: &'a str)
    ensures #[trigger] <&'a str as PartialEqSpec<&'a str>>::eq_spec(&a, &b) == (a@ == b@);
pub broadcast group string_eq3 { ax_str_str_eq_spec, ax_str_str_eq_def }

// str::trim_end / trim_start / trim (std): the text without its trailing / leading white space
pub uninterp spec fn ws_char(c: char) -> bool;
pub open spec fn trimmed_end_of(r: Seq<char>, s: Seq<char>) -> bool {
    r.len() <= s.len() && r == s.take(r.len() as int) && (forall|i: int| r.len() <= i < s.len() ==> ws_char(#[trigger] s[i])) && (r.len() > 0 ==> !ws_char(r[r.len() - 1]))
}
pub open spec fn trimmed_start_of(r: Seq<char>, s: Seq<char>) -> bool {
    r.len() <= s.len() && r == s.skip(s.len() - r.len()) && (forall|i: int| 0 <= i < s.len() - r.len() ==> ws_char(#[trigger] s[i])) && (r.len() > 0 ==> !ws_char(r[0]))
}
pub assume_specification[str::trim_end](s: &str) -> (r: &str)
    ensures trimmed_end_of(r@, s@);
pub assume_specification[str::trim_start](s: &str) -> (r: &str)
    ensures trimmed_start_of(r@, s@);
pub assume_specification[str::trim](s: &str) -> (r: &str)
    ensures exists|m: Seq<char>| #![trigger trimmed_end_of(m, s@)] trimmed_end_of(m, s@) && trimmed_start_of(r@, m);

// String += &str (std AddAssign): always allowed; the resulting text is left unspecified
use vstd::std_specs::ops::*;
pub broadcast axiom fn ax_string_add_assign_req<'a>(s: String, rhs: &'a str)
    ensures #[trigger] <String as AddAssignSpec<&'a str>>::add_assign_req(&s, rhs);

// String += &str (std): the result is the concatenation (used only where a proof needs the text or its length: group string_add)
pub broadcast axiom fn ax_string_add_assign_obeys<'a>()
    ensures #[trigger] <String as AddAssignSpec<&'a str>>::obeys_add_assign_spec();
pub broadcast axiom fn ax_string_add_assign_spec<'a>(s: String, rhs: &'a str)
    ensures (#[trigger] <String as AddAssignSpec<&'a str>>::add_assign_spec(&s, rhs))@ == s@ + rhs@;
pub broadcast group string_add { ax_string_add_assign_req, ax_string_add_assign_obeys, ax_string_add_assign_spec }

// `E.parse::<usize>().unwrap()` (rule R18; FromStr is not declared to Verus): panics unless the text is a decimal usize
pub uninterp spec fn is_usize_text(s: Seq<char>) -> bool;
pub uninterp spec fn usize_of_text(s: Seq<char>) -> usize;
#[verifier::external_body]
pub fn verif_parse_usize_unwrap(s: &str) -> (r: usize)
    requires is_usize_text(s@)
    ensures r == usize_of_text(s@)
{ s.parse::<usize>().unwrap() }

// HashSet::is_disjoint (std): no common element
pub assume_specification<T: std::cmp::Eq + std::hash::Hash, S: std::hash::BuildHasher, A: std::alloc::Allocator> [std::collections::HashSet::<T, S, A>::is_disjoint] (a: &HashSet<T, S, A>, b: &HashSet<T, S, A>) -> (r: bool)
    ensures r == a@.disjoint(b@);

// ToOwned for Clone types (std blanket impl): to_owned() is clone()
pub assume_specification<T: Clone> [<T as std::borrow::ToOwned>::to_owned] (t: &T) -> (r: T)
    ensures cloned::<T>(*t, r);
