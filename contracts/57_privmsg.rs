// ===== CONTRACTS: PRIVMSG / NOTICE, one target (C01, C10) =====
// --- stand-in for flagset::FlagSet<PrivMsgTargetType> (macro-generated type; only the three operations the handler uses) ---
pub enum PrivMsgTargetType { Channel, ChannelFounder, ChannelProtected, ChannelOper, ChannelHalfOper, ChannelVoice, ChannelAll, ChannelAllSpecial }
pub struct TargetTypeSet { pub chan: bool, pub founder: bool, pub protected: bool, pub oper: bool, pub halfop: bool, pub voice: bool }
impl TargetTypeSet {
    #[verifier::external_body]
    pub fn contains(&self, t: PrivMsgTargetType) -> (r: bool)
        ensures t is Channel ==> r == self.chan
    { unimplemented!() }
    #[verifier::external_body]
    pub fn is_empty(&self) -> (r: bool)
        ensures r == (!self.chan && !self.founder && !self.protected && !self.oper && !self.halfop && !self.voice)
    { unimplemented!() }
}
pub open spec fn tt_and(s: TargetTypeSet, t: PrivMsgTargetType) -> TargetTypeSet {
    match t {
        PrivMsgTargetType::Channel => TargetTypeSet { chan: s.chan, founder: false, protected: false, oper: false, halfop: false, voice: false },
        PrivMsgTargetType::ChannelFounder => TargetTypeSet { chan: false, founder: s.founder, protected: false, oper: false, halfop: false, voice: false },
        PrivMsgTargetType::ChannelProtected => TargetTypeSet { chan: false, founder: false, protected: s.protected, oper: false, halfop: false, voice: false },
        PrivMsgTargetType::ChannelOper => TargetTypeSet { chan: false, founder: false, protected: false, oper: s.oper, halfop: false, voice: false },
        PrivMsgTargetType::ChannelHalfOper => TargetTypeSet { chan: false, founder: false, protected: false, oper: false, halfop: s.halfop, voice: false },
        PrivMsgTargetType::ChannelVoice => TargetTypeSet { chan: false, founder: false, protected: false, oper: false, halfop: false, voice: s.voice },
        PrivMsgTargetType::ChannelAll => s,
        PrivMsgTargetType::ChannelAllSpecial => TargetTypeSet { chan: false, ..s },
    }
}
impl vstd::std_specs::ops::BitAndSpecImpl<PrivMsgTargetType> for TargetTypeSet {
    open spec fn obeys_bitand_spec() -> bool { true }
    open spec fn bitand_req(self, rhs: PrivMsgTargetType) -> bool { true }
    open spec fn bitand_spec(self, rhs: PrivMsgTargetType) -> TargetTypeSet { tt_and(self, rhs) }
}
impl std::ops::BitAnd<PrivMsgTargetType> for TargetTypeSet {
    type Output = TargetTypeSet;
    #[verifier::external_body]
    fn bitand(self, rhs: PrivMsgTargetType) -> (r: TargetTypeSet) { unimplemented!() }
}
impl Copy for TargetTypeSet {}
impl Clone for TargetTypeSet { #[verifier::external_body] fn clone(&self) -> (r: Self) ensures r == *self { *self } }

//@assumed state/structs.rs get_privmsg_target_type sha=24d54439dc30 units=privmsg
// ASSUMED (status A, bounded check planned): parses the status prefixes of a PRIVMSG target; bytes().enumerate() + flagset macro types
pub uninterp spec fn target_type_spec(target: Seq<char>) -> (TargetTypeSet, Seq<char>);
#[verifier::external_body]
pub fn get_privmsg_target_type(target: &str) -> (r: (TargetTypeSet, &str))
    ensures r.0 == target_type_spec(target@).0, r.1@ == target_type_spec(target@).1
{ unimplemented!() }

// --- the speaking rule, from the statement (C10) ---
pub open spec fn may_speak(ch: Channel, me: String, src: Seq<char>) -> bool {
    &&& (ch.users@.contains_key(me) || (!ch.modes.no_external_messages && !ch.modes.secret))
    &&& !banned_spec(ch.modes, src)
    &&& (!ch.modes.moderated || (ch.users@.contains_key(me) && has_voice(ch.users@[me])))
}
// one duplicate-free pass over `set` minus the sender, one copy each
pub open spec fn fan_out(before: Seq<(int, Seq<char>)>, after: Seq<(int, Seq<char>)>, s: VolatileState, set: Set<String>, me: String, line: Seq<char>) -> bool {
    exists|order: Seq<String>|
        #![trigger order.no_duplicates()]
        order.no_duplicates()
        && (forall|n: String| order.contains(n) <==> (set.contains(n) && n != me))
        && after == before + order.map_values(|n: String| (s.users@[n].sender.id(), line))
}
// a member that holds at least one of the statuses the target names
pub open spec fn has_named_status(tt: TargetTypeSet, m: ChannelUserModes) -> bool {
    (tt.founder && m.founder) || (tt.protected && m.protected) || (tt.oper && m.operator) || (tt.halfop && m.half_oper) || (tt.voice && m.voice)
}
pub open spec fn status_audience(tt: TargetTypeSet, ch: Channel) -> Set<String> {
    ch.users@.dom().filter(|n: String| has_named_status(tt, ch.users@[n]))
}
// delivery for a channel target whose message is accepted
pub open spec fn chan_delivery(tt: TargetTypeSet, before: Seq<(int, Seq<char>)>, after: Seq<(int, Seq<char>)>, s: VolatileState, ch: Channel, me: String, line: Seq<char>) -> bool {
    if !(tt.founder || tt.protected || tt.oper || tt.halfop || tt.voice) {
        // plain channel target: every other member, once
        fan_out(before, after, s, ch.users@.dom(), me, line)
    } else {
        // status prefixes: every other member holding at least one of the named statuses, ONCE (also when it holds several of them)
        fan_out(before, after, s, status_audience(tt, ch), me, line)
    }
}
// --- the per-target postcondition as two relations, so that the enclosing handler can chain them over the distinct targets ---
// outbox side: accepted => exactly the addressed audience, once each, never the sender (C01); refused / unknown => nobody (C10)
// the relayed line: the sender's nick!user@host, the verb, the target and the text exactly as sent
#[verifier::opaque]
pub open spec fn privmsg_line(src: Seq<char>, notice: bool, target: Seq<char>, text: Seq<char>) -> Seq<char> {
    seq![':'] + src + seq![' '] + ((if notice { "NOTICE "@ } else { "PRIVMSG "@ }) + target + " :"@ + text)
}
// the line built by `format!("PRIVMSG {} :{}", target, text)` and prefixed by send_msg_display is that line (proved from the Display axioms)
pub proof fn lemma_privmsg_line(src: Seq<char>, notice: bool, target: &&str, text: &str, msg: String)
    requires msg@ == (if notice { "NOTICE "@ } else { "PRIVMSG "@ }) + dv::<&&&str>(&target) + " :"@ + dv::<&&str>(&text),
    ensures
        disp::<&String>(src, &msg) == privmsg_line(src, notice, target@, text@),
        disp::<String>(src, msg) == privmsg_line(src, notice, target@, text@),
{
    broadcast use display_text;
    reveal(privmsg_line);
    assert(dv::<&&&str>(&target) == target@);
    assert(dv::<&&str>(&text) == text@);
    assert(dv::<&String>(&msg) == msg@);
}
pub open spec fn tgt_delivery(s: VolatileState, me: String, src: Seq<char>, notice: bool, text: Seq<char>, target: Seq<char>, ob0: Seq<(int, Seq<char>)>, ob1: Seq<(int, Seq<char>)>, ok: bool) -> bool {
    let tt = target_type_spec(target).0;
    let cname = string_of(target_type_spec(target).1);
    if tt.chan {
        if s.channels@.contains_key(cname) {
            let ch = s.channels@[cname];
            if may_speak(ch, me, src) {
                ok ==> chan_delivery(tt, ob0, ob1, s, ch, me, privmsg_line(src, notice, target, text))
            } else {
                ob1 == ob0
            }
        } else {
            ob1 == ob0
        }
    } else {
        if s.users@.contains_key(string_of(target)) {
            let u = s.users@[string_of(target)];
            // the one user owning that nickname, one copy
            &&& (ok ==> ob1 == ob0.push((u.sender.id(), privmsg_line(src, notice, target, text))))
            &&& (!ok ==> ob1 == ob0)
        } else {
            ob1 == ob0
        }
    }
}
// reply side: what the sender is told about this target
pub open spec fn tgt_answer(server: Seq<char>, s: VolatileState, k: ConnState, target: Seq<char>, notice: bool, sl0: Seq<FedItem>, sl1: Seq<FedItem>, ok: bool) -> bool {
    let tt = target_type_spec(target).0;
    let cname = string_of(target_type_spec(target).1);
    let me = my_nick(k);
    let client = str_of(client_name_spec(k.user_state));
    if tt.chan {
        if s.channels@.contains_key(cname) {
            if may_speak(s.channels@[cname], me, k.user_state.source@) {
                sl1 == sl0
            } else {
                !notice ==> sl1 == sl0.push(fed(server, Reply::ErrCannotSendToChain404 { client, channel: str_of(cname@) }))
            }
        } else {
            !notice ==> sl1 == sl0.push(fed(server, Reply::ErrNoSuchChannel403 { client, channel: str_of(cname@) }))
        }
    } else {
        if s.users@.contains_key(string_of(target)) {
            let u = s.users@[string_of(target)];
            // away text is reported to a PRIVMSG sender
            &&& (!notice && u.away is Some && ok ==> sl1 == sl0.push(fed(server, Reply::RplAway301 { client, nick: str_of(target), message: str_of(u.away->0@) })))
            &&& (!notice && u.away is None ==> sl1 == sl0)
        } else {
            !notice ==> sl1 == sl0.push(fed(server, Reply::ErrNoSuchNick401 { client, nick: str_of(target) }))
        }
    }
}

impl MainState {
//@block state/rest_cmds.rs MainState::process_privmsg_notice privmsg_one_target unit=privmsg props=C01,C10,C05,C13 rules=R2,R5t,R5b,R6,R23 loopbody=~|for target in |
//@head
    pub async fn privmsg_one_target<'a>(&self, state: &VolatileState, conn_state: &mut ConnState, target: &&'a str, text: &'a str, notice: bool,
            Tracked(outbox): Tracked<&mut Outbox>) -> (r: Result<bool, HErr>)
//@prologue
        let client = conn_state.user_state.client_name();
        let user_nick = conn_state.user_state.nick.as_ref().unwrap();
        let mut something_done = false;
//@epilogue
        Ok(something_done)
//@spec
        requires
            state_wf(*state),
            conn_ok(*old(conn_state), *state),
        ensures
            conn_same_but_stream(*final(conn_state), *old(conn_state)), // @prop C10
            // NOTICE is never answered, whatever the target and the outcome
            notice ==> final(conn_state).stream.log() == old(conn_state).stream.log(), // @prop C10
            log_extends(old(conn_state).stream.log(), final(conn_state).stream.log()), // @prop C10
            // who receives what (C01; a refused or unknown target reaches nobody, C10)
            tgt_delivery(*state, my_nick(*old(conn_state)), old(conn_state).user_state.source@, notice, text@, target@, old(outbox).log, final(outbox).log, r is Ok), // @prop C01,C10
            // what the sender is told (C10)
            tgt_answer(self.config.name@, *state, *old(conn_state), target@, notice, old(conn_state).stream.log(), final(conn_state).stream.log(), r is Ok), // @prop C10
//@open
        broadcast use group_hash_axioms, bridge, string_eq, lemma_cover_is_exact;
        let ghost me = my_nick(*conn_state);
//@before ~let \(target_type, chan_str\) = get_privmsg_target_type\(target\);
                proof {
                    // the relayed text is `<verb> <target> :<text>`, whatever way it was put together
                    assert(msg_str@ == (if notice { "NOTICE "@ } else { "PRIVMSG "@ }) + dv::<&&&str>(&target) + " :"@ + dv::<&&str>(&text)) by { // @prop C01,C13
                        reveal(fmt1_text); reveal(fmt2_text); reveal(fmt3_text); reveal_strlit("");
                        assert(""@ =~= Seq::<char>::empty());
                        assert(msg_str@ =~= (if notice { "NOTICE "@ } else { "PRIVMSG "@ }) + dv::<&&&str>(&target) + " :"@ + dv::<&&str>(&text)); // @prop C01,C13
                    }
                    lemma_privmsg_line(conn_state.user_state.source@, notice, target, text, msg_str);
                }
//@before ~if can_send \{
                        let ghost ch = *chanobj;
                        let ghost cname = sk(chan_str);
                        let ghost line = disp::<&String>(conn_state.user_state.source@, &msg_str);
                        let ghost slog = conn_state.stream.log();
                        let ghost log0 = outbox.log;
                        proof { assert(chan_wf(ch)); assert(state.channels@[cname] == ch); }
                        let ghost tt = target_type;
//@before ~something_done = true;
                            proof { assert(chan_delivery(tt, log0, outbox.log, *state, ch, me, line)); }
//@before ~for \(u, chum\) in chanobj\.users\.iter\(\)
                                let ghost log_s = outbox.log;
                                let ghost mut ord_s: Seq<String> = Seq::empty();
                                let ghost mut done_s: Set<String> = Set::empty();
                                let ghost set_s = status_audience(tt, ch);
                                proof {
                                    // an empty roster: nobody to tell
                                    if ch.users@.dom().len() == 0 {
                                        let e = Seq::<String>::empty();
                                        assert(ch.users@.dom() =~= Set::<String>::empty());
                                        assert(outbox.log =~= outbox.log + e.map_values(|n: String| (state.users@[n].sender.id(), line)));
                                        assert(e.no_duplicates());
                                        assert forall|n: String| !set_s.contains(n) by { if set_s.contains(n) { assert(ch.users@.dom().contains(n)); } }
                                        assert forall|n: String| e.contains(n) <==> (set_s.contains(n) && n != me) by { }
                                        assert(outbox.log == log_s);
                                        assert(fan_out(log_s, outbox.log, *state, set_s, me, line));
                                    }
                                }
//@loop ~for \(u, chum\) in chanobj\.users\.iter\(\) iter=it_s
                                    invariant
                                        it_s.seq().no_duplicates(), it_s.seq().len() == ch.users@.dom().len(),
                                        forall|i: int| 0 <= i < it_s.seq().len() ==> ch.users@.contains_key(*(#[trigger] it_s.seq()[i]).0) && ch.users@[*it_s.seq()[i].0] == *it_s.seq()[i].1,
                                        forall|q: String| ch.users@.contains_key(q) ==> exists|i: int| 0 <= i < it_s.seq().len() && *(#[trigger] it_s.seq()[i]).0 == q,
                                        forall|c: String| done_s.contains(c) <==> (exists|j: int| 0 <= j < it_s.index@ && *(#[trigger] it_s.seq()[j]).0 == c),
                                        ord_s.no_duplicates(),
                                        forall|i: int| 0 <= i < ord_s.len() ==> done_s.contains(#[trigger] ord_s[i]) && ord_s[i] != me && set_s.contains(ord_s[i]),
                                        forall|c: String| done_s.contains(c) && c != me && set_s.contains(c) ==> #[trigger] ord_s.contains(c),
                                        outbox.log == log_s + ord_s.map_values(|n: String| (state.users@[n].sender.id(), line)), // @prop C01
                                        it_s.index@ == it_s.seq().len() ==> fan_out(log_s, outbox.log, *state, set_s, me, line), // @prop C01
                                        conn_state.stream.log() == slog, conn_same_but_stream(*conn_state, *old(conn_state)),
                                        state_wf(*state), state.channels@.contains_key(cname), state.channels@[cname] == ch, chan_wf(ch), line == disp::<&String>(conn_state.user_state.source@, &msg_str), slog == old(conn_state).stream.log(), tt == target_type_spec(target@).0, cname == string_of(target_type_spec(target@).1), tt.chan, me == my_nick(*old(conn_state)),
                                        may_speak(ch, me, old(conn_state).user_state.source@), // @prop C10
                                        set_s == status_audience(tt, ch), *user_nick == me, tt == target_type, *chanobj == ch,
//@after ~for \(u, chum\) in chanobj\.users\.iter\(\)
                                    broadcast use group_hash_axioms, bridge, string_eq;
                                    let ghost sent_before = outbox.log;
                                    proof {
                                        assert(ch.users@.contains_key(*u) && ch.users@[*u] == *chum);
                                        assert(member(*state, *u, cname));
                                        assert(!done_s.contains(*u)) by {
                                            if done_s.contains(*u) {
                                                let j = choose|j: int| 0 <= j < it_s.index@ && *(#[trigger] it_s.seq()[j]).0 == *u;
                                                assert(*it_s.seq()[j].1 == ch.users@[*u]);
                                                assert(it_s.seq()[j] == it_s.seq()[it_s.index@ as int]);
                                            }
                                        }
                                    }
//@endloop ~for \(u, chum\) in chanobj\.users\.iter\(\)
                                    proof {
                                        let f = |n: String| (state.users@[n].sender.id(), line);
                                        let old_ord = ord_s;
                                        assert(string_of(u@) == *u && string_of(me@) == me);
                                        // a copy was sent exactly to a member other than the sender that holds one of the named statuses
                                        assert(outbox.log == sent_before || outbox.log == sent_before.push(f(*u))); // @prop C01
                                        assert((outbox.log != sent_before) <==> (u@ != me@ && set_s.contains(*u))); // @prop C01
                                        if outbox.log != sent_before {
                                            assert(!old_ord.contains(*u)) by {
                                                if old_ord.contains(*u) { let i = choose|i: int| 0 <= i < old_ord.len() && old_ord[i] == *u; assert(done_s.contains(old_ord[i])); }
                                            }
                                            assert(old_ord.push(*u).map_values(f) =~= old_ord.map_values(f).push(f(*u)));
                                            ord_s = old_ord.push(*u);
                                            assert(ord_s[old_ord.len() as int] == *u);
                                        }
                                        done_s = done_s.insert(*u);
                                        assert forall|c: String| done_s.contains(c) && c != me && set_s.contains(c) implies #[trigger] ord_s.contains(c) by {
                                            if c == *u { assert(ord_s[old_ord.len() as int] == c); }
                                            else { assert(old_ord.contains(c)); let i = choose|i: int| 0 <= i < old_ord.len() && old_ord[i] == c; assert(ord_s[i] == c); }
                                        }
                                    }
                                    assert(it_s.index@ + 1 == it_s.seq().len() ==> fan_out(log_s, outbox.log, *state, set_s, me, line)) by { // @prop C01
                                        if it_s.index@ + 1 == it_s.seq().len() {
                                            assert forall|n: String| ord_s.contains(n) <==> (set_s.contains(n) && n != me) by {
                                                if ord_s.contains(n) { let i = choose|i: int| 0 <= i < ord_s.len() && ord_s[i] == n; assert(done_s.contains(ord_s[i])); }
                                                if set_s.contains(n) && n != me {
                                                    let i = choose|i: int| 0 <= i < it_s.seq().len() && *(#[trigger] it_s.seq()[i]).0 == n;
                                                    assert(done_s.contains(n));
                                                }
                                            }
                                            assert(ord_s.no_duplicates());
                                            assert(outbox.log == log_s + ord_s.map_values(|n: String| (state.users@[n].sender.id(), line)));
                                            assert(fan_out(log_s, outbox.log, *state, set_s, me, line));
                                        }
                                    }
//@before ~for u in chanobj\.users\.keys\(\)
                                        let ghost log_a = outbox.log;
                                        let ghost mut ord_a: Seq<String> = Seq::empty();
                                        let ghost mut done_a: Set<String> = Set::empty();
                                        let ghost set_a = chanobj.users@.dom();
//@loop ~for u in chanobj\.users\.keys\(\) iter=it_a
                                            invariant
                                                it_a.seq().no_duplicates(), it_a.seq().len() == set_a.len(),
                                                forall|q: String| set_a.contains(q) ==> exists|i: int| 0 <= i < it_a.seq().len() && *#[trigger] it_a.seq()[i] == q,
                                                forall|i: int| 0 <= i < it_a.seq().len() ==> set_a.contains(*#[trigger] it_a.seq()[i]),
                                                forall|c: String| done_a.contains(c) <==> (exists|j: int| 0 <= j < it_a.index@ && *#[trigger] it_a.seq()[j] == c),
                                                ord_a.no_duplicates(),
                                                forall|i: int| 0 <= i < ord_a.len() ==> done_a.contains(#[trigger] ord_a[i]) && ord_a[i] != me,
                                                forall|c: String| done_a.contains(c) && c != me ==> #[trigger] ord_a.contains(c),
                                                outbox.log == log_a + ord_a.map_values(|n: String| (state.users@[n].sender.id(), line)), // @prop C01
                                                conn_state.stream.log() == slog, conn_same_but_stream(*conn_state, *old(conn_state)),
                                                state_wf(*state), state.channels@.contains_key(cname), state.channels@[cname] == ch, chan_wf(ch), line == disp::<&String>(conn_state.user_state.source@, &msg_str), slog == old(conn_state).stream.log(), tt == target_type_spec(target@).0, cname == string_of(target_type_spec(target@).1), tt.chan, me == my_nick(*old(conn_state)),
                                                may_speak(ch, me, old(conn_state).user_state.source@), // @prop C10
                                                set_a == ch.users@.dom(), *user_nick == me,
//@after ~for u in chanobj\.users\.keys\(\)
                                            broadcast use group_hash_axioms, bridge, string_eq, lemma_cover_is_exact;
                                            proof {
                                                assert(set_a.contains(*u));
                                                assert(ch.users@.contains_key(*u));
                                                assert(member(*state, *u, cname));
                                                assert(!done_a.contains(*u));
                                            }
//@endloop ~for u in chanobj\.users\.keys\(\)
                                            proof {
                                                let f = |n: String| (state.users@[n].sender.id(), line);
                                                let old_ord = ord_a;
                                                assert(string_of(u@) == *u && string_of(me@) == me);
                                                if u@ != me@ {
                                                    assert(!old_ord.contains(*u)) by {
                                                        if old_ord.contains(*u) { let i = choose|i: int| 0 <= i < old_ord.len() && old_ord[i] == *u; assert(done_a.contains(old_ord[i])); }
                                                    }
                                                    assert(old_ord.push(*u).map_values(f) =~= old_ord.map_values(f).push(f(*u)));
                                                    ord_a = old_ord.push(*u);
                                                    assert(ord_a[old_ord.len() as int] == *u);
                                                }
                                                done_a = done_a.insert(*u);
                                                assert forall|c: String| done_a.contains(c) && c != me implies #[trigger] ord_a.contains(c) by {
                                                    if c == *u { assert(ord_a[old_ord.len() as int] == c); }
                                                    else { assert(old_ord.contains(c)); let i = choose|i: int| 0 <= i < old_ord.len() && old_ord[i] == c; assert(ord_a[i] == c); }
                                                }
                                            }
//@afterloop ~for u in chanobj\.users\.keys\(\)
                                        proof {
                                            assert forall|n: String| ord_a.contains(n) <==> (set_a.contains(n) && n != me) by {
                                                if ord_a.contains(n) { let i = choose|i: int| 0 <= i < ord_a.len() && ord_a[i] == n; assert(done_a.contains(ord_a[i])); }
                                                if set_a.contains(n) && n != me { assert(done_a.contains(n)); }
                                            }
                                            assert(fan_out(log_a, outbox.log, *state, set_a, me, line));
                                        }
//@end
}

// ===== CONTRACT: the whole PRIVMSG / NOTICE handler: every DISTINCT target exactly once (C01), activity stamp only (C19/C04 frame) =====
// ASSUMED (rule R21): `HashSet::<&&str>::from_iter(targets.iter())` iterated by value = the distinct targets, each once, in an
// unspecified order (hash / equality of `&&str` are those of the text).
pub open spec fn ref_views(r: Seq<&&str>) -> Seq<Seq<char>> { r.map_values(|t: &&str| (**t)@) }
pub open spec fn str_views(v: Seq<&str>) -> Seq<Seq<char>> { v.map_values(|t: &str| t@) }
#[verifier::external_body]
pub fn verif_distinct_refs<'b, 'a>(v: &'b Vec<&'a str>) -> (r: Vec<&'b &'a str>)
    ensures ref_views(r@).no_duplicates(), ref_views(r@).to_set() == str_views(v@).to_set(),
{ unimplemented!() }

// the chain of per-target effects: logs[i] -> logs[i+1] is the effect of the i-th distinct target
pub open spec fn privmsg_chain(server: Seq<char>, s: VolatileState, k: ConnState, notice: bool, text: Seq<char>, order: Seq<Seq<char>>,
        obs: Seq<Seq<(int, Seq<char>)>>, sls: Seq<Seq<FedItem>>) -> bool {
    &&& obs.len() == order.len() + 1 && sls.len() == order.len() + 1
    &&& forall|i: int| 0 <= i < order.len() ==> #[trigger] tgt_delivery(s, my_nick(k), k.user_state.source@, notice, text, order[i], obs[i], obs[i + 1], true)
    &&& forall|i: int| 0 <= i < order.len() ==> #[trigger] tgt_answer(server, s, k, order[i], notice, sls[i], sls[i + 1], true)
}
pub open spec fn privmsg_post(server: Seq<char>, s: VolatileState, k: ConnState, notice: bool, text: Seq<char>, targets: Seq<Seq<char>>,
        ob0: Seq<(int, Seq<char>)>, ob1: Seq<(int, Seq<char>)>, sl0: Seq<FedItem>, sl1: Seq<FedItem>) -> bool {
    exists|order: Seq<Seq<char>>, obs: Seq<Seq<(int, Seq<char>)>>, sls: Seq<Seq<FedItem>>|
        #![trigger privmsg_chain(server, s, k, notice, text, order, obs, sls)]
        // every distinct target, exactly once
        order.no_duplicates() && order.to_set() == targets.to_set()
        && privmsg_chain(server, s, k, notice, text, order, obs, sls)
        && obs[0] == ob0 && obs[order.len() as int] == ob1 && sls[0] == sl0 && sls[order.len() as int] == sl1
}
// nothing of the shared state changes but the sender's own activity stamp
pub open spec fn activity_only(o: VolatileState, n: VolatileState, me: String) -> bool {
    &&& o.users@.contains_key(me)
    &&& n.users@ == o.users@.insert(me, User { last_activity: n.users@[me].last_activity, ..o.users@[me] })
    &&& n.channels == o.channels && state_rest_same(o, n)
}

// the handler runs in two critical sections (deliveries under the read lock, then - if something was delivered - the activity stamp under
// the write lock): in between the other connections may have run (others_ran); the stamp is this handler's only own change
pub open spec fn sections_then_stamp(o: VolatileState, n: VolatileState, rid: int, me: String) -> bool {
    n == o || exists|mid: VolatileState| others_ran(o, mid, rid) && #[trigger] activity_only(mid, n, me)
}

impl MainState {
//@fn state/rest_cmds.rs MainState::process_privmsg_notice unit=privmsg2 props=C01,C10,C05,C04 rules=R1,R2,R6,R21
//@blockcall privmsg_one_target acc=something_done rebind=user_nick
                let sd__ = self.privmsg_one_target(&*state, conn_state, target, text, notice, Tracked(outbox)).await?;
                if sd__ { something_done = true; }
//@spec
        requires state_wf(*old(state)), conn_ok(*old(conn_state), *old(state)),
        ensures
            conn_same_but_stream(*final(conn_state), *old(conn_state)), // @prop C01
            r is Ok ==> privmsg_post(self.config.name@, *old(state), *old(conn_state), notice, text@, str_views(targets@),
                old(outbox).log, final(outbox).log, old(conn_state).stream.log(), final(conn_state).stream.log()), // @prop C01
            // NOTICE is never answered
            notice ==> final(conn_state).stream.log() == old(conn_state).stream.log(), // @prop C10
            log_extends(old(conn_state).stream.log(), final(conn_state).stream.log()), // @prop C10
            // the registry is only read; the one thing written (in a second critical section) is the sender's activity stamp
            sections_then_stamp(*old(state), *final(state), old(conn_state).receiver.id(), my_nick(*old(conn_state))), // @prop C04
            sym(*final(state)), // @prop C04,C05
            chans_wf(*final(state)), // @prop C04,C08
            no_empty_chan(*final(state)), // @prop C16
            wallops_wf(*final(state)), // @prop C11,C06,C05
            counters_wf(*final(state)), // @prop C19
            senders_distinct(*final(state)), // @prop C02,C01
            conn_ok(*final(conn_state), *final(state)), // @prop C04
//@open
        broadcast use group_hash_axioms, bridge, string_eq;
        let ghost o = *old(state);
        let ghost k0 = *old(conn_state);
        let ghost me = my_nick(k0);
        let ghost server = self.config.name@;
        let ghost mut order: Seq<Seq<char>> = Seq::empty();
        let ghost mut obs: Seq<Seq<(int, Seq<char>)>> = seq![outbox.log];
        let ghost mut sls: Seq<Seq<FedItem>> = seq![conn_state.stream.log()];
//@loop ~for target in  iter=itt
                invariant
                    o == *old(state),
                    *state == o, state_wf(o), conn_ok(k0, o), k0 == *old(conn_state), me == my_nick(k0), server == self.config.name@,
                    conn_same_but_stream(*conn_state, k0), // @prop C01
                    // the targets iterated are the distinct ones
                    ref_views(itt.seq()).no_duplicates(), ref_views(itt.seq()).to_set() == str_views(targets@).to_set(), // @prop C01
                    itt.index@ == itt.seq().len() ==> order.no_duplicates() && order.to_set() == str_views(targets@).to_set(), // @prop C01
                    order == ref_views(itt.seq()).take(itt.index@ as int), // @prop C01
                    privmsg_chain(server, o, k0, notice, text@, order, obs, sls), // @prop C01,C10
                    obs[0] == old(outbox).log, obs[order.len() as int] == outbox.log, // @prop C01
                    sls[0] == old(conn_state).stream.log(), sls[order.len() as int] == conn_state.stream.log(), // @prop C10
                    notice ==> conn_state.stream.log() == old(conn_state).stream.log(), // @prop C10
                    log_extends(old(conn_state).stream.log(), conn_state.stream.log()), // @prop C10
//@after ~for target in 
                let ghost ob_pre = outbox.log;
                let ghost sl_pre = conn_state.stream.log();
                let ghost kpre = *conn_state;
//@endloop ~for target in 
                proof {
                    let t = (**target)@;
                    let i = itt.index@ as int;
                    assert(ref_views(itt.seq())[i] == t);
                    assert(ref_views(itt.seq()).take(i + 1) =~= order.push(t));
                    if i + 1 == itt.seq().len() { assert(ref_views(itt.seq()).take(i + 1) =~= ref_views(itt.seq())); }
                    let order0 = order; let obs0 = obs; let sls0 = sls;
                    order = order0.push(t);
                    obs = obs0.push(outbox.log);
                    sls = sls0.push(conn_state.stream.log());
                    assert(my_nick(kpre) == me && kpre.user_state == k0.user_state);
                    assert(tgt_delivery(o, me, k0.user_state.source@, notice, text@, t, ob_pre, outbox.log, true));
                    assert(tgt_answer(server, o, kpre, t, notice, sl_pre, conn_state.stream.log(), true));
                    assert(tgt_answer(server, o, k0, t, notice, sl_pre, conn_state.stream.log(), true));
                    assert forall|j: int| 0 <= j < order.len() implies #[trigger] tgt_delivery(o, me, k0.user_state.source@, notice, text@, order[j], obs[j], obs[j + 1], true) by {
                        if j < order0.len() { assert(tgt_delivery(o, my_nick(k0), k0.user_state.source@, notice, text@, order0[j], obs0[j], obs0[j + 1], true)); }
                    }
                    assert forall|j: int| 0 <= j < order.len() implies #[trigger] tgt_answer(server, o, k0, order[j], notice, sls[j], sls[j + 1], true) by {
                        if j < order0.len() { assert(tgt_answer(server, o, k0, order0[j], notice, sls0[j], sls0[j + 1], true)); }
                    }
                }
//@afterloop ~for target in 
        proof {
            assert(privmsg_post(server, o, k0, notice, text@, str_views(targets@), old(outbox).log, outbox.log, old(conn_state).stream.log(), conn_state.stream.log()));
        }
//@before ~let user = state\.users\.get_mut\(user_nick\)\.unwrap\(\);
                let ghost mid = *state;
                proof {
                    assert(others_ran(o, mid, k0.receiver.id()));
                    assert(mid.users@.contains_key(me) && mid.users@[me].sender.id() == k0.receiver.id());
                }
//@after ~user\.last_activity = 
                proof {
                    assert(state.users@ =~= mid.users@.insert(me, User { last_activity: state.users@[me].last_activity, ..mid.users@[me] }));
                    assert(activity_only(mid, *state, me));
                    lemma_user_field_wf(mid, *state, me);
                }
//@end
}
