// ===== CONTRACTS: PRIVMSG / NOTICE, one target (C01, C10) =====
// --- stand-in for flagset::FlagSet<PrivMsgTargetType> (macro-generated type; only the three operations the handler uses) ---
pub enum PrivMsgTargetType { Channel, ChannelFounder, ChannelProtected, ChannelOper, ChannelHalfOper, ChannelVoice, ChannelAll, ChannelAllSpecial }
pub struct TargetTypeSet { pub chan: bool, pub founder: bool, pub protected: bool, pub oper: bool, pub halfop: bool, pub voice: bool }
impl TargetTypeSet {
    #[verifier::external_body]
    pub fn contains(&self, t: PrivMsgTargetType) -> (r: bool)
        ensures t is Channel ==> r == self.chan
    { unimplemented!() }
    #[verifier::external_body]
    pub fn is_empty(&self) -> (r: bool)
        ensures r == (!self.chan && !self.founder && !self.protected && !self.oper && !self.halfop && !self.voice)
    { unimplemented!() }
}
pub open spec fn tt_and(s: TargetTypeSet, t: PrivMsgTargetType) -> TargetTypeSet {
    match t {
        PrivMsgTargetType::Channel => TargetTypeSet { chan: s.chan, founder: false, protected: false, oper: false, halfop: false, voice: false },
        PrivMsgTargetType::ChannelFounder => TargetTypeSet { chan: false, founder: s.founder, protected: false, oper: false, halfop: false, voice: false },
        PrivMsgTargetType::ChannelProtected => TargetTypeSet { chan: false, founder: false, protected: s.protected, oper: false, halfop: false, voice: false },
        PrivMsgTargetType::ChannelOper => TargetTypeSet { chan: false, founder: false, protected: false, oper: s.oper, halfop: false, voice: false },
        PrivMsgTargetType::ChannelHalfOper => TargetTypeSet { chan: false, founder: false, protected: false, oper: false, halfop: s.halfop, voice: false },
        PrivMsgTargetType::ChannelVoice => TargetTypeSet { chan: false, founder: false, protected: false, oper: false, halfop: false, voice: s.voice },
        PrivMsgTargetType::ChannelAll => s,
        PrivMsgTargetType::ChannelAllSpecial => TargetTypeSet { chan: false, ..s },
    }
}
impl vstd::std_specs::ops::BitAndSpecImpl<PrivMsgTargetType> for TargetTypeSet {
    open spec fn obeys_bitand_spec() -> bool { true }
    open spec fn bitand_req(self, rhs: PrivMsgTargetType) -> bool { true }
    open spec fn bitand_spec(self, rhs: PrivMsgTargetType) -> TargetTypeSet { tt_and(self, rhs) }
}
impl std::ops::BitAnd<PrivMsgTargetType> for TargetTypeSet {
    type Output = TargetTypeSet;
    #[verifier::external_body]
    fn bitand(self, rhs: PrivMsgTargetType) -> (r: TargetTypeSet) { unimplemented!() }
}
impl Copy for TargetTypeSet {}
impl Clone for TargetTypeSet { #[verifier::external_body] fn clone(&self) -> (r: Self) ensures r == *self { *self } }

// ASSUMED (status A, bounded check planned): parses the status prefixes of a PRIVMSG target; bytes().enumerate() + flagset macro types
pub uninterp spec fn target_type_spec(target: Seq<char>) -> (TargetTypeSet, Seq<char>);
#[verifier::external_body]
pub fn get_privmsg_target_type(target: &str) -> (r: (TargetTypeSet, &str))
    ensures r.0 == target_type_spec(target@).0, r.1@ == target_type_spec(target@).1
{ unimplemented!() }

// --- the speaking rule, from the statement (C10) ---
pub open spec fn may_speak(ch: Channel, me: String, src: Seq<char>) -> bool {
    &&& (ch.users@.contains_key(me) || (!ch.modes.no_external_messages && !ch.modes.secret))
    &&& !banned_spec(ch.modes, src)
    &&& (!ch.modes.moderated || (ch.users@.contains_key(me) && has_voice(ch.users@[me])))
}
// one duplicate-free pass over `set` minus the sender, one copy each
pub open spec fn fan_out(before: Seq<(int, Seq<char>)>, after: Seq<(int, Seq<char>)>, s: VolatileState, set: Set<String>, me: String, line: Seq<char>) -> bool {
    exists|order: Seq<String>|
        #![trigger order.no_duplicates()]
        order.no_duplicates()
        && (forall|n: String| order.contains(n) <==> (set.contains(n) && n != me))
        && after == before + order.map_values(|n: String| (s.users@[n].sender.id(), line))
}
pub open spec fn opt_fan_out(on: bool, before: Seq<(int, Seq<char>)>, after: Seq<(int, Seq<char>)>, s: VolatileState, set: Option<HashSet<String>>, me: String, line: Seq<char>) -> bool {
    if on && set is Some { fan_out(before, after, s, set->0@, me, line) } else { after == before }
}
// delivery for a channel target whose message is accepted
pub open spec fn chan_delivery(tt: TargetTypeSet, before: Seq<(int, Seq<char>)>, after: Seq<(int, Seq<char>)>, s: VolatileState, ch: Channel, me: String, line: Seq<char>) -> bool {
    if !(tt.founder || tt.protected || tt.oper || tt.halfop || tt.voice) {
        // plain channel target: every other member, once
        fan_out(before, after, s, ch.users@.dom(), me, line)
    } else {
        // status prefixes: one pass per named status list, in this order
        exists|l1: Seq<(int, Seq<char>)>, l2: Seq<(int, Seq<char>)>, l3: Seq<(int, Seq<char>)>, l4: Seq<(int, Seq<char>)>|
            #![trigger opt_fan_out(tt.founder, before, l1, s, ch.modes.founders, me, line), opt_fan_out(tt.protected, l1, l2, s, ch.modes.protecteds, me, line), opt_fan_out(tt.oper, l2, l3, s, ch.modes.operators, me, line), opt_fan_out(tt.halfop, l3, l4, s, ch.modes.half_operators, me, line)]
            opt_fan_out(tt.founder, before, l1, s, ch.modes.founders, me, line)
            && opt_fan_out(tt.protected, l1, l2, s, ch.modes.protecteds, me, line)
            && opt_fan_out(tt.oper, l2, l3, s, ch.modes.operators, me, line)
            && opt_fan_out(tt.halfop, l3, l4, s, ch.modes.half_operators, me, line)
            && opt_fan_out(tt.voice, l4, after, s, ch.modes.voices, me, line)
    }
}

impl MainState {
//@block state/rest_cmds.rs MainState::process_privmsg_notice privmsg_one_target unit=privmsg props=C01,C10,C05 rules=R2,R5t,R5b,R6 loopbody=~|for target in HashSet::<&&str>::from_iter\(targets\.iter\(\)\)|
//@head
    pub async fn privmsg_one_target<'a>(&self, state: &VolatileState, conn_state: &mut ConnState, target: &&'a str, text: &'a str, notice: bool,
            Tracked(outbox): Tracked<&mut Outbox>) -> (r: Result<bool, HErr>)
//@prologue
        let client = conn_state.user_state.client_name();
        let user_nick = conn_state.user_state.nick.as_ref().unwrap();
        let mut something_done = false;
//@epilogue
        Ok(something_done)
//@spec
        requires
            state_wf(*state),
            conn_ok(*old(conn_state), *state),
        ensures
            conn_same_but_stream(*final(conn_state), *old(conn_state)), // @prop C10
            // NOTICE is never answered, whatever the target and the outcome
            notice ==> final(conn_state).stream.log() == old(conn_state).stream.log(), // @prop C10
            log_extends(old(conn_state).stream.log(), final(conn_state).stream.log()), // @prop C10
            ({
                let tt = target_type_spec(target@).0;
                let cname = string_of(target_type_spec(target@).1);
                let me = my_nick(*old(conn_state));
                let src = old(conn_state).user_state.source@;
                if tt.chan {
                    if state.channels@.contains_key(cname) {
                        let ch = state.channels@[cname];
                        if may_speak(ch, me, src) {
                            // accepted: exactly the addressed audience, once each, never the sender  (C01)
                            &&& (r is Ok ==> exists|line: Seq<char>| chan_delivery(tt, old(outbox).log, final(outbox).log, *state, ch, me, line)) // @prop C01
                            &&& final(conn_state).stream.log() == old(conn_state).stream.log()
                        } else {
                            // refused: nobody receives it; a PRIVMSG sender is told 404  (C10)
                            &&& final(outbox).log == old(outbox).log // @prop C10
                            &&& (!notice ==> final(conn_state).stream.log() == old(conn_state).stream.log().push(fed(self.config.name@,
                                    Reply::ErrCannotSendToChain404 { client: str_of(client_name_spec(old(conn_state).user_state)), channel: str_of(cname@) })))
                        }
                    } else {
                        &&& final(outbox).log == old(outbox).log
                        &&& (!notice ==> final(conn_state).stream.log() == old(conn_state).stream.log().push(fed(self.config.name@,
                                Reply::ErrNoSuchChannel403 { client: str_of(client_name_spec(old(conn_state).user_state)), channel: str_of(cname@) })))
                    }
                } else {
                    if state.users@.contains_key(sk(*target)) {
                        let u = state.users@[sk(*target)];
                        // the one user owning that nickname, one copy
                        &&& (r is Ok ==> exists|line: Seq<char>| final(outbox).log == old(outbox).log.push((u.sender.id(), line))) // @prop C01
                        &&& (r is Err ==> final(outbox).log == old(outbox).log)
                        // away text is reported to a PRIVMSG sender
                        &&& (!notice && u.away is Some && r is Ok ==> final(conn_state).stream.log() == old(conn_state).stream.log().push(fed(self.config.name@, // @prop C10
                                Reply::RplAway301 { client: str_of(client_name_spec(old(conn_state).user_state)), nick: *target, message: str_of(u.away->0@) })))
                        &&& (!notice && u.away is None ==> final(conn_state).stream.log() == old(conn_state).stream.log())
                    } else {
                        &&& final(outbox).log == old(outbox).log
                        &&& (!notice ==> final(conn_state).stream.log() == old(conn_state).stream.log().push(fed(self.config.name@,
                                Reply::ErrNoSuchNick401 { client: str_of(client_name_spec(old(conn_state).user_state)), nick: *target })))
                    }
                }
            }),
//@open
        broadcast use group_hash_axioms, bridge, string_eq, lemma_cover_is_exact;
        let ghost me = my_nick(*conn_state);
//@before ~if can_send \{
                        let ghost ch = *chanobj;
                        let ghost cname = sk(chan_str);
                        let ghost line = disp::<&String>(conn_state.user_state.source@, &msg_str);
                        let ghost slog = conn_state.stream.log();
                        let ghost log0 = outbox.log;
                        proof { assert(chan_wf(ch)); assert(state.channels@[cname] == ch); }
                        let ghost tt = target_type;
                        let ghost mut st1 = outbox.log;
                        let ghost mut st2 = outbox.log;
                        let ghost mut st3 = outbox.log;
                        let ghost mut st4 = outbox.log;
//@before ~if !\(target_type & ChannelProtected\)\.is_empty\(\)
                                proof { st1 = outbox.log; assert(opt_fan_out(tt.founder, log0, st1, *state, ch.modes.founders, me, line)); }
//@before ~if !\(target_type & ChannelOper\)\.is_empty\(\)
                                proof { st2 = outbox.log; assert(opt_fan_out(tt.protected, st1, st2, *state, ch.modes.protecteds, me, line)); }
//@before ~if !\(target_type & ChannelHalfOper\)\.is_empty\(\)
                                proof { st3 = outbox.log; assert(opt_fan_out(tt.oper, st2, st3, *state, ch.modes.operators, me, line)); }
//@before ~if !\(target_type & ChannelVoice\)\.is_empty\(\)
                                proof { st4 = outbox.log; assert(opt_fan_out(tt.halfop, st3, st4, *state, ch.modes.half_operators, me, line)); }
//@before ~something_done = true;
                            proof {
                                if tt.founder || tt.protected || tt.oper || tt.halfop || tt.voice {
                                    assert(opt_fan_out(tt.voice, st4, outbox.log, *state, ch.modes.voices, me, line));
                                }
                                assert(chan_delivery(tt, log0, outbox.log, *state, ch, me, line));
                            }
//@before ~for u in founders\.iter\(\)
                                        let ghost log_f = outbox.log;
                                        let ghost mut ord_f: Seq<String> = Seq::empty();
                                        let ghost mut done_f: Set<String> = Set::empty();
                                        let ghost set_f = founders@;
//@loop ~for u in founders\.iter\(\) iter=it_f
                                            invariant
                                                it_f.seq().no_duplicates(), it_f.seq().len() == set_f.len(),
                                                forall|q: String| set_f.contains(q) ==> exists|i: int| 0 <= i < it_f.seq().len() && *#[trigger] it_f.seq()[i] == q,
                                                forall|i: int| 0 <= i < it_f.seq().len() ==> set_f.contains(*#[trigger] it_f.seq()[i]),
                                                forall|c: String| done_f.contains(c) <==> (exists|j: int| 0 <= j < it_f.index@ && *#[trigger] it_f.seq()[j] == c),
                                                ord_f.no_duplicates(),
                                                forall|i: int| 0 <= i < ord_f.len() ==> done_f.contains(#[trigger] ord_f[i]) && ord_f[i] != me,
                                                forall|c: String| done_f.contains(c) && c != me ==> #[trigger] ord_f.contains(c),
                                                outbox.log == log_f + ord_f.map_values(|n: String| (state.users@[n].sender.id(), line)), // @prop C01
                                                conn_state.stream.log() == slog, conn_same_but_stream(*conn_state, *old(conn_state)),
                                                state_wf(*state), state.channels@.contains_key(cname), state.channels@[cname] == ch, chan_wf(ch), line == disp::<&String>(conn_state.user_state.source@, &msg_str), slog == old(conn_state).stream.log(), tt == target_type_spec(target@).0, cname == string_of(target_type_spec(target@).1), tt.chan, me == my_nick(*old(conn_state)),
                                                may_speak(ch, me, old(conn_state).user_state.source@), // @prop C10
                                                set_f == oset(ch.modes.founders), *user_nick == me,
//@after ~for u in founders\.iter\(\)
                                            broadcast use group_hash_axioms, bridge, string_eq, lemma_cover_is_exact;
                                            proof {
                                                assert(set_f == oset(ch.modes.founders));
                                                assert(set_f.contains(*u));
                                                assert(ch.users@.contains_key(*u));
                                                assert(member(*state, *u, cname));
                                                assert(!done_f.contains(*u));
                                            }
//@endloop ~for u in founders\.iter\(\)
                                            proof {
                                                let f = |n: String| (state.users@[n].sender.id(), line);
                                                let old_ord = ord_f;
                                                assert(string_of(u@) == *u && string_of(me@) == me);
                                                if u@ != me@ {
                                                    assert(!old_ord.contains(*u)) by {
                                                        if old_ord.contains(*u) { let i = choose|i: int| 0 <= i < old_ord.len() && old_ord[i] == *u; assert(done_f.contains(old_ord[i])); }
                                                    }
                                                    assert(old_ord.push(*u).map_values(f) =~= old_ord.map_values(f).push(f(*u)));
                                                    ord_f = old_ord.push(*u);
                                                    assert(ord_f[old_ord.len() as int] == *u);
                                                }
                                                done_f = done_f.insert(*u);
                                                assert forall|c: String| done_f.contains(c) && c != me implies #[trigger] ord_f.contains(c) by {
                                                    if c == *u { assert(ord_f[old_ord.len() as int] == c); }
                                                    else { assert(old_ord.contains(c)); let i = choose|i: int| 0 <= i < old_ord.len() && old_ord[i] == c; assert(ord_f[i] == c); }
                                                }
                                            }
//@afterloop ~for u in founders\.iter\(\)
                                        proof {
                                            assert forall|n: String| ord_f.contains(n) <==> (set_f.contains(n) && n != me) by {
                                                if ord_f.contains(n) { let i = choose|i: int| 0 <= i < ord_f.len() && ord_f[i] == n; assert(done_f.contains(ord_f[i])); }
                                                if set_f.contains(n) && n != me { assert(done_f.contains(n)); }
                                            }
                                            assert(fan_out(log_f, outbox.log, *state, set_f, me, line));
                                        }
//@before ~for u in protecteds\.iter\(\)
                                        let ghost log_p = outbox.log;
                                        let ghost mut ord_p: Seq<String> = Seq::empty();
                                        let ghost mut done_p: Set<String> = Set::empty();
                                        let ghost set_p = protecteds@;
//@loop ~for u in protecteds\.iter\(\) iter=it_p
                                            invariant
                                                it_p.seq().no_duplicates(), it_p.seq().len() == set_p.len(),
                                                forall|q: String| set_p.contains(q) ==> exists|i: int| 0 <= i < it_p.seq().len() && *#[trigger] it_p.seq()[i] == q,
                                                forall|i: int| 0 <= i < it_p.seq().len() ==> set_p.contains(*#[trigger] it_p.seq()[i]),
                                                forall|c: String| done_p.contains(c) <==> (exists|j: int| 0 <= j < it_p.index@ && *#[trigger] it_p.seq()[j] == c),
                                                ord_p.no_duplicates(),
                                                forall|i: int| 0 <= i < ord_p.len() ==> done_p.contains(#[trigger] ord_p[i]) && ord_p[i] != me,
                                                forall|c: String| done_p.contains(c) && c != me ==> #[trigger] ord_p.contains(c),
                                                outbox.log == log_p + ord_p.map_values(|n: String| (state.users@[n].sender.id(), line)), // @prop C01
                                                conn_state.stream.log() == slog, conn_same_but_stream(*conn_state, *old(conn_state)),
                                                state_wf(*state), state.channels@.contains_key(cname), state.channels@[cname] == ch, chan_wf(ch), line == disp::<&String>(conn_state.user_state.source@, &msg_str), slog == old(conn_state).stream.log(), tt == target_type_spec(target@).0, cname == string_of(target_type_spec(target@).1), tt.chan, me == my_nick(*old(conn_state)),
                                                may_speak(ch, me, old(conn_state).user_state.source@), // @prop C10
                                                set_p == oset(ch.modes.protecteds), *user_nick == me,
//@after ~for u in protecteds\.iter\(\)
                                            broadcast use group_hash_axioms, bridge, string_eq, lemma_cover_is_exact;
                                            proof {
                                                assert(set_p == oset(ch.modes.protecteds));
                                                assert(set_p.contains(*u));
                                                assert(ch.users@.contains_key(*u));
                                                assert(member(*state, *u, cname));
                                                assert(!done_p.contains(*u));
                                            }
//@endloop ~for u in protecteds\.iter\(\)
                                            proof {
                                                let f = |n: String| (state.users@[n].sender.id(), line);
                                                let old_ord = ord_p;
                                                assert(string_of(u@) == *u && string_of(me@) == me);
                                                if u@ != me@ {
                                                    assert(!old_ord.contains(*u)) by {
                                                        if old_ord.contains(*u) { let i = choose|i: int| 0 <= i < old_ord.len() && old_ord[i] == *u; assert(done_p.contains(old_ord[i])); }
                                                    }
                                                    assert(old_ord.push(*u).map_values(f) =~= old_ord.map_values(f).push(f(*u)));
                                                    ord_p = old_ord.push(*u);
                                                    assert(ord_p[old_ord.len() as int] == *u);
                                                }
                                                done_p = done_p.insert(*u);
                                                assert forall|c: String| done_p.contains(c) && c != me implies #[trigger] ord_p.contains(c) by {
                                                    if c == *u { assert(ord_p[old_ord.len() as int] == c); }
                                                    else { assert(old_ord.contains(c)); let i = choose|i: int| 0 <= i < old_ord.len() && old_ord[i] == c; assert(ord_p[i] == c); }
                                                }
                                            }
//@afterloop ~for u in protecteds\.iter\(\)
                                        proof {
                                            assert forall|n: String| ord_p.contains(n) <==> (set_p.contains(n) && n != me) by {
                                                if ord_p.contains(n) { let i = choose|i: int| 0 <= i < ord_p.len() && ord_p[i] == n; assert(done_p.contains(ord_p[i])); }
                                                if set_p.contains(n) && n != me { assert(done_p.contains(n)); }
                                            }
                                            assert(fan_out(log_p, outbox.log, *state, set_p, me, line));
                                        }
//@before ~for u in operators\.iter\(\)
                                        let ghost log_o = outbox.log;
                                        let ghost mut ord_o: Seq<String> = Seq::empty();
                                        let ghost mut done_o: Set<String> = Set::empty();
                                        let ghost set_o = operators@;
//@loop ~for u in operators\.iter\(\) iter=it_o
                                            invariant
                                                it_o.seq().no_duplicates(), it_o.seq().len() == set_o.len(),
                                                forall|q: String| set_o.contains(q) ==> exists|i: int| 0 <= i < it_o.seq().len() && *#[trigger] it_o.seq()[i] == q,
                                                forall|i: int| 0 <= i < it_o.seq().len() ==> set_o.contains(*#[trigger] it_o.seq()[i]),
                                                forall|c: String| done_o.contains(c) <==> (exists|j: int| 0 <= j < it_o.index@ && *#[trigger] it_o.seq()[j] == c),
                                                ord_o.no_duplicates(),
                                                forall|i: int| 0 <= i < ord_o.len() ==> done_o.contains(#[trigger] ord_o[i]) && ord_o[i] != me,
                                                forall|c: String| done_o.contains(c) && c != me ==> #[trigger] ord_o.contains(c),
                                                outbox.log == log_o + ord_o.map_values(|n: String| (state.users@[n].sender.id(), line)), // @prop C01
                                                conn_state.stream.log() == slog, conn_same_but_stream(*conn_state, *old(conn_state)),
                                                state_wf(*state), state.channels@.contains_key(cname), state.channels@[cname] == ch, chan_wf(ch), line == disp::<&String>(conn_state.user_state.source@, &msg_str), slog == old(conn_state).stream.log(), tt == target_type_spec(target@).0, cname == string_of(target_type_spec(target@).1), tt.chan, me == my_nick(*old(conn_state)),
                                                may_speak(ch, me, old(conn_state).user_state.source@), // @prop C10
                                                set_o == oset(ch.modes.operators), *user_nick == me,
//@after ~for u in operators\.iter\(\)
                                            broadcast use group_hash_axioms, bridge, string_eq, lemma_cover_is_exact;
                                            proof {
                                                assert(set_o == oset(ch.modes.operators));
                                                assert(set_o.contains(*u));
                                                assert(ch.users@.contains_key(*u));
                                                assert(member(*state, *u, cname));
                                                assert(!done_o.contains(*u));
                                            }
//@endloop ~for u in operators\.iter\(\)
                                            proof {
                                                let f = |n: String| (state.users@[n].sender.id(), line);
                                                let old_ord = ord_o;
                                                assert(string_of(u@) == *u && string_of(me@) == me);
                                                if u@ != me@ {
                                                    assert(!old_ord.contains(*u)) by {
                                                        if old_ord.contains(*u) { let i = choose|i: int| 0 <= i < old_ord.len() && old_ord[i] == *u; assert(done_o.contains(old_ord[i])); }
                                                    }
                                                    assert(old_ord.push(*u).map_values(f) =~= old_ord.map_values(f).push(f(*u)));
                                                    ord_o = old_ord.push(*u);
                                                    assert(ord_o[old_ord.len() as int] == *u);
                                                }
                                                done_o = done_o.insert(*u);
                                                assert forall|c: String| done_o.contains(c) && c != me implies #[trigger] ord_o.contains(c) by {
                                                    if c == *u { assert(ord_o[old_ord.len() as int] == c); }
                                                    else { assert(old_ord.contains(c)); let i = choose|i: int| 0 <= i < old_ord.len() && old_ord[i] == c; assert(ord_o[i] == c); }
                                                }
                                            }
//@afterloop ~for u in operators\.iter\(\)
                                        proof {
                                            assert forall|n: String| ord_o.contains(n) <==> (set_o.contains(n) && n != me) by {
                                                if ord_o.contains(n) { let i = choose|i: int| 0 <= i < ord_o.len() && ord_o[i] == n; assert(done_o.contains(ord_o[i])); }
                                                if set_o.contains(n) && n != me { assert(done_o.contains(n)); }
                                            }
                                            assert(fan_out(log_o, outbox.log, *state, set_o, me, line));
                                        }
//@before ~for u in half_ops\.iter\(\)
                                        let ghost log_h = outbox.log;
                                        let ghost mut ord_h: Seq<String> = Seq::empty();
                                        let ghost mut done_h: Set<String> = Set::empty();
                                        let ghost set_h = half_ops@;
//@loop ~for u in half_ops\.iter\(\) iter=it_h
                                            invariant
                                                it_h.seq().no_duplicates(), it_h.seq().len() == set_h.len(),
                                                forall|q: String| set_h.contains(q) ==> exists|i: int| 0 <= i < it_h.seq().len() && *#[trigger] it_h.seq()[i] == q,
                                                forall|i: int| 0 <= i < it_h.seq().len() ==> set_h.contains(*#[trigger] it_h.seq()[i]),
                                                forall|c: String| done_h.contains(c) <==> (exists|j: int| 0 <= j < it_h.index@ && *#[trigger] it_h.seq()[j] == c),
                                                ord_h.no_duplicates(),
                                                forall|i: int| 0 <= i < ord_h.len() ==> done_h.contains(#[trigger] ord_h[i]) && ord_h[i] != me,
                                                forall|c: String| done_h.contains(c) && c != me ==> #[trigger] ord_h.contains(c),
                                                outbox.log == log_h + ord_h.map_values(|n: String| (state.users@[n].sender.id(), line)), // @prop C01
                                                conn_state.stream.log() == slog, conn_same_but_stream(*conn_state, *old(conn_state)),
                                                state_wf(*state), state.channels@.contains_key(cname), state.channels@[cname] == ch, chan_wf(ch), line == disp::<&String>(conn_state.user_state.source@, &msg_str), slog == old(conn_state).stream.log(), tt == target_type_spec(target@).0, cname == string_of(target_type_spec(target@).1), tt.chan, me == my_nick(*old(conn_state)),
                                                may_speak(ch, me, old(conn_state).user_state.source@), // @prop C10
                                                set_h == oset(ch.modes.half_operators), *user_nick == me,
//@after ~for u in half_ops\.iter\(\)
                                            broadcast use group_hash_axioms, bridge, string_eq, lemma_cover_is_exact;
                                            proof {
                                                assert(set_h == oset(ch.modes.half_operators));
                                                assert(set_h.contains(*u));
                                                assert(ch.users@.contains_key(*u));
                                                assert(member(*state, *u, cname));
                                                assert(!done_h.contains(*u));
                                            }
//@endloop ~for u in half_ops\.iter\(\)
                                            proof {
                                                let f = |n: String| (state.users@[n].sender.id(), line);
                                                let old_ord = ord_h;
                                                assert(string_of(u@) == *u && string_of(me@) == me);
                                                if u@ != me@ {
                                                    assert(!old_ord.contains(*u)) by {
                                                        if old_ord.contains(*u) { let i = choose|i: int| 0 <= i < old_ord.len() && old_ord[i] == *u; assert(done_h.contains(old_ord[i])); }
                                                    }
                                                    assert(old_ord.push(*u).map_values(f) =~= old_ord.map_values(f).push(f(*u)));
                                                    ord_h = old_ord.push(*u);
                                                    assert(ord_h[old_ord.len() as int] == *u);
                                                }
                                                done_h = done_h.insert(*u);
                                                assert forall|c: String| done_h.contains(c) && c != me implies #[trigger] ord_h.contains(c) by {
                                                    if c == *u { assert(ord_h[old_ord.len() as int] == c); }
                                                    else { assert(old_ord.contains(c)); let i = choose|i: int| 0 <= i < old_ord.len() && old_ord[i] == c; assert(ord_h[i] == c); }
                                                }
                                            }
//@afterloop ~for u in half_ops\.iter\(\)
                                        proof {
                                            assert forall|n: String| ord_h.contains(n) <==> (set_h.contains(n) && n != me) by {
                                                if ord_h.contains(n) { let i = choose|i: int| 0 <= i < ord_h.len() && ord_h[i] == n; assert(done_h.contains(ord_h[i])); }
                                                if set_h.contains(n) && n != me { assert(done_h.contains(n)); }
                                            }
                                            assert(fan_out(log_h, outbox.log, *state, set_h, me, line));
                                        }
//@before ~for u in voices\.iter\(\)
                                        let ghost log_v = outbox.log;
                                        let ghost mut ord_v: Seq<String> = Seq::empty();
                                        let ghost mut done_v: Set<String> = Set::empty();
                                        let ghost set_v = voices@;
//@loop ~for u in voices\.iter\(\) iter=it_v
                                            invariant
                                                it_v.seq().no_duplicates(), it_v.seq().len() == set_v.len(),
                                                forall|q: String| set_v.contains(q) ==> exists|i: int| 0 <= i < it_v.seq().len() && *#[trigger] it_v.seq()[i] == q,
                                                forall|i: int| 0 <= i < it_v.seq().len() ==> set_v.contains(*#[trigger] it_v.seq()[i]),
                                                forall|c: String| done_v.contains(c) <==> (exists|j: int| 0 <= j < it_v.index@ && *#[trigger] it_v.seq()[j] == c),
                                                ord_v.no_duplicates(),
                                                forall|i: int| 0 <= i < ord_v.len() ==> done_v.contains(#[trigger] ord_v[i]) && ord_v[i] != me,
                                                forall|c: String| done_v.contains(c) && c != me ==> #[trigger] ord_v.contains(c),
                                                outbox.log == log_v + ord_v.map_values(|n: String| (state.users@[n].sender.id(), line)), // @prop C01
                                                conn_state.stream.log() == slog, conn_same_but_stream(*conn_state, *old(conn_state)),
                                                state_wf(*state), state.channels@.contains_key(cname), state.channels@[cname] == ch, chan_wf(ch), line == disp::<&String>(conn_state.user_state.source@, &msg_str), slog == old(conn_state).stream.log(), tt == target_type_spec(target@).0, cname == string_of(target_type_spec(target@).1), tt.chan, me == my_nick(*old(conn_state)),
                                                may_speak(ch, me, old(conn_state).user_state.source@), // @prop C10
                                                set_v == oset(ch.modes.voices), *user_nick == me,
//@after ~for u in voices\.iter\(\)
                                            broadcast use group_hash_axioms, bridge, string_eq, lemma_cover_is_exact;
                                            proof {
                                                assert(set_v == oset(ch.modes.voices));
                                                assert(set_v.contains(*u));
                                                assert(ch.users@.contains_key(*u));
                                                assert(member(*state, *u, cname));
                                                assert(!done_v.contains(*u));
                                            }
//@endloop ~for u in voices\.iter\(\)
                                            proof {
                                                let f = |n: String| (state.users@[n].sender.id(), line);
                                                let old_ord = ord_v;
                                                assert(string_of(u@) == *u && string_of(me@) == me);
                                                if u@ != me@ {
                                                    assert(!old_ord.contains(*u)) by {
                                                        if old_ord.contains(*u) { let i = choose|i: int| 0 <= i < old_ord.len() && old_ord[i] == *u; assert(done_v.contains(old_ord[i])); }
                                                    }
                                                    assert(old_ord.push(*u).map_values(f) =~= old_ord.map_values(f).push(f(*u)));
                                                    ord_v = old_ord.push(*u);
                                                    assert(ord_v[old_ord.len() as int] == *u);
                                                }
                                                done_v = done_v.insert(*u);
                                                assert forall|c: String| done_v.contains(c) && c != me implies #[trigger] ord_v.contains(c) by {
                                                    if c == *u { assert(ord_v[old_ord.len() as int] == c); }
                                                    else { assert(old_ord.contains(c)); let i = choose|i: int| 0 <= i < old_ord.len() && old_ord[i] == c; assert(ord_v[i] == c); }
                                                }
                                            }
//@afterloop ~for u in voices\.iter\(\)
                                        proof {
                                            assert forall|n: String| ord_v.contains(n) <==> (set_v.contains(n) && n != me) by {
                                                if ord_v.contains(n) { let i = choose|i: int| 0 <= i < ord_v.len() && ord_v[i] == n; assert(done_v.contains(ord_v[i])); }
                                                if set_v.contains(n) && n != me { assert(done_v.contains(n)); }
                                            }
                                            assert(fan_out(log_v, outbox.log, *state, set_v, me, line));
                                        }
//@before ~for u in chanobj\.users\.keys\(\)
                                        let ghost log_a = outbox.log;
                                        let ghost mut ord_a: Seq<String> = Seq::empty();
                                        let ghost mut done_a: Set<String> = Set::empty();
                                        let ghost set_a = chanobj.users@.dom();
//@loop ~for u in chanobj\.users\.keys\(\) iter=it_a
                                            invariant
                                                it_a.seq().no_duplicates(), it_a.seq().len() == set_a.len(),
                                                forall|q: String| set_a.contains(q) ==> exists|i: int| 0 <= i < it_a.seq().len() && *#[trigger] it_a.seq()[i] == q,
                                                forall|i: int| 0 <= i < it_a.seq().len() ==> set_a.contains(*#[trigger] it_a.seq()[i]),
                                                forall|c: String| done_a.contains(c) <==> (exists|j: int| 0 <= j < it_a.index@ && *#[trigger] it_a.seq()[j] == c),
                                                ord_a.no_duplicates(),
                                                forall|i: int| 0 <= i < ord_a.len() ==> done_a.contains(#[trigger] ord_a[i]) && ord_a[i] != me,
                                                forall|c: String| done_a.contains(c) && c != me ==> #[trigger] ord_a.contains(c),
                                                outbox.log == log_a + ord_a.map_values(|n: String| (state.users@[n].sender.id(), line)), // @prop C01
                                                conn_state.stream.log() == slog, conn_same_but_stream(*conn_state, *old(conn_state)),
                                                state_wf(*state), state.channels@.contains_key(cname), state.channels@[cname] == ch, chan_wf(ch), line == disp::<&String>(conn_state.user_state.source@, &msg_str), slog == old(conn_state).stream.log(), tt == target_type_spec(target@).0, cname == string_of(target_type_spec(target@).1), tt.chan, me == my_nick(*old(conn_state)),
                                                may_speak(ch, me, old(conn_state).user_state.source@), // @prop C10
                                                set_a == ch.users@.dom(), *user_nick == me,
//@after ~for u in chanobj\.users\.keys\(\)
                                            broadcast use group_hash_axioms, bridge, string_eq, lemma_cover_is_exact;
                                            proof {
                                                assert(set_a.contains(*u));
                                                assert(ch.users@.contains_key(*u));
                                                assert(member(*state, *u, cname));
                                                assert(!done_a.contains(*u));
                                            }
//@endloop ~for u in chanobj\.users\.keys\(\)
                                            proof {
                                                let f = |n: String| (state.users@[n].sender.id(), line);
                                                let old_ord = ord_a;
                                                assert(string_of(u@) == *u && string_of(me@) == me);
                                                if u@ != me@ {
                                                    assert(!old_ord.contains(*u)) by {
                                                        if old_ord.contains(*u) { let i = choose|i: int| 0 <= i < old_ord.len() && old_ord[i] == *u; assert(done_a.contains(old_ord[i])); }
                                                    }
                                                    assert(old_ord.push(*u).map_values(f) =~= old_ord.map_values(f).push(f(*u)));
                                                    ord_a = old_ord.push(*u);
                                                    assert(ord_a[old_ord.len() as int] == *u);
                                                }
                                                done_a = done_a.insert(*u);
                                                assert forall|c: String| done_a.contains(c) && c != me implies #[trigger] ord_a.contains(c) by {
                                                    if c == *u { assert(ord_a[old_ord.len() as int] == c); }
                                                    else { assert(old_ord.contains(c)); let i = choose|i: int| 0 <= i < old_ord.len() && old_ord[i] == c; assert(ord_a[i] == c); }
                                                }
                                            }
//@afterloop ~for u in chanobj\.users\.keys\(\)
                                        proof {
                                            assert forall|n: String| ord_a.contains(n) <==> (set_a.contains(n) && n != me) by {
                                                if ord_a.contains(n) { let i = choose|i: int| 0 <= i < ord_a.len() && ord_a[i] == n; assert(done_a.contains(ord_a[i])); }
                                                if set_a.contains(n) && n != me { assert(done_a.contains(n)); }
                                            }
                                            assert(fan_out(log_a, outbox.log, *state, set_a, me, line));
                                        }
//@end
}
