// ===== CONTRACTS: MODE on channels (C08) and the MODE dispatcher (C11) =====
// the text of a MODE query (324) is the Display of ChannelModes: a trusted stub in the prelude (total, text not modelled), pinned to its text
//@assumed config.rs fmt::Display+for+ChannelModes::fmt sha=dbaf02d7a803 units=modechan
//@assumed config.rs fmt::Display+for+UserModes::fmt sha=4a6ca83eabc9 units=oper
//@assumed utils.rs normalize_sourcemask sha=1e898ad3f656 units=modeletter
// ASSUMED (status A): completes nick / nick@host / nick!user with wildcards (byte-level str::find and slicing are outside the prelude)
pub uninterp spec fn norm_mask_spec(mask: Seq<char>) -> Seq<char>;
#[verifier::external_body]
pub fn normalize_sourcemask(mask: &str) -> (r: String)
    ensures r@ == norm_mask_spec(mask@)
{ unimplemented!() }

// ---- what Command::validate guarantees about a mode string and its arguments (assumed contract of the parser, status A) ----
pub open spec fn takes_nick(c: char) -> bool { c == 'o' || c == 'v' || c == 'h' || c == 'q' || c == 'a' }
pub open spec fn takes_mask(c: char) -> bool { c == 'b' || c == 'e' || c == 'I' }
// (sign, arguments consumed) before position i, as the validator walks the string
pub open spec fn vstate(ms: Seq<char>, i: int, n: int) -> (bool, int)
    decreases i
{
    if i <= 0 { (false, 0) } else {
        let p = vstate(ms, i - 1, n);
        let ch = ms[i - 1];
        if ch == '+' { (true, p.1) } else if ch == '-' { (false, p.1) }
        else if takes_mask(ch) { (p.0, if p.1 < n { p.1 + 1 } else { p.1 }) }
        else if takes_nick(ch) { (p.0, p.1 + 1) }
        else if ch == 'l' || ch == 'k' { (p.0, if p.0 { p.1 + 1 } else { p.1 }) }
        else { p }
    }
}
pub open spec fn mode_args_ok(ms: Seq<char>, args: Seq<&str>) -> bool {
    forall|i: int| 0 <= i < ms.len() ==> {
        let st = #[trigger] vstate(ms, i, args.len() as int);
        &&& (takes_nick(ms[i]) ==> st.1 < args.len())
        &&& ((ms[i] == 'l' || ms[i] == 'k') && st.0 ==> st.1 < args.len())
        &&& (ms[i] == 'l' && st.0 ==> is_usize_text(args[st.1]@))
    }
}
pub open spec fn all_mode_args_ok(modes: Seq<(&str, Vec<&str>)>) -> bool {
    forall|k: int| 0 <= k < modes.len() ==> mode_args_ok((#[trigger] modes[k]).0@, modes[k].1@)
}


// ---- the EFFECT of an accepted mode string on the flags, key and limit (C08: "each accepted change is applied") ----
pub ghost struct ModeVals { pub i: bool, pub m: bool, pub t: bool, pub n: bool, pub s: bool, pub key: Option<Seq<char>>, pub limit: Option<usize> }
pub open spec fn mv_of(m: ChannelModes) -> ModeVals {
    ModeVals { i: m.invite_only, m: m.moderated, t: m.protected_topic, n: m.no_external_messages, s: m.secret,
        key: (if m.key is Some { Some(m.key->0@) } else { None }), limit: m.client_limit }
}
// one letter, with the sign in force and the argument it consumes (l and k only when setting)
pub open spec fn mv_step(v: ModeVals, c: char, set: bool, arg: Seq<char>) -> ModeVals {
    if c == 'i' { ModeVals { i: set, ..v } }
    else if c == 'm' { ModeVals { m: set, ..v } }
    else if c == 't' { ModeVals { t: set, ..v } }
    else if c == 'n' { ModeVals { n: set, ..v } }
    else if c == 's' { ModeVals { s: set, ..v } }
    else if c == 'l' { ModeVals { limit: (if set { Some(usize_of_text(arg)) } else { None }), ..v } }
    else if c == 'k' { ModeVals { key: (if set { Some(arg) } else { None }), ..v } }
    else { v }
}
pub open spec fn arg_at(args: Seq<&str>, k: int) -> Seq<char> { if 0 <= k < args.len() { args[k]@ } else { Seq::empty() } }
// the first i letters of one mode string applied from the left
#[verifier::opaque]
pub open spec fn mv_after(ms: Seq<char>, args: Seq<&str>, i: int, v0: ModeVals) -> ModeVals
    decreases i
{
    if i <= 0 { v0 } else {
        let st = vstate(ms, i - 1, args.len() as int);
        mv_step(mv_after(ms, args, i - 1, v0), ms[i - 1], st.0, arg_at(args, st.1))
    }
}
// the first k (mode string, arguments) pairs applied from the left
#[verifier::opaque]
pub open spec fn mv_all(mds: Seq<(&str, Vec<&str>)>, k: int, v0: ModeVals) -> ModeVals
    decreases k
{
    if k <= 0 { v0 } else { mv_after(mds[k - 1].0@, mds[k - 1].1@, mds[k - 1].0@.len() as int, mv_all(mds, k - 1, v0)) }
}

// ---- the EFFECT of a rank letter (o v h q a) and of a list letter (b e I) ----
pub open spec fn rank_of_letter(c: char) -> int { if c == 'q' { 0 } else if c == 'a' { 1 } else if c == 'o' { 2 } else if c == 'h' { 3 } else { 4 } }
pub open spec fn rank_entitled(c: char, chum: ChannelUserModes) -> bool {
    if c == 'q' { chum.founder } else if c == 'a' { is_prot(chum) } else if c == 'o' || c == 'h' { is_op(chum) } else { half_op(chum) }
}
pub open spec fn list_of(c: char, m: ChannelModes) -> Set<String> { if c == 'b' { oset(m.ban) } else if c == 'e' { oset(m.exception) } else { oset(m.invite_exception) } }

// ---- the privilege matrix of the statement, as frame conditions ----
pub open spec fn flags_eq(a: ChannelModes, b: ChannelModes) -> bool {
    a.invite_only == b.invite_only && a.moderated == b.moderated && a.secret == b.secret
    && a.protected_topic == b.protected_topic && a.no_external_messages == b.no_external_messages
}
pub open spec fn rank_flag(m: ChannelUserModes, which: int) -> bool {
    if which == 0 { m.founder } else if which == 1 { m.protected } else if which == 2 { m.operator } else if which == 3 { m.half_oper } else { m.voice }
}
pub open spec fn rank_same(o: Channel, n: Channel, which: int) -> bool {
    rank_set(n, which) == rank_set(o, which)
    && forall|u: String| o.users@.contains_key(u) ==> rank_flag(#[trigger] n.users@[u], which) == rank_flag(o.users@[u], which)
}
pub open spec fn mode_frame(o: Channel, n: Channel, chum: ChannelUserModes) -> bool {
    // never touched by MODE
    &&& n.users@.dom() == o.users@.dom() && n.topic == o.topic && n.default_modes == o.default_modes
    &&& n.creation_time == o.creation_time && n.preconfigured == o.preconfigured
    // founder status (q): only a founder
    &&& (!chum.founder ==> rank_same(o, n, 0))
    // protected (a): founder or protected
    &&& (!is_prot(chum) ==> rank_same(o, n, 1))
    // operator, half-operator (o, h): operator or above
    &&& (!is_op(chum) ==> rank_same(o, n, 2) && rank_same(o, n, 3))
    // voice, lists, key, limit, flags: half-operator or above
    &&& (!half_op(chum) ==> rank_same(o, n, 4) && n.modes.ban == o.modes.ban && n.modes.exception == o.modes.exception
            && n.modes.invite_exception == o.modes.invite_exception && n.modes.key == o.modes.key
            && n.modes.client_limit == o.modes.client_limit && flags_eq(n.modes, o.modes) && n.ban_info == o.ban_info)
}
pub proof fn lemma_rank_change_frame(o: Channel, m: Channel, n: Channel, nick: String, which: int, v: bool, chum: ChannelUserModes)
    requires mode_frame(o, m, chum), rank_change(m, n, nick, which, v), m.users@.contains_key(nick), 0 <= which <= 4,
        which == 0 ==> chum.founder, which == 1 ==> is_prot(chum), which == 2 || which == 3 ==> is_op(chum), which == 4 ==> half_op(chum),
    ensures mode_frame(o, n, chum)
{
    assert(n.users@.dom() =~= o.users@.dom());
    assert forall|w: int| 0 <= w <= 4 && w != which && rank_same(o, m, w) implies rank_same(o, n, w) by {
        assert forall|u: String| o.users@.contains_key(u) implies rank_flag(#[trigger] n.users@[u], w) == rank_flag(o.users@[u], w) by {
            assert(rank_flag(m.users@[u], w) == rank_flag(o.users@[u], w));
        }
    }
}

// every nickname in `members` got exactly one copy of `line` (sender ids taken from the user table), nobody else got anything
pub open spec fn delivered_to(old_log: Seq<(int, Seq<char>)>, new_log: Seq<(int, Seq<char>)>, users: Map<String, User>, members: Set<String>, line: Seq<char>) -> bool {
    exists|order: Seq<String>|
        #![trigger order.no_duplicates()]
        order.no_duplicates()
        && (forall|n: String| order.contains(n) <==> members.contains(n))
        && new_log == old_log + order.map_values(|n: String| (users[n].sender.id(), line))
}
// bookkeeping of the argument iterator against the validator's walk (vstate): `rem` = what margs_it has left before letter idx
pub open spec fn args_inv(ms: Seq<char>, args: Seq<&str>, idx: int, rem: Seq<&&str>, half: bool) -> bool {
    let n = args.len() as int;
    &&& rem.len() <= n
    &&& n - rem.len() <= vstate(ms, idx, n).1
    &&& (half ==> n - rem.len() == vstate(ms, idx, n).1)
    &&& forall|t: int| 0 <= t < rem.len() ==> (#[trigger] rem[t]) == &args[n - rem.len() + t]
}
// the actor lacks the rank the letter needs (first match of the loop body: answered with 482)
pub open spec fn letter_refused(c: char, chum: ChannelUserModes) -> bool {
    ||| (c == 'q' && !chum.founder)
    ||| (c == 'a' && !is_prot(chum))
    ||| ((c == 'o' || c == 'h') && !is_op(chum))
    ||| ((c == 'i' || c == 'm' || c == 't' || c == 'n' || c == 's' || c == 'l' || c == 'k' || c == 'v') && !half_op(chum))
}

impl MainState {
// ---- block A: the privilege check of one letter (first `match mchar`): lower ranks are answered with ERR_CHANOPRIVSNEEDED ----
//@block state/srv_query_cmds.rs MainState::process_mode_channel mode_check_privs unit=modeletter props=C08,C05 rules=R2 from=~|match mchar \{| fromk=1 balanced=1
//@head
    pub async fn mode_check_privs<'a>(&self, conn_state: &mut ConnState, chum: &ChannelUserModes, target: &'a str, mchar: char, if_op: bool, if_half_op: bool) -> (r: Result<(), HErr>)
//@prologue
        let client = conn_state.user_state.client_name();
//@epilogue
        Ok(())
//@spec
        requires if_op == is_op(*chum), if_half_op == half_op(*chum),
        ensures
            conn_same_but_stream(*final(conn_state), *old(conn_state)), // @prop C08
            r is Ok,
            letter_refused(mchar, *chum) ==> final(conn_state).stream.log() == old(conn_state).stream.log().push(fed(self.config.name@,
                Reply::ErrChanOpPrivsNeeded482 { client: str_of(client_name_spec(old(conn_state).user_state)), channel: target })), // @prop C08
            !letter_refused(mchar, *chum) ==> final(conn_state).stream.log() == old(conn_state).stream.log(), // @prop C08
//@open
        broadcast use bridge;
//@end

// ---- block B: the effect of one letter (second `match mchar`) ----
//@block state/srv_query_cmds.rs MainState::process_mode_channel mode_apply_letter unit=modeletter props=C08,C05,C10,C07 rules=R2,R14,R18 from=~|match mchar \{| fromk=2 balanced=1
//@iterize ban,exception,inv_ex
//@head
    pub async fn mode_apply_letter<'a>(&self, conn_state: &mut ConnState, chanobj: &mut Channel, chum: &ChannelUserModes, target: &'a str, mchar: char,
            mode_set_in: bool, margs_it: &mut std::slice::Iter<'_, &'a str>, if_op: bool, if_half_op: bool,
            set_modes_string_in: String, unset_modes_string_in: String, modes_params_string_in: String,
            Ghost(o): Ghost<Channel>, Ghost(ms): Ghost<Seq<char>>, Ghost(args): Ghost<Seq<&str>>, Ghost(idx): Ghost<int>)
            -> (r: Result<(bool, String, String, String), HErr>)
//@prologue
        let client = conn_state.user_state.client_name();
//@glue
        let mut mode_set = mode_set_in;
        let mut set_modes_string = set_modes_string_in;
        let mut unset_modes_string = unset_modes_string_in;
        let mut modes_params_string = modes_params_string_in;
//@epilogue
        Ok((mode_set, set_modes_string, unset_modes_string, modes_params_string))
//@spec
        requires
            chan_wf(*old(chanobj)),
            old(conn_state).user_state.nick is Some,
            mode_frame(o, *old(chanobj), *chum),
            if_op == is_op(*chum), if_half_op == half_op(*chum),
            0 <= idx < ms.len(), mchar == ms[idx], mode_args_ok(ms, args),
            mode_set_in == vstate(ms, idx, args.len() as int).0,
            args_inv(ms, args, idx, IteratorSpec::remaining(&*old(margs_it)), if_half_op),
        ensures
            conn_same_but_stream(*final(conn_state), *old(conn_state)), // @prop C08
            chan_wf(*final(chanobj)), // @prop C04
            // a change needs the rank the statement demands; everything the actor is not entitled to stays as it was
            mode_frame(o, *final(chanobj), *chum), // @prop C08,C10,C07
            r is Ok ==> (r->Ok_0).0 == vstate(ms, idx + 1, args.len() as int).0, // @prop C08
            r is Ok ==> args_inv(ms, args, idx + 1, IteratorSpec::remaining(&*final(margs_it)), if_half_op), // @prop C05
//@open
        broadcast use group_hash_axioms, bridge, ax_string_add_assign_req, lemma_cover_is_exact;
        let ghost n = args.len() as int;
        let ghost rem0 = IteratorSpec::remaining(&*margs_it);
        proof {
            let st = vstate(ms, idx, n);
            assert(vstate(ms, idx + 1, n) == (
                if mchar == '+' { (true, st.1) } else if mchar == '-' { (false, st.1) }
                else if takes_mask(mchar) { (st.0, if st.1 < n { st.1 + 1 } else { st.1 }) }
                else if takes_nick(mchar) { (st.0, st.1 + 1) }
                else if mchar == 'l' || mchar == 'k' { (st.0, if st.0 { st.1 + 1 } else { st.1 }) }
                else { st })) by { reveal_with_fuel(vstate, 2); }
        }
//@before ~chanobj\.add_operator\(arg\);
                                                let ghost mid = *chanobj;
//@after ~chanobj\.add_operator\(arg\);
                                                proof { lemma_rank_change_frame(o, mid, *chanobj, sk(arg), 2, true, *chum); }
//@before ~chanobj\.remove_operator\(arg\);
                                                let ghost mid = *chanobj;
//@after ~chanobj\.remove_operator\(arg\);
                                                proof { lemma_rank_change_frame(o, mid, *chanobj, sk(arg), 2, false, *chum); }
//@before ~chanobj\.add_voice\(arg\);
                                                let ghost mid = *chanobj;
//@after ~chanobj\.add_voice\(arg\);
                                                proof { lemma_rank_change_frame(o, mid, *chanobj, sk(arg), 4, true, *chum); }
//@before ~chanobj\.remove_voice\(arg\);
                                                let ghost mid = *chanobj;
//@after ~chanobj\.remove_voice\(arg\);
                                                proof { lemma_rank_change_frame(o, mid, *chanobj, sk(arg), 4, false, *chum); }
//@before ~chanobj\.add_half_operator\(arg\);
                                                let ghost mid = *chanobj;
//@after ~chanobj\.add_half_operator\(arg\);
                                                proof { lemma_rank_change_frame(o, mid, *chanobj, sk(arg), 3, true, *chum); }
//@before ~chanobj\.remove_half_operator\(arg\);
                                                let ghost mid = *chanobj;
//@after ~chanobj\.remove_half_operator\(arg\);
                                                proof { lemma_rank_change_frame(o, mid, *chanobj, sk(arg), 3, false, *chum); }
//@before ~chanobj\.add_founder\(arg\);
                                                let ghost mid = *chanobj;
//@after ~chanobj\.add_founder\(arg\);
                                                proof { lemma_rank_change_frame(o, mid, *chanobj, sk(arg), 0, true, *chum); }
//@before ~chanobj\.remove_founder\(arg\);
                                                let ghost mid = *chanobj;
//@after ~chanobj\.remove_founder\(arg\);
                                                proof { lemma_rank_change_frame(o, mid, *chanobj, sk(arg), 0, false, *chum); }
//@before ~chanobj\.add_protected\(arg\);
                                                let ghost mid = *chanobj;
//@after ~chanobj\.add_protected\(arg\);
                                                proof { lemma_rank_change_frame(o, mid, *chanobj, sk(arg), 1, true, *chum); }
//@before ~chanobj\.remove_protected\(arg\);
                                                let ghost mid = *chanobj;
//@after ~chanobj\.remove_protected\(arg\);
                                                proof { lemma_rank_change_frame(o, mid, *chanobj, sk(arg), 1, false, *chum); }
//@loop ~for b in ban\.iter\(\) iter=itb
                                        invariant conn_same_but_stream(*conn_state, *old(conn_state)),
//@loop ~for e in exception\.iter\(\) iter=ite
                                        invariant conn_same_but_stream(*conn_state, *old(conn_state)),
//@loop ~for e in inv_ex\.iter\(\) iter=iti
                                        invariant conn_same_but_stream(*conn_state, *old(conn_state)),
//@end

// ---- block B, second proof pass over the same text: the EFFECT of the letter (kept apart from the frame / well-formedness pass: every
// postcondition is re-proved on each of the ~70 paths of the match, and the quantified context of chan_wf / mode_frame makes that expensive) ----
//@block state/srv_query_cmds.rs MainState::process_mode_channel mode_apply_letter_effect unit=modeletter2 props=C08 passof=mode_apply_letter
//@spec
        requires
            old(conn_state).user_state.nick is Some,
            if_op == is_op(*chum), if_half_op == half_op(*chum),
            0 <= idx < ms.len(), mchar == ms[idx], mode_args_ok(ms, args),
            mode_set_in == vstate(ms, idx, args.len() as int).0,
            args_inv(ms, args, idx, IteratorSpec::remaining(&*old(margs_it)), if_half_op),
        ensures
            // an entitled actor gets the flag / key / limit letter applied with the sign in force
            r is Ok && if_half_op ==> mv_of(final(chanobj).modes) == mv_step(mv_of(old(chanobj).modes), mchar, mode_set_in, arg_at(args, vstate(ms, idx, args.len() as int).1)), // @prop C08
//@open
        broadcast use group_hash_axioms, bridge, ax_string_add_assign_req;
        let ghost n = args.len() as int;
//@loop ~for b in ban\.iter\(\) iter=itb
                                        invariant conn_same_but_stream(*conn_state, *old(conn_state)),
//@loop ~for e in exception\.iter\(\) iter=ite
                                        invariant conn_same_but_stream(*conn_state, *old(conn_state)),
//@loop ~for e in inv_ex\.iter\(\) iter=iti
                                        invariant conn_same_but_stream(*conn_state, *old(conn_state)),
//@end

// ---- block B, third proof pass: the effect of a rank letter and of a list letter ----
//@block state/srv_query_cmds.rs MainState::process_mode_channel mode_apply_letter_ranks unit=modeletter3 props=C08 passof=mode_apply_letter
//@spec
        requires
            old(conn_state).user_state.nick is Some,
            if_op == is_op(*chum), if_half_op == half_op(*chum),
            0 <= idx < ms.len(), mchar == ms[idx], mode_args_ok(ms, args),
            mode_set_in == vstate(ms, idx, args.len() as int).0,
            args_inv(ms, args, idx, IteratorSpec::remaining(&*old(margs_it)), if_half_op),
        ensures
            // o v h q a <nick>: an entitled actor naming a member gives / takes exactly that rank of exactly that member; otherwise nothing changes
            r is Ok && takes_nick(mchar) && if_half_op ==> ({
                let a = sk(args[vstate(ms, idx, args.len() as int).1]);
                if rank_entitled(mchar, *chum) && old(chanobj).users@.contains_key(a) {
                    rank_change(*old(chanobj), *final(chanobj), a, rank_of_letter(mchar), mode_set_in)
                } else { *final(chanobj) == *old(chanobj) }
            }), // @prop C08
            r is Ok && takes_nick(mchar) && !if_half_op ==> *final(chanobj) == *old(chanobj), // @prop C08
            // b e I <mask>: a half-operator or above adds / removes exactly the normalised mask; without a mask the list is only shown
            r is Ok && takes_mask(mchar) && if_half_op ==> ({
                let k = vstate(ms, idx, args.len() as int).1;
                if k < args.len() {
                    let mk = string_of(norm_mask_spec(args[k]@));
                    list_of(mchar, final(chanobj).modes) == (if mode_set_in { list_of(mchar, old(chanobj).modes).insert(mk) } else { list_of(mchar, old(chanobj).modes).remove(mk) })
                } else { *final(chanobj) == *old(chanobj) }
            }), // @prop C08
//@open
        broadcast use group_hash_axioms, bridge, ax_string_add_assign_req;
        let ghost n = args.len() as int;
        let ghost rem0 = IteratorSpec::remaining(&*margs_it);
//@loop ~for b in ban\.iter\(\) iter=itb
                                        invariant conn_same_but_stream(*conn_state, *old(conn_state)),
//@loop ~for e in exception\.iter\(\) iter=ite
                                        invariant conn_same_but_stream(*conn_state, *old(conn_state)),
//@loop ~for e in inv_ex\.iter\(\) iter=iti
                                        invariant conn_same_but_stream(*conn_state, *old(conn_state)),
//@end

// ---- block B, fourth proof pass: every change of the channel leaves a trace in the strings the announcement is built from ----
//@block state/srv_query_cmds.rs MainState::process_mode_channel mode_apply_letter_trace unit=modeletter4 props=C08 passof=mode_apply_letter
//@spec
        requires
            old(conn_state).user_state.nick is Some,
            if_op == is_op(*chum), if_half_op == half_op(*chum),
            0 <= idx < ms.len(), mchar == ms[idx], mode_args_ok(ms, args),
            mode_set_in == vstate(ms, idx, args.len() as int).0,
            args_inv(ms, args, idx, IteratorSpec::remaining(&*old(margs_it)), if_half_op),
        ensures
            // the three strings only grow ...
            r is Ok ==> (r->Ok_0).1@.len() >= set_modes_string_in@.len() && (r->Ok_0).2@.len() >= unset_modes_string_in@.len() && (r->Ok_0).3@.len() >= modes_params_string_in@.len(), // @prop C08
            // ... and a letter that changed anything of the channel made one of them grow (so it will be announced)
            r is Ok && *final(chanobj) != *old(chanobj) ==> (r->Ok_0).1@.len() + (r->Ok_0).2@.len() + (r->Ok_0).3@.len()
                > set_modes_string_in@.len() + unset_modes_string_in@.len() + modes_params_string_in@.len(), // @prop C08
//@open
        broadcast use group_hash_axioms, bridge, string_add;
        proof { reveal_strlit(" +I "); reveal_strlit(" +a "); reveal_strlit(" +b "); reveal_strlit(" +e "); reveal_strlit(" +h "); reveal_strlit(" +k "); reveal_strlit(" +l "); reveal_strlit(" +o "); reveal_strlit(" +q "); reveal_strlit(" +v "); reveal_strlit(" -I "); reveal_strlit(" -a "); reveal_strlit(" -b "); reveal_strlit(" -e "); reveal_strlit(" -h "); reveal_strlit(" -o "); reveal_strlit(" -q "); reveal_strlit(" -v "); }
//@loop ~for b in ban\.iter\(\) iter=itb
                                        invariant conn_same_but_stream(*conn_state, *old(conn_state)),
//@loop ~for e in exception\.iter\(\) iter=ite
                                        invariant conn_same_but_stream(*conn_state, *old(conn_state)),
//@loop ~for e in inv_ex\.iter\(\) iter=iti
                                        invariant conn_same_but_stream(*conn_state, *old(conn_state)),
//@end

// ---- the handler: the two blocks chained over every letter of every mode string; the announcement ----
//@fn state/srv_query_cmds.rs MainState::process_mode_channel unit=modechan props=C08,C05,C10,C07 rules=R2,R6,R14
//@blockcall mode_check_privs
                    self.mode_check_privs(conn_state, chum, target, mchar, if_op, if_half_op).await?;
//@blockcall mode_apply_letter
                    let (ms__, s1__, s2__, s3__) = self.mode_apply_letter(conn_state, chanobj, chum, target, mchar, mode_set, &mut margs_it, if_op, if_half_op,
                        set_modes_string, unset_modes_string, modes_params_string, Ghost(o), Ghost(ms), Ghost(args), Ghost(idx)).await?;
                    mode_set = ms__; set_modes_string = s1__; unset_modes_string = s2__; modes_params_string = s3__;
//@opaque ~let mode_string = if !modes_params_string\.is_empty\(\) \{
                let mode_string = verif_join_mode_string(mode_string, &modes_params_string);
//@spec
        requires
            chan_wf(*old(chanobj)),
            old(conn_state).user_state.nick is Some,
            forall|n: String| old(chanobj).users@.contains_key(n) ==> users@.contains_key(n),
            all_mode_args_ok(modes@),
        ensures
            conn_same_but_stream(*final(conn_state), *old(conn_state)), // @prop C08
            chan_wf(*final(chanobj)), // @prop C04
            // a change needs the rank the statement demands; everything the actor is not entitled to stays as it was
            mode_frame(*old(chanobj), *final(chanobj), *chum), // @prop C08,C10,C07
            // an actor entitled to them (half-operator or above) gets every flag / key / limit letter applied, in order, with the sign in force
            r is Ok && half_op(*chum) && modes@.len() > 0 ==> mv_of(final(chanobj).modes) == mv_all(modes@, modes@.len() as int, mv_of(old(chanobj).modes)), // @prop C08
            // the announcement reaches every member once or nobody ...
            r is Ok ==> (final(outbox).log == old(outbox).log
                || exists|line: Seq<char>| delivered_to(old(outbox).log, final(outbox).log, users@, final(chanobj).users@.dom(), line)), // @prop C08
            // ... and every accepted change is announced to all members
            r is Ok && *final(chanobj) != *old(chanobj) ==> exists|line: Seq<char>| delivered_to(old(outbox).log, final(outbox).log, users@, final(chanobj).users@.dom(), line), // @prop C08
//@open
        broadcast use group_hash_axioms, bridge, ax_string_add_assign_req, lemma_cover_is_exact;
        let ghost o = *old(chanobj);
        let ghost mds = modes@;
        proof { assert(mv_all(mds, 0, mv_of(o.modes)) == mv_of(o.modes)) by { reveal_with_fuel(mv_all, 1); } }
//@loop ~for \(mchars, margs\) in modes iter=ito
                invariant
                    ito.seq() == mds, o == *old(chanobj),
                    conn_same_but_stream(*conn_state, *old(conn_state)), conn_state.user_state.nick is Some, // @prop C08
                    chan_wf(*chanobj), // @prop C04
                    mode_frame(o, *chanobj, *chum), // @prop C08
                    if_op == is_op(*chum), if_half_op == half_op(*chum),
                    all_mode_args_ok(mds),
                    if_half_op ==> mv_of(chanobj.modes) == mv_all(mds, ito.index@ as int, mv_of(o.modes)), // @prop C08
                    outbox.log == old(outbox).log, // @prop C08
                    set_modes_string@.len() + unset_modes_string@.len() + modes_params_string@.len() == 0 ==> *chanobj == o, // @prop C08
//@after ~for \(mchars, margs\) in modes
                let ghost ms = mchars@;
                let ghost args = margs@;
                let ghost n = margs@.len() as int;
                let ghost v0 = mv_of(chanobj.modes);
                proof {
                    assert((mchars, margs) == mds[ito.index@ as int]);
                    assert(mode_args_ok(ms, args));
                    assert(mv_after(ms, args, 0, v0) == v0) by { reveal_with_fuel(mv_after, 1); }
                    assert(mv_all(mds, ito.index@ + 1, mv_of(o.modes)) == mv_after(ms, args, ms.len() as int, mv_all(mds, ito.index@ as int, mv_of(o.modes)))) by { reveal_with_fuel(mv_all, 2); }
                }
//@loop ~for mchar in mchars\.chars\(\) iter=itc
                    invariant
                        itc.seq() == ms, ms == mchars@, args == margs@, n == args.len(), o == *old(chanobj),
                        mode_args_ok(ms, args),
                        conn_same_but_stream(*conn_state, *old(conn_state)), conn_state.user_state.nick is Some, // @prop C08
                        chan_wf(*chanobj), // @prop C04
                        mode_frame(o, *chanobj, *chum), // @prop C08
                        if_op == is_op(*chum), if_half_op == half_op(*chum),
                        mode_set == vstate(ms, itc.index@ as int, n).0,
                        if_half_op ==> mv_of(chanobj.modes) == mv_after(ms, args, itc.index@ as int, v0), // @prop C08
                        args_inv(ms, args, itc.index@ as int, IteratorSpec::remaining(&margs_it), if_half_op), // @prop C05
                        outbox.log == old(outbox).log, // @prop C08
                        set_modes_string@.len() + unset_modes_string@.len() + modes_params_string@.len() == 0 ==> *chanobj == o, // @prop C08
//@after ~for mchar in mchars\.chars\(\)
                    let ghost idx = itc.index@ as int;
                    proof {
                        assert(mchar == ms[idx]);
                        let st = vstate(ms, idx, n);
                        assert(mv_after(ms, args, idx + 1, v0) == mv_step(mv_after(ms, args, idx, v0), mchar, st.0, arg_at(args, st.1))) by { reveal_with_fuel(mv_after, 2); }
                    }
//@before ~for unick in chanobj\.users\.keys\(\)
                let ghost log0 = outbox.log;
                let ghost line = disp::<String>(conn_state.user_state.source@, mode_string);
                let ghost members = chanobj.users@.dom();
                let ghost mut order: Seq<String> = Seq::empty();
//@loop ~for unick in chanobj\.users\.keys\(\) iter=itu
                    invariant
                        conn_same_but_stream(*conn_state, *old(conn_state)), chan_wf(*chanobj), mode_frame(o, *chanobj, *chum), o == *old(chanobj),
                        forall|q: String| chanobj.users@.contains_key(q) ==> users@.contains_key(q),
                        members == chanobj.users@.dom(), log0 == old(outbox).log, line == disp::<String>(conn_state.user_state.source@, mode_string),
                        itu.seq().no_duplicates(), itu.seq().len() == members.len(),
                        forall|q: String| members.contains(q) ==> exists|i: int| 0 <= i < itu.seq().len() && *#[trigger] itu.seq()[i] == q,
                        order.len() == itu.index@,
                        order.no_duplicates(),
                        forall|j: int, l: int| #![trigger order[j], itu.seq()[l]] 0 <= j < order.len() && order.len() <= l < itu.seq().len() ==> order[j] != *itu.seq()[l],
                        forall|i: int| 0 <= i < order.len() ==> members.contains(#[trigger] order[i]),
                        forall|j: int| 0 <= j < itu.index@ ==> order[j] == *#[trigger] itu.seq()[j],
                        outbox.log == log0 + order.map_values(|n: String| (users@[n].sender.id(), line)), // @prop C08
//@after ~for unick in chanobj\.users\.keys\(\)
                    broadcast use group_hash_axioms, bridge, lemma_cover_is_exact;
                    proof { assert(members.contains(*unick)); }
//@endloop ~for unick in chanobj\.users\.keys\(\)
                    proof {
                        assert forall|j: int| 0 <= j < order.len() implies order[j] != *unick by { }
                        let f = |n: String| (users@[n].sender.id(), line);
                        assert(order.push(*unick).map_values(f) =~= order.map_values(f).push(f(*unick)));
                        order = order.push(*unick);
                    }
//@afterloop ~for unick in chanobj\.users\.keys\(\)
                proof {
                    assert(order.len() == members.len());
                    lemma_nodup_subset_full(order, members);
                    assert(delivered_to(old(outbox).log, outbox.log, users@, chanobj.users@.dom(), line));
                }
//@end
}
// ASSUMED stand-in for the rendering `[&mode_string, &modes_params_string[1..]].join(" ")` / `modes_params_string[1..].to_string()`
// (String slicing at a byte offset; opaque region R17 - its panic-freedom is NOT verified)
#[verifier::external_body]
pub fn verif_join_mode_string(mode_string: String, params: &String) -> (r: String)
{ unimplemented!() }
