// ===== CONTRACTS: MODE on channels (C08) and the MODE dispatcher (C11) =====
// ASSUMED (status A): completes nick / nick@host / nick!user with wildcards (byte-level str::find and slicing are outside the prelude)
pub uninterp spec fn norm_mask_spec(mask: Seq<char>) -> Seq<char>;
#[verifier::external_body]
pub fn normalize_sourcemask(mask: &str) -> (r: String)
    ensures r@ == norm_mask_spec(mask@)
{ unimplemented!() }

// ---- what Command::validate guarantees about a mode string and its arguments (assumed contract of the parser, status A) ----
pub open spec fn takes_nick(c: char) -> bool { c == 'o' || c == 'v' || c == 'h' || c == 'q' || c == 'a' }
pub open spec fn takes_mask(c: char) -> bool { c == 'b' || c == 'e' || c == 'I' }
// (sign, arguments consumed) before position i, as the validator walks the string
pub open spec fn vstate(ms: Seq<char>, i: int, n: int) -> (bool, int)
    decreases i
{
    if i <= 0 { (false, 0) } else {
        let p = vstate(ms, i - 1, n);
        let ch = ms[i - 1];
        if ch == '+' { (true, p.1) } else if ch == '-' { (false, p.1) }
        else if takes_mask(ch) { (p.0, if p.1 < n { p.1 + 1 } else { p.1 }) }
        else if takes_nick(ch) { (p.0, p.1 + 1) }
        else if ch == 'l' || ch == 'k' { (p.0, if p.0 { p.1 + 1 } else { p.1 }) }
        else { p }
    }
}
pub open spec fn mode_args_ok(ms: Seq<char>, args: Seq<&str>) -> bool {
    forall|i: int| 0 <= i < ms.len() ==> {
        let st = #[trigger] vstate(ms, i, args.len() as int);
        &&& (takes_nick(ms[i]) ==> st.1 < args.len())
        &&& ((ms[i] == 'l' || ms[i] == 'k') && st.0 ==> st.1 < args.len())
        &&& (ms[i] == 'l' && st.0 ==> is_usize_text(args[st.1]@))
    }
}
pub open spec fn all_mode_args_ok(modes: Seq<(&str, Vec<&str>)>) -> bool {
    forall|k: int| 0 <= k < modes.len() ==> mode_args_ok((#[trigger] modes[k]).0@, modes[k].1@)
}

// ---- the privilege matrix of the statement, as frame conditions ----
pub open spec fn flags_eq(a: ChannelModes, b: ChannelModes) -> bool {
    a.invite_only == b.invite_only && a.moderated == b.moderated && a.secret == b.secret
    && a.protected_topic == b.protected_topic && a.no_external_messages == b.no_external_messages
}
pub open spec fn rank_flag(m: ChannelUserModes, which: int) -> bool {
    if which == 0 { m.founder } else if which == 1 { m.protected } else if which == 2 { m.operator } else if which == 3 { m.half_oper } else { m.voice }
}
pub open spec fn rank_same(o: Channel, n: Channel, which: int) -> bool {
    rank_set(n, which) == rank_set(o, which)
    && forall|u: String| o.users@.contains_key(u) ==> rank_flag(#[trigger] n.users@[u], which) == rank_flag(o.users@[u], which)
}
pub open spec fn mode_frame(o: Channel, n: Channel, chum: ChannelUserModes) -> bool {
    // never touched by MODE
    &&& n.users@.dom() == o.users@.dom() && n.topic == o.topic && n.default_modes == o.default_modes
    &&& n.creation_time == o.creation_time && n.preconfigured == o.preconfigured
    // founder status (q): only a founder
    &&& (!chum.founder ==> rank_same(o, n, 0))
    // protected (a): founder or protected
    &&& (!is_prot(chum) ==> rank_same(o, n, 1))
    // operator, half-operator (o, h): operator or above
    &&& (!is_op(chum) ==> rank_same(o, n, 2) && rank_same(o, n, 3))
    // voice, lists, key, limit, flags: half-operator or above
    &&& (!half_op(chum) ==> rank_same(o, n, 4) && n.modes.ban == o.modes.ban && n.modes.exception == o.modes.exception
            && n.modes.invite_exception == o.modes.invite_exception && n.modes.key == o.modes.key
            && n.modes.client_limit == o.modes.client_limit && flags_eq(n.modes, o.modes) && n.ban_info == o.ban_info)
}
pub proof fn lemma_rank_change_frame(o: Channel, m: Channel, n: Channel, nick: String, which: int, v: bool, chum: ChannelUserModes)
    requires mode_frame(o, m, chum), rank_change(m, n, nick, which, v), m.users@.contains_key(nick), 0 <= which <= 4,
        which == 0 ==> chum.founder, which == 1 ==> is_prot(chum), which == 2 || which == 3 ==> is_op(chum), which == 4 ==> half_op(chum),
    ensures mode_frame(o, n, chum)
{
    assert(n.users@.dom() =~= o.users@.dom());
    assert forall|w: int| 0 <= w <= 4 && w != which && rank_same(o, m, w) implies rank_same(o, n, w) by {
        assert forall|u: String| o.users@.contains_key(u) implies rank_flag(#[trigger] n.users@[u], w) == rank_flag(o.users@[u], w) by {
            assert(rank_flag(m.users@[u], w) == rank_flag(o.users@[u], w));
        }
    }
}

impl MainState {
//@fn state/srv_query_cmds.rs MainState::process_mode_channel unit=modechan props=C08,C05 rules=R2,R6,R14,R18
//@iterize ban,exception,inv_ex
//@opaque ~let mode_string = if !modes_params_string\.is_empty\(\) \{
                let mode_string = verif_join_mode_string(mode_string, &modes_params_string);
//@spec
        requires
            chan_wf(*old(chanobj)),
            old(conn_state).user_state.nick is Some,
            forall|n: String| old(chanobj).users@.contains_key(n) ==> users@.contains_key(n),
            all_mode_args_ok(modes@),
        ensures
            conn_same_but_stream(*final(conn_state), *old(conn_state)), // @prop C08
            chan_wf(*final(chanobj)), // @prop C04
            // a change needs the rank the statement demands; everything the actor is not entitled to stays as it was
            mode_frame(*old(chanobj), *final(chanobj), *chum), // @prop C08
//@open
        broadcast use group_hash_axioms, bridge, ax_string_add_assign_req, lemma_cover_is_exact;
        let ghost o = *old(chanobj);
        let ghost mds = modes@;
//@loop ~for \(mchars, margs\) in modes iter=ito
                invariant
                    ito.seq() == mds,
                    conn_same_but_stream(*conn_state, *old(conn_state)), conn_state.user_state.nick is Some, // @prop C08
                    chan_wf(*chanobj), // @prop C04
                    mode_frame(o, *chanobj, *chum), // @prop C08
                    if_op == is_op(*chum), if_half_op == half_op(*chum),
                    all_mode_args_ok(mds),
//@after ~for \(mchars, margs\) in modes
                let ghost ms = mchars@;
                let ghost args = margs@;
                let ghost n = margs@.len() as int;
                proof {
                    assert((mchars, margs) == mds[ito.index@ as int]);
                    assert(mode_args_ok(ms, args));
                }
//@loop ~for mchar in mchars\.chars\(\) iter=itc
                    invariant
                        itc.seq() == ms, ms == mchars@, args == margs@, n == args.len(),
                        mode_args_ok(ms, args),
                        conn_same_but_stream(*conn_state, *old(conn_state)), conn_state.user_state.nick is Some, // @prop C08
                        chan_wf(*chanobj), // @prop C04
                        mode_frame(o, *chanobj, *chum), // @prop C08
                        if_op == is_op(*chum), if_half_op == half_op(*chum),
                        all_mode_args_ok(mds),
                        mode_set == vstate(ms, itc.index@ as int, n).0,
                        IteratorSpec::remaining(&margs_it).len() <= n,
                        n - IteratorSpec::remaining(&margs_it).len() <= vstate(ms, itc.index@ as int, n).1,
                        if_half_op ==> n - IteratorSpec::remaining(&margs_it).len() == vstate(ms, itc.index@ as int, n).1,
                        forall|t: int| 0 <= t < IteratorSpec::remaining(&margs_it).len() ==> (#[trigger] IteratorSpec::remaining(&margs_it)[t]) == &args[n - IteratorSpec::remaining(&margs_it).len() + t],
//@after ~for mchar in mchars\.chars\(\)
                    broadcast use group_hash_axioms, bridge, ax_string_add_assign_req, lemma_cover_is_exact;
                    let ghost idx = itc.index@ as int;
                    let ghost rem0 = IteratorSpec::remaining(&margs_it);
                    proof {
                        assert(mchar == ms[idx]);
                        let st = vstate(ms, idx, n);
                        assert(vstate(ms, idx + 1, n) == (
                            if mchar == '+' { (true, st.1) } else if mchar == '-' { (false, st.1) }
                            else if takes_mask(mchar) { (st.0, if st.1 < n { st.1 + 1 } else { st.1 }) }
                            else if takes_nick(mchar) { (st.0, st.1 + 1) }
                            else if mchar == 'l' || mchar == 'k' { (st.0, if st.0 { st.1 + 1 } else { st.1 }) }
                            else { st })) by { reveal_with_fuel(vstate, 2); }
                    }
//@before ~chanobj\.add_operator\(arg\);
                                                let ghost mid = *chanobj;
//@after ~chanobj\.add_operator\(arg\);
                                                proof { lemma_rank_change_frame(o, mid, *chanobj, sk(arg), 2, true, *chum); }
//@before ~chanobj\.remove_operator\(arg\);
                                                let ghost mid = *chanobj;
//@after ~chanobj\.remove_operator\(arg\);
                                                proof { lemma_rank_change_frame(o, mid, *chanobj, sk(arg), 2, false, *chum); }
//@before ~chanobj\.add_voice\(arg\);
                                                let ghost mid = *chanobj;
//@after ~chanobj\.add_voice\(arg\);
                                                proof { lemma_rank_change_frame(o, mid, *chanobj, sk(arg), 4, true, *chum); }
//@before ~chanobj\.remove_voice\(arg\);
                                                let ghost mid = *chanobj;
//@after ~chanobj\.remove_voice\(arg\);
                                                proof { lemma_rank_change_frame(o, mid, *chanobj, sk(arg), 4, false, *chum); }
//@before ~chanobj\.add_half_operator\(arg\);
                                                let ghost mid = *chanobj;
//@after ~chanobj\.add_half_operator\(arg\);
                                                proof { lemma_rank_change_frame(o, mid, *chanobj, sk(arg), 3, true, *chum); }
//@before ~chanobj\.remove_half_operator\(arg\);
                                                let ghost mid = *chanobj;
//@after ~chanobj\.remove_half_operator\(arg\);
                                                proof { lemma_rank_change_frame(o, mid, *chanobj, sk(arg), 3, false, *chum); }
//@before ~chanobj\.add_founder\(arg\);
                                                let ghost mid = *chanobj;
//@after ~chanobj\.add_founder\(arg\);
                                                proof { lemma_rank_change_frame(o, mid, *chanobj, sk(arg), 0, true, *chum); }
//@before ~chanobj\.remove_founder\(arg\);
                                                let ghost mid = *chanobj;
//@after ~chanobj\.remove_founder\(arg\);
                                                proof { lemma_rank_change_frame(o, mid, *chanobj, sk(arg), 0, false, *chum); }
//@before ~chanobj\.add_protected\(arg\);
                                                let ghost mid = *chanobj;
//@after ~chanobj\.add_protected\(arg\);
                                                proof { lemma_rank_change_frame(o, mid, *chanobj, sk(arg), 1, true, *chum); }
//@before ~chanobj\.remove_protected\(arg\);
                                                let ghost mid = *chanobj;
//@after ~chanobj\.remove_protected\(arg\);
                                                proof { lemma_rank_change_frame(o, mid, *chanobj, sk(arg), 1, false, *chum); }
//@loop ~for b in ban\.iter\(\) iter=itb
                                        invariant conn_same_but_stream(*conn_state, *old(conn_state)),
//@loop ~for e in exception\.iter\(\) iter=ite
                                        invariant conn_same_but_stream(*conn_state, *old(conn_state)),
//@loop ~for e in inv_ex\.iter\(\) iter=iti
                                        invariant conn_same_but_stream(*conn_state, *old(conn_state)),
//@loop ~for unick in chanobj\.users\.keys\(\) iter=itu
                    invariant
                        conn_same_but_stream(*conn_state, *old(conn_state)), chan_wf(*chanobj), mode_frame(o, *chanobj, *chum), o == *old(chanobj),
                        forall|q: String| chanobj.users@.contains_key(q) ==> users@.contains_key(q),
                        itu.seq().no_duplicates(), itu.seq().len() == chanobj.users@.dom().len(),
                        forall|q: String| chanobj.users@.dom().contains(q) ==> exists|i: int| 0 <= i < itu.seq().len() && *#[trigger] itu.seq()[i] == q,
//@after ~for unick in chanobj\.users\.keys\(\)
                    broadcast use group_hash_axioms, bridge, lemma_cover_is_exact;
                    proof { assert(chanobj.users@.dom().contains(*unick)); }
//@end
}
// ASSUMED stand-in for the rendering `[&mode_string, &modes_params_string[1..]].join(" ")` / `modes_params_string[1..].to_string()`
// (String slicing at a byte offset; opaque region R17 - its panic-freedom is NOT verified)
#[verifier::external_body]
pub fn verif_join_mode_string(mode_string: String, params: &String) -> (r: String)
{ unimplemented!() }
