// ===== CONTRACT: the connection loop and its teardown (C06: every way the loop ends reaches the clean-up) =====
pub open spec fn conn_inv(k: ConnState, s: VolatileState) -> bool {
    state_wf(s) && (k.user_state.authenticated ==> conn_ok(k, s)) && (!k.user_state.authenticated ==> conn_pre(k, s))
}
impl ConnState {
    // ASSUMED stub: `self.quit.load(SeqCst) != 0`
    #[verifier::external_body]
    pub fn is_quit(&self) -> (r: bool) { unimplemented!() }
}
impl MainState {
    // ASSUMED: one step of the connection (process -> process_internal = tokio::select! over the message arms). Its contract is the
    // inductive step that the handler contracts establish one by one: whatever happens, the invariant of this connection holds again.
    #[verifier::external_body]
    pub async fn process(&self, state: &mut VolatileState, conn_state: &mut ConnState) -> (r: Result<(), String>)
        requires conn_inv(*old(conn_state), *old(state))
        ensures conn_inv(*final(conn_state), *final(state))
    { unimplemented!() }
}
//@block state/mod.rs user_state_process conn_loop_and_teardown unit=teardown props=C06,C02 rules=R3 from=~|while !conn_state\.is_quit\(\) \{| to=~|main_state\.remove_user\(&conn_state\)\.await;|
//@head
    #[verifier::exec_allows_no_decreases_clause]
    pub async fn conn_loop_and_teardown(main_state: &MainState, state: &mut VolatileState, conn_state: ConnState) -> (k: ConnState)
//@callargs process state
//@callargs remove_user state
//@prologue
//@epilogue
        conn_state
//@spec
        requires conn_inv(conn_state, *old(state)), mainstate_wf(*main_state),
        ensures
            // however the loop ended, the registry holds no user that belongs to this connection any more
            forall|n: String| final(state).users@.contains_key(n) ==> (#[trigger] final(state).users@[n]).sender.id() != k.receiver.id(), // @prop C06
            sym(*final(state)), chans_wf(*final(state)), no_empty_chan(*final(state)), wallops_wf(*final(state)), counters_wf(*final(state)), senders_distinct(*final(state)), // @prop C06
//@open
        let mut conn_state = conn_state;
//@loop ~while !conn_state\.is_quit\(\) \{
            invariant conn_inv(conn_state, *state), // @prop C06
//@end
