// ===== dispatcher world: the few vocabulary items it needs (same text as in the main world) =====
pub open spec fn client_name_spec(u: ConnUserState) -> Seq<char> {
    if u.nick is Some { u.nick->0@ } else if u.name is Some { u.name->0@ } else { u.hostname@ }
}
pub open spec fn conn_same_but_stream(a: ConnState, b: ConnState) -> bool {
    a.user_state == b.user_state && a.receiver == b.receiver && a.sender == b.sender && a.caps == b.caps
    && a.caps_negotation == b.caps_negotation && a.quit == b.quit && a.quit_sender == b.quit_sender
    && a.ping_sender == b.ping_sender && a.ping_receiver == b.ping_receiver && a.timeout_sender == b.timeout_sender
    && a.timeout_receiver == b.timeout_receiver && a.pong_notifier == b.pong_notifier && a.quit_receiver == b.quit_receiver
    && a.dns_lookup_receiver == b.dns_lookup_receiver && a.conns_count == b.conns_count
}
impl ConnUserState {
    // proved in the main world (unit conn); here a trusted copy of the same contract
    #[verifier::external_body]
    pub fn client_name(&self) -> (r: &str)
        ensures r@ == client_name_spec(*self)
    { unimplemented!() }
}
impl MainState {
    #[verifier::external_body]
    pub async fn feed_msg<T: fmt::Display>(&self, stream: &mut BufferedLineStream, t: T) -> (r: Result<(), LinesCodecError>)
        ensures r is Ok, final(stream).log() == old(stream).log().push(fed(self.config.name@, t)),
    { unimplemented!() }
}
