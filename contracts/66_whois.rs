// ===== CONTRACT: WHOIS, the answer about ONE nickname (C12: invisible users and secret channels stay hidden; C04: third roster view) =====
impl ConnState {
    // ASSUMED stub: `self.stream.get_ref().is_secure()` (TLS or not)
    #[verifier::external_body]
    pub fn is_secure(&self) -> (r: bool) { unimplemented!() }
}
// ASSUMED (rule RT2): seconds since an earlier stamp; the wall clock is assumed not to run backwards (a backwards step would underflow)
#[verifier::external_body]
pub fn verif_secs_since(stamp: u64) -> (r: u64) { unimplemented!() }
// ASSUMED stand-in for `<[T]>::chunks(n)`: consecutive pieces; all that is used: every element of every piece is an element of the slice
#[verifier::external_body]
pub fn verif_chunks<'b, T>(v: &'b Vec<T>, n: usize) -> (r: Vec<&'b [T]>)
    ensures forall|k: int, i: int| 0 <= k < r@.len() && 0 <= i < (#[trigger] r@[k])@.len() ==> v@.contains(#[trigger] r@[k]@[i])
{ unimplemented!() }

// the asker may learn about user `a`: not invisible, or they share a channel
pub open spec fn whois_visible(a: User, asker: User) -> bool { !(a.modes.invisible && a.channels@.disjoint(asker.channels@)) }
// a channel that may be named in the 319 line of user `n` to asker `me`: the user is on it and it is not secret (or the asker is on it too)
pub open spec fn whois_chan_ok(s: VolatileState, n: String, me: String, c: Seq<char>) -> bool {
    member(s, n, string_of(c)) && chan_visible_to(s.channels@[string_of(c)], me)
}
// every line WHOIS appends for nickname n is one of its reply kinds, is about n, and a 319 names only channels that may be named
pub open spec fn whois_line_ok(item: FedItem, s: VolatileState, n: String, me: String) -> bool {
    match fed_reply(item) {
        Some(Reply::RplWhoIsRegNick307 { client, nick }) => nick@ == n@,
        Some(Reply::RplWhoIsUser311 { client, nick, username, host, realname }) => nick@ == n@,
        Some(Reply::RplWhoIsServer312 { client, nick, server, server_info }) => nick@ == n@,
        Some(Reply::RplWhoIsOperator313 { client, nick }) => nick@ == n@,
        Some(Reply::RplWhoIsChannels319 { client, nick, channels }) =>
            nick@ == n@ && forall|i: int| 0 <= i < channels@.len() ==> whois_chan_ok(s, n, me, (#[trigger] channels@[i]).channel@),
        Some(Reply::RplwhoIsIdle317 { client, nick, secs, signon }) => nick@ == n@,
        Some(Reply::RplWhoIsHost378 { client, nick, host_info }) => nick@ == n@,
        Some(Reply::RplWhoIsModes379 { client, nick, modes }) => nick@ == n@,
        Some(Reply::RplWhoIsSecure671 { client, nick }) => nick@ == n@,
        _ => false,
    }
}

// a line WHOIS may show to asker `me`: it is about some registered user that `me` may see, and names only channels `me` may learn of
pub open spec fn whois_line_allowed(item: FedItem, s: VolatileState, me: String) -> bool {
    exists|n: String| s.users@.contains_key(n) && whois_visible(s.users@[n], s.users@[me]) && #[trigger] whois_line_ok(item, s, n, me)
}
// Definition of `masks.iter().any(|mask| match_wildcard(mask, text))` on a vector of mask references (proved)
pub fn verif_any_mask(masks: &Vec<&&str>, text: &str) -> (r: bool)
    ensures r == exists|i: int| 0 <= i < masks@.len() && wild((**#[trigger] masks@[i])@, text@)
{
    let mut i: usize = 0;
    while i < masks.len()
        invariant i <= masks@.len(), forall|j: int| 0 <= j < i ==> !wild((**#[trigger] masks@[j])@, text@),
        decreases masks@.len() - i,
    {
        if match_wildcard(*masks[i], text) { return true; }
        i += 1;
    }
    false
}
// ASSUMED stand-in for `v.join(",")` (the text of the closing 318 line; opaque)
#[verifier::external_body]
pub fn verif_join_comma(v: &Vec<&str>) -> (r: String) { unimplemented!() }
// ASSUMED stand-in for `for x in SET` (IntoIterator for HashSet<String>): every element exactly once, in some order
#[verifier::external_body]
pub fn verif_set_into_vec(set: HashSet<String>) -> (r: Vec<String>)
    ensures r@.no_duplicates(), forall|x: String| r@.contains(x) <==> set@.contains(x), forall|i: int| 0 <= i < r@.len() ==> set@.contains(#[trigger] r@[i]),
{ unimplemented!() }

impl MainState {
//@block state/rest_cmds.rs MainState::process_whois whois_one_nick unit=whois props=C12,C04,C05 rules=R0,R25,R2,R5b,R14 loopbody=~|for nick in nicks|
//@replace ~|channel_replies\.chunks\(30\)| => verif_chunks(&channel_replies, 30)
//@head
    pub async fn whois_one_nick<'a>(&self, state: &VolatileState, conn_state: &mut ConnState, nick: String) -> (r: Result<(), HErr>)
//@prologue
        let client = conn_state.user_state.client_name();
        let user_nick = conn_state.user_state.nick.as_ref().unwrap();
        let user = state.users.get(user_nick).unwrap();
//@epilogue
        Ok(())
//@spec
        requires state_wf(*state), conn_ok(*old(conn_state), *state), state.users@.contains_key(nick),
        ensures
            conn_same_but_stream(*final(conn_state), *old(conn_state)), // @prop C12
            // an invisible user sharing no channel with the asker: nothing at all is said
            !whois_visible(state.users@[nick], state.users@[my_nick(*old(conn_state))]) ==> final(conn_state).stream.log() == old(conn_state).stream.log(), // @prop C12
            // otherwise only lines about that user, and its channel list names no secret channel
            old(conn_state).stream.log().len() <= final(conn_state).stream.log().len(), // @prop C12
            forall|k: int| 0 <= k < old(conn_state).stream.log().len() ==> final(conn_state).stream.log()[k] == old(conn_state).stream.log()[k], // @prop C12
            forall|k: int| old(conn_state).stream.log().len() <= k < final(conn_state).stream.log().len() ==> // @prop C12,C04
                whois_line_ok(#[trigger] final(conn_state).stream.log()[k], *state, nick, my_nick(*old(conn_state))),
//@ascribe channel_replies Vec<WhoIsChannelStruct<'_>>
//@open
        broadcast use group_hash_axioms, bridge, string_eq, ax_fed_reply;
        let ghost log0 = conn_state.stream.log();
        let ghost me = my_nick(*conn_state);
        proof { assert(string_of(nick@) == nick); }
//@before ~for chname in arg_user\.channels\.iter\(\)
                let ghost log1 = conn_state.stream.log();
                let ghost cset = arg_user.channels@;
//@loop ~for chname in arg_user\.channels\.iter\(\) iter=itc
                    invariant
                        state_wf(*state), state.users@.contains_key(nick), *arg_user == state.users@[nick], cset == arg_user.channels@, me == my_nick(*old(conn_state)), *user_nick == me,
                        conn_same_but_stream(*conn_state, *old(conn_state)), conn_state.stream.log() == log1,
                        itc.seq().no_duplicates(), itc.seq().len() == cset.len(),
                        forall|q: String| cset.contains(q) ==> exists|i: int| 0 <= i < itc.seq().len() && *#[trigger] itc.seq()[i] == q,
                        forall|i: int| 0 <= i < channel_replies@.len() ==> whois_chan_ok(*state, nick, me, (#[trigger] channel_replies@[i]).channel@), // @prop C12
//@after ~for chname in arg_user\.channels\.iter\(\)
                    broadcast use group_hash_axioms, bridge, string_eq, lemma_cover_is_exact;
                    proof {
                        assert(cset.contains(*chname));
                        assert(member(*state, nick, *chname));
                        assert(string_of(chname@) == *chname);
                    }
//@before ~for chr_chunk in 
                let ghost reps = channel_replies@;
//@loop ~for chr_chunk in  iter=itk
                    invariant
                        state_wf(*state), conn_same_but_stream(*conn_state, *old(conn_state)), log0 == old(conn_state).stream.log(), me == my_nick(*old(conn_state)),
                        reps == channel_replies@,
                        forall|i: int| 0 <= i < reps.len() ==> whois_chan_ok(*state, nick, me, (#[trigger] reps[i]).channel@),
                        forall|k: int, i: int| 0 <= k < itk.seq().len() && 0 <= i < (#[trigger] itk.seq()[k])@.len() ==> reps.contains(#[trigger] itk.seq()[k]@[i]),
                        log0.len() <= conn_state.stream.log().len(),
                        forall|k: int| 0 <= k < log0.len() ==> conn_state.stream.log()[k] == log0[k],
                        forall|k: int| log0.len() <= k < conn_state.stream.log().len() ==> whois_line_ok(#[trigger] conn_state.stream.log()[k], *state, nick, me), // @prop C12,C04
//@after ~for chr_chunk in 
                    broadcast use group_hash_axioms, bridge, string_eq, ax_fed_reply;
                    proof {
                        assert forall|i: int| 0 <= i < chr_chunk@.len() implies whois_chan_ok(*state, nick, me, (#[trigger] chr_chunk@[i]).channel@) by {
                            assert(reps.contains(itk.seq()[itk.index@ as int]@[i]));
                        }
                    }
//@end

// ===== the whole WHOIS handler: collection of the nicknames (plain names that are registered + every registered nickname matching a
// wildcard mask), one call of the proved per-nickname block for each, the closing 318 =====
//@fn state/rest_cmds.rs MainState::process_whois unit=whois2 props=C12,C05,C04 rules=R0,R5,R20,R1,R2
//@blockcall whois_one_nick rebind=client
                self.whois_one_nick(&*state, conn_state, nick).await?;
//@replace ~|real_nickmasks\.iter\(\)\.any\(\|mask\| match_wildcard\(mask, nick\)\)| => verif_any_mask(&real_nickmasks, nick)
//@replace ~|for nick in nicks \{| => for nick in verif_set_into_vec(nicks) {
//@replace ~|nickmasks\.join\(","\)| => verif_join_comma(&nickmasks)
//@ascribe real_nickmasks Vec<&&str>
//@spec
        requires state_wf(*old(state)), conn_ok(*old(conn_state), *old(state)),
        ensures
            *final(state) == *old(state), conn_same_but_stream(*final(conn_state), *old(conn_state)), // @prop C12
            log_extends(old(conn_state).stream.log(), final(conn_state).stream.log()), // @prop C12
            // whatever was asked: every line but the closing one is about a registered user the asker may see, and names no channel hidden from the asker
            r is Ok ==> forall|k: int| old(conn_state).stream.log().len() <= k < final(conn_state).stream.log().len() - 1 ==>
                whois_line_allowed(#[trigger] final(conn_state).stream.log()[k], *old(state), my_nick(*old(conn_state))), // @prop C12,C04
//@open
        broadcast use group_hash_axioms, bridge, string_eq, ax_fed_reply;
        let ghost s0 = *old(state);
        let ghost log0 = conn_state.stream.log();
        let ghost me = my_nick(*conn_state);
//@loop ~for nickmask in nickmasks\.iter\(\) iter=itm
                invariant *state == s0, forall|n: String| nicks@.contains(n) ==> s0.users@.contains_key(n), // @prop C05,C12
//@after ~for nickmask in nickmasks\.iter\(\)
                broadcast use group_hash_axioms, bridge, string_eq;
                let ghost key = string_of(nickmask@);
                proof { assert forall|x: String| (#[trigger] x@) == nickmask@ implies x == key by { assert(string_of(x@) == x); } }
//@before ~for nick in state\.users\.keys\(\)
                let ghost uset = state.users@.dom();
                broadcast use lemma_cover_is_exact;
//@loop ~for nick in state\.users\.keys\(\) iter=itu
                    invariant *state == s0, forall|n: String| nicks@.contains(n) ==> s0.users@.contains_key(n), // @prop C05,C12
                        uset == s0.users@.dom(), itu.seq().no_duplicates(), itu.seq().len() == uset.len(),
                        forall|q: String| uset.contains(q) ==> exists|i: int| 0 <= i < itu.seq().len() && *#[trigger] itu.seq()[i] == q,
                        forall|i: int| 0 <= i < itu.seq().len() ==> uset.contains(*#[trigger] itu.seq()[i]),
//@after ~for nick in state\.users\.keys\(\)
                    broadcast use group_hash_axioms, bridge, string_eq;
//@loop ~for nick in verif_set_into_vec iter=itn
                invariant *state == s0, state_wf(s0), conn_ok(*old(conn_state), s0), me == my_nick(*old(conn_state)), log0 == old(conn_state).stream.log(),
                    conn_same_but_stream(*conn_state, *old(conn_state)),
                    forall|i: int| 0 <= i < itn.seq().len() ==> s0.users@.contains_key(#[trigger] itn.seq()[i]), // @prop C05,C12
                    log_extends(log0, conn_state.stream.log()),
                    forall|k: int| log0.len() <= k < conn_state.stream.log().len() ==> whois_line_allowed(#[trigger] conn_state.stream.log()[k], s0, me), // @prop C12,C04
//@end
}
