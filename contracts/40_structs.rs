// ===== CONTRACTS: state/structs.rs and config.rs helpers =====
impl UserModes {
//@fn config.rs UserModes::is_local_oper unit=structs props=C11,C19
//@spec
        ensures r == local_oper(*self), // @prop C11,C19
//@end
}

impl ChannelUserModes {
//@fn state/structs.rs ChannelUserModes::new_for_created_channel unit=structs props=C16
//@spec
        ensures r == (ChannelUserModes { founder: true, protected: false, voice: false, operator: true, half_oper: false }), // @prop C16
//@end
//@fn state/structs.rs ChannelUserModes::is_protected unit=structs props=C08,C09
//@spec
        ensures r == is_prot(*self), // @prop C08,C09
//@end
//@fn state/structs.rs ChannelUserModes::is_operator unit=structs props=C08,C09
//@spec
        ensures r == is_op(*self), // @prop C08,C09
//@end
//@fn state/structs.rs ChannelUserModes::is_half_operator unit=structs props=C08,C09
//@spec
        ensures r == half_op(*self), // @prop C08,C09
//@end
//@fn state/structs.rs ChannelUserModes::is_only_half_operator unit=structs props=C09
//@spec
        ensures r == only_half_op(*self), // @prop C09
//@end
//@fn state/structs.rs ChannelUserModes::is_voice unit=structs props=C10
//@spec
        ensures r == has_voice(*self), // @prop C10
//@end
}

pub proof fn lemma_rank_change_wf(o: Channel, n: Channel, nick: String, which: int, v: bool)
    requires chan_wf(o), rank_change(o, n, nick, which, v), o.users@.contains_key(nick), 0 <= which <= 4,
    ensures chan_wf(n)
{
    assert forall|m: String| #[trigger] oset(n.modes.founders).contains(m) <==> (n.users@.contains_key(m) && n.users@[m].founder) by {
        assert(oset(o.modes.founders).contains(m) <==> (o.users@.contains_key(m) && o.users@[m].founder));
    }
    assert forall|m: String| #[trigger] oset(n.modes.protecteds).contains(m) <==> (n.users@.contains_key(m) && n.users@[m].protected) by {
        assert(oset(o.modes.protecteds).contains(m) <==> (o.users@.contains_key(m) && o.users@[m].protected));
    }
    assert forall|m: String| #[trigger] oset(n.modes.operators).contains(m) <==> (n.users@.contains_key(m) && n.users@[m].operator) by {
        assert(oset(o.modes.operators).contains(m) <==> (o.users@.contains_key(m) && o.users@[m].operator));
    }
    assert forall|m: String| #[trigger] oset(n.modes.half_operators).contains(m) <==> (n.users@.contains_key(m) && n.users@[m].half_oper) by {
        assert(oset(o.modes.half_operators).contains(m) <==> (o.users@.contains_key(m) && o.users@[m].half_oper));
    }
    assert forall|m: String| #[trigger] oset(n.modes.voices).contains(m) <==> (n.users@.contains_key(m) && n.users@[m].voice) by {
        assert(oset(o.modes.voices).contains(m) <==> (o.users@.contains_key(m) && o.users@[m].voice));
    }
}

impl Channel {
//@fn state/structs.rs Channel::add_operator unit=structs props=C04,C08
//@spec
        requires old(self).users@.contains_key(sk(nick)),
        ensures rank_change(*old(self), *final(self), sk(nick), 2, true), // @prop C08
            chan_wf(*old(self)) ==> chan_wf(*final(self)), // @prop C04
//@open
        broadcast use group_hash_axioms, bridge;
//@close
        proof { if chan_wf(*old(self)) { lemma_rank_change_wf(*old(self), *self, sk(nick), 2, true); } }
//@end
//@fn state/structs.rs Channel::remove_operator unit=structs props=C04,C08
//@spec
        requires old(self).users@.contains_key(sk(nick)),
        ensures rank_change(*old(self), *final(self), sk(nick), 2, false), // @prop C08
            chan_wf(*old(self)) ==> chan_wf(*final(self)), // @prop C04
//@open
        broadcast use group_hash_axioms, bridge;
//@close
        proof { if chan_wf(*old(self)) { lemma_rank_change_wf(*old(self), *self, sk(nick), 2, false); } }
//@end
//@fn state/structs.rs Channel::add_half_operator unit=structs props=C04,C08
//@spec
        requires old(self).users@.contains_key(sk(nick)),
        ensures rank_change(*old(self), *final(self), sk(nick), 3, true), // @prop C08
            chan_wf(*old(self)) ==> chan_wf(*final(self)), // @prop C04
//@open
        broadcast use group_hash_axioms, bridge;
//@close
        proof { if chan_wf(*old(self)) { lemma_rank_change_wf(*old(self), *self, sk(nick), 3, true); } }
//@end
//@fn state/structs.rs Channel::remove_half_operator unit=structs props=C04,C08
//@spec
        requires old(self).users@.contains_key(sk(nick)),
        ensures rank_change(*old(self), *final(self), sk(nick), 3, false), // @prop C08
            chan_wf(*old(self)) ==> chan_wf(*final(self)), // @prop C04
//@open
        broadcast use group_hash_axioms, bridge;
//@close
        proof { if chan_wf(*old(self)) { lemma_rank_change_wf(*old(self), *self, sk(nick), 3, false); } }
//@end
//@fn state/structs.rs Channel::add_voice unit=structs props=C04,C08
//@spec
        requires old(self).users@.contains_key(sk(nick)),
        ensures rank_change(*old(self), *final(self), sk(nick), 4, true), // @prop C08
            chan_wf(*old(self)) ==> chan_wf(*final(self)), // @prop C04
//@open
        broadcast use group_hash_axioms, bridge;
//@close
        proof { if chan_wf(*old(self)) { lemma_rank_change_wf(*old(self), *self, sk(nick), 4, true); } }
//@end
//@fn state/structs.rs Channel::remove_voice unit=structs props=C04,C08
//@spec
        requires old(self).users@.contains_key(sk(nick)),
        ensures rank_change(*old(self), *final(self), sk(nick), 4, false), // @prop C08
            chan_wf(*old(self)) ==> chan_wf(*final(self)), // @prop C04
//@open
        broadcast use group_hash_axioms, bridge;
//@close
        proof { if chan_wf(*old(self)) { lemma_rank_change_wf(*old(self), *self, sk(nick), 4, false); } }
//@end
//@fn state/structs.rs Channel::add_founder unit=structs props=C04,C08
//@spec
        requires old(self).users@.contains_key(sk(nick)),
        ensures rank_change(*old(self), *final(self), sk(nick), 0, true), // @prop C08
            chan_wf(*old(self)) ==> chan_wf(*final(self)), // @prop C04
//@open
        broadcast use group_hash_axioms, bridge;
//@close
        proof { if chan_wf(*old(self)) { lemma_rank_change_wf(*old(self), *self, sk(nick), 0, true); } }
//@end
//@fn state/structs.rs Channel::remove_founder unit=structs props=C04,C08
//@spec
        requires old(self).users@.contains_key(sk(nick)),
        ensures rank_change(*old(self), *final(self), sk(nick), 0, false), // @prop C08
            chan_wf(*old(self)) ==> chan_wf(*final(self)), // @prop C04
//@open
        broadcast use group_hash_axioms, bridge;
//@close
        proof { if chan_wf(*old(self)) { lemma_rank_change_wf(*old(self), *self, sk(nick), 0, false); } }
//@end
//@fn state/structs.rs Channel::add_protected unit=structs props=C04,C08
//@spec
        requires old(self).users@.contains_key(sk(nick)),
        ensures rank_change(*old(self), *final(self), sk(nick), 1, true), // @prop C08
            chan_wf(*old(self)) ==> chan_wf(*final(self)), // @prop C04
//@open
        broadcast use group_hash_axioms, bridge;
//@close
        proof { if chan_wf(*old(self)) { lemma_rank_change_wf(*old(self), *self, sk(nick), 1, true); } }
//@end
//@fn state/structs.rs Channel::remove_protected unit=structs props=C04,C08
//@spec
        requires old(self).users@.contains_key(sk(nick)),
        ensures rank_change(*old(self), *final(self), sk(nick), 1, false), // @prop C08
            chan_wf(*old(self)) ==> chan_wf(*final(self)), // @prop C04
//@open
        broadcast use group_hash_axioms, bridge;
//@close
        proof { if chan_wf(*old(self)) { lemma_rank_change_wf(*old(self), *self, sk(nick), 1, false); } }
//@end

//@fn state/structs.rs Channel::remove_user unit=structs props=C04,C06,C09
//@spec
        requires old(self).users@.contains_key(sk(nick)),
        ensures chan_after_leave(*old(self), *final(self), sk(nick)), // @prop C04,C06,C09
            chan_wf(*old(self)) ==> chan_wf(*final(self)), // @prop C04
//@open
        broadcast use group_hash_axioms, bridge;
//@close
        proof { assert(self.users@ =~= old(self).users@.remove(sk(nick))); }
//@end
}

pub open spec fn rekey(s: Set<String>, o: String, n: String) -> Set<String> {
    if s.contains(o) { s.remove(o).insert(n) } else { s }
}
pub open spec fn orekey(s: Option<HashSet<String>>, o: String, n: String) -> Set<String> { rekey(oset(s), o, n) }

impl ChannelModes {
//@fn config.rs ChannelModes::rename_user unit=structs props=C15,C04
//@spec
        ensures
            oset(final(self).operators) == orekey(old(self).operators, *old_nick, nick), // @prop C15
            oset(final(self).half_operators) == orekey(old(self).half_operators, *old_nick, nick), // @prop C15
            oset(final(self).voices) == orekey(old(self).voices, *old_nick, nick), // @prop C15
            oset(final(self).founders) == orekey(old(self).founders, *old_nick, nick), // @prop C15
            oset(final(self).protecteds) == orekey(old(self).protecteds, *old_nick, nick), // @prop C15
            final(self).ban == old(self).ban && final(self).exception == old(self).exception // @prop C15
              && final(self).client_limit == old(self).client_limit && final(self).invite_exception == old(self).invite_exception
              && final(self).key == old(self).key && final(self).invite_only == old(self).invite_only
              && final(self).moderated == old(self).moderated && final(self).secret == old(self).secret
              && final(self).protected_topic == old(self).protected_topic
              && final(self).no_external_messages == old(self).no_external_messages,
//@open
        broadcast use group_hash_axioms, bridge;
//@end
}

pub open spec fn add_user_post(o: Channel, n: Channel, nick: String) -> bool {
    &&& chan_rest_eq(o, n)
    &&& n.users@ == o.users@.insert(nick, ChannelUserModes {
            founder: o.default_modes.founders@.contains(nick),
            protected: o.default_modes.protecteds@.contains(nick),
            voice: o.default_modes.voices@.contains(nick),
            operator: o.default_modes.operators@.contains(nick),
            half_oper: o.default_modes.half_operators@.contains(nick) })
    &&& oset(n.modes.founders) == (if o.default_modes.founders@.contains(nick) { oset(o.modes.founders).insert(nick) } else { oset(o.modes.founders) })
    &&& oset(n.modes.protecteds) == (if o.default_modes.protecteds@.contains(nick) { oset(o.modes.protecteds).insert(nick) } else { oset(o.modes.protecteds) })
    &&& oset(n.modes.operators) == (if o.default_modes.operators@.contains(nick) { oset(o.modes.operators).insert(nick) } else { oset(o.modes.operators) })
    &&& oset(n.modes.half_operators) == (if o.default_modes.half_operators@.contains(nick) { oset(o.modes.half_operators).insert(nick) } else { oset(o.modes.half_operators) })
    &&& oset(n.modes.voices) == (if o.default_modes.voices@.contains(nick) { oset(o.modes.voices).insert(nick) } else { oset(o.modes.voices) })
}
pub proof fn lemma_add_user_wf(o: Channel, n: Channel, nick: String)
    requires chan_wf(o), add_user_post(o, n, nick), !o.users@.contains_key(nick),
    ensures chan_wf(n)
{
    assert forall|m: String| #[trigger] oset(n.modes.founders).contains(m) <==> (n.users@.contains_key(m) && n.users@[m].founder) by {
        assert(oset(o.modes.founders).contains(m) <==> (o.users@.contains_key(m) && o.users@[m].founder)); }
    assert forall|m: String| #[trigger] oset(n.modes.protecteds).contains(m) <==> (n.users@.contains_key(m) && n.users@[m].protected) by {
        assert(oset(o.modes.protecteds).contains(m) <==> (o.users@.contains_key(m) && o.users@[m].protected)); }
    assert forall|m: String| #[trigger] oset(n.modes.operators).contains(m) <==> (n.users@.contains_key(m) && n.users@[m].operator) by {
        assert(oset(o.modes.operators).contains(m) <==> (o.users@.contains_key(m) && o.users@[m].operator)); }
    assert forall|m: String| #[trigger] oset(n.modes.half_operators).contains(m) <==> (n.users@.contains_key(m) && n.users@[m].half_oper) by {
        assert(oset(o.modes.half_operators).contains(m) <==> (o.users@.contains_key(m) && o.users@[m].half_oper)); }
    assert forall|m: String| #[trigger] oset(n.modes.voices).contains(m) <==> (n.users@.contains_key(m) && n.users@[m].voice) by {
        assert(oset(o.modes.voices).contains(m) <==> (o.users@.contains_key(m) && o.users@[m].voice)); }
}

impl Channel {
//@fn state/structs.rs Channel::add_user unit=structs props=C04,C07,C16
//@spec
        requires !old(self).users@.contains_key(*user_nick), chan_wf(*old(self)),
        ensures
            add_user_post(*old(self), *final(self), *user_nick), // @prop C04,C07,C16
            chan_wf(*final(self)), // @prop C04
//@open
        broadcast use group_hash_axioms, bridge;
//@close
        proof { lemma_add_user_wf(*old(self), *self, *user_nick); }
//@end
//@fn state/structs.rs Channel::rename_user unit=structs props=C04,C15
//@spec
        requires old(self).users@.contains_key(*old_nick), !old(self).users@.contains_key(nick), chan_wf(*old(self)),
        ensures
            chan_rest_eq(*old(self), *final(self)), // @prop C15
            final(self).users@ == old(self).users@.remove(*old_nick).insert(nick, old(self).users@[*old_nick]), // @prop C15,C04
            oset(final(self).modes.operators) == orekey(old(self).modes.operators, *old_nick, nick), // @prop C15
            oset(final(self).modes.half_operators) == orekey(old(self).modes.half_operators, *old_nick, nick), // @prop C15
            oset(final(self).modes.voices) == orekey(old(self).modes.voices, *old_nick, nick), // @prop C15
            oset(final(self).modes.founders) == orekey(old(self).modes.founders, *old_nick, nick), // @prop C15
            oset(final(self).modes.protecteds) == orekey(old(self).modes.protecteds, *old_nick, nick), // @prop C15
            chan_wf(*final(self)), // @prop C04
//@open
        broadcast use group_hash_axioms, bridge;
//@close
        proof {
            assert forall|n: String| #[trigger] oset(self.modes.founders).contains(n) <==> (self.users@.contains_key(n) && self.users@[n].founder) by {
                assert(oset(old(self).modes.founders).contains(n) <==> (old(self).users@.contains_key(n) && old(self).users@[n].founder)); }
            assert forall|n: String| #[trigger] oset(self.modes.protecteds).contains(n) <==> (self.users@.contains_key(n) && self.users@[n].protected) by {
                assert(oset(old(self).modes.protecteds).contains(n) <==> (old(self).users@.contains_key(n) && old(self).users@[n].protected)); }
            assert forall|n: String| #[trigger] oset(self.modes.operators).contains(n) <==> (self.users@.contains_key(n) && self.users@[n].operator) by {
                assert(oset(old(self).modes.operators).contains(n) <==> (old(self).users@.contains_key(n) && old(self).users@[n].operator)); }
            assert forall|n: String| #[trigger] oset(self.modes.half_operators).contains(n) <==> (self.users@.contains_key(n) && self.users@[n].half_oper) by {
                assert(oset(old(self).modes.half_operators).contains(n) <==> (old(self).users@.contains_key(n) && old(self).users@[n].half_oper)); }
            assert forall|n: String| #[trigger] oset(self.modes.voices).contains(n) <==> (self.users@.contains_key(n) && self.users@[n].voice) by {
                assert(oset(old(self).modes.voices).contains(n) <==> (old(self).users@.contains_key(n) && old(self).users@[n].voice)); }
        }
//@end
}

impl VolatileState {
//@fn state/structs.rs VolatileState::remove_user_from_channel unit=structs props=C04,C06,C09,C16,C12
//@spec
        requires
            old(self).channels@.contains_key(sk(channel)) ==> old(self).channels@[sk(channel)].users@.contains_key(sk(nick)),
        ensures
            forall|c: String| c != sk(channel) ==> (final(self).channels@.contains_key(c) <==> old(self).channels@.contains_key(c)), // @prop C04,C06
            forall|c: String| c != sk(channel) && old(self).channels@.contains_key(c) ==> final(self).channels@[c] == old(self).channels@[c], // @prop C04,C06
            post_chan(old(self).channels@, final(self).channels@, sk(channel), sk(nick)), // @prop C04,C06,C09,C16
            old(self).channels@.contains_key(sk(channel)) && chan_wf(old(self).channels@[sk(channel)]) && final(self).channels@.contains_key(sk(channel))
                ==> chan_wf(final(self).channels@[sk(channel)]), // @prop C04
            final(self).users@.dom() == old(self).users@.dom(), // @prop C06
            forall|n: String| n != sk(nick) && old(self).users@.contains_key(n) ==> final(self).users@[n] == old(self).users@[n], // @prop C06
            old(self).users@.contains_key(sk(nick)) ==> // @prop C04,C06,C12
                final(self).users@[sk(nick)].channels@ == old(self).users@[sk(nick)].channels@.remove(sk(channel))
                && user_same_except_channels(final(self).users@[sk(nick)], old(self).users@[sk(nick)]),
            final(self).wallops_users == old(self).wallops_users && final(self).invisible_users_count == old(self).invisible_users_count // @prop C06
              && final(self).operators_count == old(self).operators_count && final(self).max_users_count == old(self).max_users_count
              && final(self).nick_histories == old(self).nick_histories && final(self).quit_sender == old(self).quit_sender
              && final(self).quit_receiver == old(self).quit_receiver,
//@open
        broadcast use group_hash_axioms, bridge;
//@end

//@fn state/structs.rs VolatileState::insert_to_nick_history unit=structs props=C06,C15
//@spec
        ensures
            final(self).nick_histories@.dom() == old(self).nick_histories@.dom().insert(*old_nick), // @prop C06,C15
            final(self).nick_histories@[*old_nick]@ == (if old(self).nick_histories@.contains_key(*old_nick) { old(self).nick_histories@[*old_nick]@ } else { Seq::empty() }).push(nhe), // @prop C06,C15
            forall|k: String| k != *old_nick && old(self).nick_histories@.contains_key(k) ==> final(self).nick_histories@[k] == old(self).nick_histories@[k], // @prop C06
            final(self).users == old(self).users && final(self).channels == old(self).channels && final(self).wallops_users == old(self).wallops_users // @prop C06
              && final(self).invisible_users_count == old(self).invisible_users_count
              && final(self).operators_count == old(self).operators_count && final(self).max_users_count == old(self).max_users_count
              && final(self).quit_sender == old(self).quit_sender && final(self).quit_receiver == old(self).quit_receiver,
//@open
        broadcast use group_hash_axioms, bridge;
//@end
}

impl VolatileState {
//@fn state/structs.rs VolatileState::add_user unit=structs props=C02,C19,C11
//@spec
        requires
            state_wf(*old(self)), // @prop C19,C02
            !old(self).users@.contains_key(sk(unick)), // @prop C02
            user.channels@ == Set::<String>::empty(),
            forall|n: String| old(self).users@.contains_key(n) ==> (#[trigger] old(self).users@[n]).sender.id() != user.sender.id(),
        ensures
            final(self).users@ == old(self).users@.insert(sk(unick), user), // @prop C02,C19
            final(self).channels == old(self).channels && final(self).nick_histories == old(self).nick_histories // @prop C02
              && final(self).quit_sender == old(self).quit_sender && final(self).quit_receiver == old(self).quit_receiver,
            sym(*final(self)), // @prop C04,C05
            chans_wf(*final(self)), // @prop C04,C08
            no_empty_chan(*final(self)), // @prop C16
            wallops_wf(*final(self)), // @prop C11,C06,C05
            counters_wf(*final(self)), // @prop C19
            senders_distinct(*final(self)), // @prop C02,C01
//@open
        broadcast use group_hash_axioms, bridge, ax_hashmap_len_bound;
        proof {
            lemma_inv_insert(self.users@, sk(unick), user);
            lemma_opr_insert(self.users@, sk(unick), user);
        }
//@close
        proof {
            assert forall|n: String, c: String| #![trigger self.users@[n].channels@.contains(c)] #![trigger member(*self, n, c)]
                (self.users@.contains_key(n) && self.users@[n].channels@.contains(c)) <==> member(*self, n, c) by {
                assert(member(*self, n, c) == member(*old(self), n, c));
                assert((old(self).users@.contains_key(n) && old(self).users@[n].channels@.contains(c)) <==> member(*old(self), n, c));
                if n != sk(unick) { if old(self).users@.contains_key(n) { assert(self.users@[n] == old(self).users@[n]); } }
            }
            assert(sym(*self));
            assert(wallops_wf(*self)) by {
                assert forall|n: String| #[trigger] self.wallops_users@.contains(n) <==> (self.users@.contains_key(n) && self.users@[n].modes.wallops) by {
                    assert(old(self).wallops_users@.contains(n) <==> (old(self).users@.contains_key(n) && old(self).users@[n].modes.wallops));
                }
            }
            assert(senders_distinct(*self));
        }
//@end

//@fn state/structs.rs VolatileState::remove_user unit=structs props=C06,C04,C19 rules=R5
//@spec
        requires state_wf(*old(self)),
        ensures
            final(self).users@ == old(self).users@.remove(sk(nick)), // @prop C06
            forall|c: String| post_chan(old(self).channels@, final(self).channels@, c, sk(nick)), // @prop C06,C04,C16
            final(self).wallops_users@ == old(self).wallops_users@.remove(sk(nick)), // @prop C06
            old(self).users@.contains_key(sk(nick)) ==> // @prop C06
                final(self).nick_histories@.dom() == old(self).nick_histories@.dom().insert(sk(nick))
                && final(self).nick_histories@[sk(nick)]@ == (if old(self).nick_histories@.contains_key(sk(nick)) { old(self).nick_histories@[sk(nick)]@ } else { Seq::empty() }).push(old(self).users@[sk(nick)].history_entry)
                && (forall|k: String| k != sk(nick) && old(self).nick_histories@.contains_key(k) ==> final(self).nick_histories@[k] == old(self).nick_histories@[k]),
            !old(self).users@.contains_key(sk(nick)) ==> vs_same(*final(self), *old(self)), // @prop C06,C02
            final(self).max_users_count == old(self).max_users_count && final(self).quit_sender == old(self).quit_sender // @prop C06,C19
                && final(self).quit_receiver == old(self).quit_receiver,
            sym(*final(self)), // @prop C04,C05
            chans_wf(*final(self)), // @prop C04,C08
            no_empty_chan(*final(self)), // @prop C16
            wallops_wf(*final(self)), // @prop C11,C06,C05
            counters_wf(*final(self)), // @prop C19
            senders_distinct(*final(self)), // @prop C02,C01
//@open
        broadcast use group_hash_axioms, bridge, lemma_cover_is_exact;
        let ghost nk = sk(nick);
//@after ~if let Some\(user\) = self\.users\.remove\(nick\)
            proof {
                lemma_opr_remove(old(self).users@, nk);
                lemma_inv_remove(old(self).users@, nk);
                assert(user == old(self).users@[nk]);
            }
//@before ~for chname in user\.channels\.iter\(\)
            let ghost chans = user.channels@;
            let ghost mut done: Set<String> = Set::empty();
            let ghost mid = *self;
//@loop ~for chname in user\.channels\.iter\(\) iter=it
                invariant
                    nk == sk(nick),
                    old(self).users@.contains_key(nk),
                    user == old(self).users@[nk],
                    chans == user.channels@,
                    state_wf(*old(self)),
                    // the loop only touches the channels: everything else is as it was when the loop started (independent of the order of
                    // the statements before it)
                    self.users@ == mid.users@, mid.users@ == old(self).users@.remove(nk),
                    self.wallops_users@ == mid.wallops_users@,
                    self.invisible_users_count == mid.invisible_users_count && self.operators_count == mid.operators_count
                        && self.max_users_count == mid.max_users_count && self.nick_histories == mid.nick_histories
                        && self.quit_sender == mid.quit_sender && self.quit_receiver == mid.quit_receiver,
                    it.seq().no_duplicates(),
                    it.seq().len() == chans.len(),
                    forall|k: String| chans.contains(k) ==> exists|i: int| 0 <= i < it.seq().len() && *#[trigger] it.seq()[i] == k,
                    forall|i: int| 0 <= i < it.seq().len() ==> chans.contains(*#[trigger] it.seq()[i]),
                    forall|c: String| done.contains(c) <==> (exists|j: int| 0 <= j < it.index@ && *#[trigger] it.seq()[j] == c),
                    forall|c: String| done.contains(c) ==> post_chan(old(self).channels@, self.channels@, c, nk),
                    forall|c: String| !done.contains(c) ==>
                        (self.channels@.contains_key(c) <==> old(self).channels@.contains_key(c)) && (old(self).channels@.contains_key(c) ==> self.channels@[c] == old(self).channels@[c]),
                    chans_wf(*self),
//@after ~for chname in user\.channels\.iter\(\)
                broadcast use group_hash_axioms, bridge, lemma_cover_is_exact;
                proof {
                    assert(chans.contains(*chname));
                    assert(member(*old(self), nk, *chname));
                    assert(!done.contains(*chname));
                    assert(string_of((*chname)@) == *chname);
                    assert(self.channels@.contains_key(*chname) && self.channels@[*chname] == old(self).channels@[*chname]);
                }
                let ghost pre = *self;
//@after ~self\.remove_user_from_channel\(chname, nick\);
                proof {
                    done = done.insert(*chname);
                    assert(chans_wf(*self)) by {
                        assert forall|c: String| self.channels@.contains_key(c) implies chan_wf(#[trigger] self.channels@[c]) by {
                            if c != *chname { assert(self.channels@[c] == pre.channels@[c]); assert(chan_wf(pre.channels@[c])); }
                            else { assert(chan_wf(pre.channels@[c])); }
                        }
                    }
                }
//@before ~self\.insert_to_nick_history\(
            proof {
                assert forall|c: String| post_chan(old(self).channels@, self.channels@, c, nk) by {
                    if chans.contains(c) { assert(done.contains(c)); }
                    else { assert(!member(*old(self), nk, c)); assert(!done.contains(c)); }
                }
            }
//@close
        proof {
            if old(self).users@.contains_key(nk) {
                lemma_remove_user_wf(*old(self), *self, nk);
            } else {
                assert(self.users@ =~= old(self).users@);
                assert(self.users@.remove(nk) =~= self.users@);
                assert forall|c: String| post_chan(old(self).channels@, self.channels@, c, nk) by {
                    assert(!member(*old(self), nk, c));
                }
                lemma_sets_same_modes(old(self).users@, self.users@);
                assert forall|n: String, c: String| #![trigger self.users@[n].channels@.contains(c)] #![trigger member(*self, n, c)]
                    (self.users@.contains_key(n) && self.users@[n].channels@.contains(c)) <==> member(*self, n, c) by {
                    assert((old(self).users@.contains_key(n) && old(self).users@[n].channels@.contains(c)) <==> member(*old(self), n, c));
                }
                assert(sym(*self));
                assert(state_wf(*self));
            }
        }
//@end
}

// ---- channel creation (C16) ----
pub open spec fn fresh_modes(m: ChannelModes, nick: String) -> bool {
    &&& m.ban is None && m.exception is None && m.client_limit is None && m.invite_exception is None && m.key is None
    &&& oset(m.operators) == Set::<String>::empty().insert(nick) && oset(m.founders) == Set::<String>::empty().insert(nick)
    &&& oset(m.half_operators) == Set::<String>::empty() && oset(m.voices) == Set::<String>::empty() && oset(m.protecteds) == Set::<String>::empty()
    &&& !m.invite_only && !m.moderated && !m.secret && !m.protected_topic && !m.no_external_messages
}
pub open spec fn fresh_channel(c: Channel, nick: String) -> bool {
    &&& c.topic is None
    &&& fresh_modes(c.modes, nick)
    &&& c.default_modes.operators@ == Set::<String>::empty() && c.default_modes.half_operators@ == Set::<String>::empty()
    &&& c.default_modes.voices@ == Set::<String>::empty() && c.default_modes.founders@ == Set::<String>::empty()
    &&& c.default_modes.protecteds@ == Set::<String>::empty()
    &&& c.ban_info@ == Map::<String, BanInfo>::empty()
    &&& c.users@ == Map::<String, ChannelUserModes>::empty().insert(nick, ChannelUserModes { founder: true, protected: false, voice: false, operator: true, half_oper: false })
    &&& !c.preconfigured
}
pub broadcast proof fn lemma_seq1_to_set(s: Seq<String>)
    requires s.len() == 1
    ensures #[trigger] s.to_set() == Set::<String>::empty().insert(s[0])
{
    assert forall|x: String| s.to_set().contains(x) <==> x == s[0] by {
        if x == s[0] { assert(s.contains(s[0])); }
    }
    assert(s.to_set() =~= Set::<String>::empty().insert(s[0]));
}
impl ChannelModes {
//@fn config.rs ChannelModes::new_for_channel unit=structs props=C16
//@spec
        ensures fresh_modes(r, user_nick), // @prop C16
//@open
        broadcast use group_hash_axioms, bridge, lemma_seq1_to_set;
//@end
}
impl Channel {
//@fn state/structs.rs Channel::new_on_user_join unit=structs props=C16,C07
//@spec
        ensures fresh_channel(r, user_nick), chan_wf(r), // @prop C16
//@open
        broadcast use group_hash_axioms, bridge;
//@end
}

// ---- channels from the configuration (C16) ----
impl Clone for ChannelModes {
    #[verifier::external_body]
    fn clone(&self) -> (r: Self) ensures r == *self { unimplemented!() }
}
pub open spec fn oset_h(o: Option<HashSet<String>>) -> Set<String> { oset(o) }
impl ChannelDefaultModes {
//@fn state/structs.rs ChannelDefaultModes::new_from_modes_and_cleanup unit=structs props=C16
//@spec
        ensures
            r.operators@ == oset(old(modes).operators) && r.half_operators@ == oset(old(modes).half_operators) && r.voices@ == oset(old(modes).voices) // @prop C16
              && r.founders@ == oset(old(modes).founders) && r.protecteds@ == oset(old(modes).protecteds),
            final(modes).operators is None && final(modes).half_operators is None && final(modes).voices is None // @prop C16
              && final(modes).founders is None && final(modes).protecteds is None,
            final(modes).ban == old(modes).ban && final(modes).exception == old(modes).exception && final(modes).client_limit == old(modes).client_limit // @prop C16
              && final(modes).invite_exception == old(modes).invite_exception && final(modes).key == old(modes).key && flags_eq_m(*final(modes), *old(modes)),
//@open
        broadcast use group_hash_axioms;
//@end
}
pub open spec fn flags_eq_m(a: ChannelModes, b: ChannelModes) -> bool {
    a.invite_only == b.invite_only && a.moderated == b.moderated && a.secret == b.secret
    && a.protected_topic == b.protected_topic && a.no_external_messages == b.no_external_messages
}
// a channel declared in the configuration, as it exists at start-up
pub open spec fn configured_channel(ch: Channel, cc: ChannelConfig) -> bool {
    &&& ch.preconfigured && ch.users@ == Map::<String, ChannelUserModes>::empty() && ch.ban_info@ == Map::<String, BanInfo>::empty()
    &&& (cc.topic is Some <==> ch.topic is Some) && (cc.topic is Some ==> ch.topic->0.topic == cc.topic->0)
    &&& ch.modes.ban == cc.modes.ban && ch.modes.exception == cc.modes.exception && ch.modes.invite_exception == cc.modes.invite_exception
    &&& ch.modes.key == cc.modes.key && ch.modes.client_limit == cc.modes.client_limit && flags_eq_m(ch.modes, cc.modes)
    &&& ch.modes.operators is None && ch.modes.half_operators is None && ch.modes.voices is None && ch.modes.founders is None && ch.modes.protecteds is None
    &&& ch.default_modes.operators@ == oset(cc.modes.operators) && ch.default_modes.half_operators@ == oset(cc.modes.half_operators)
    &&& ch.default_modes.voices@ == oset(cc.modes.voices) && ch.default_modes.founders@ == oset(cc.modes.founders)
    &&& ch.default_modes.protecteds@ == oset(cc.modes.protecteds)
}
pub open spec fn cfg_has(cfg: Seq<ChannelConfig>, upto: int, c: String) -> bool {
    exists|i: int| 0 <= i < upto && (#[trigger] cfg[i]).name == c
}
pub open spec fn cfg_ok(cfg: Seq<ChannelConfig>, upto: int, c: String, ch: Channel) -> bool {
    exists|i: int| 0 <= i < upto && (#[trigger] cfg[i]).name == c && configured_channel(ch, cfg[i])
}
pub open spec fn initial_like(n: VolatileState) -> bool {
    &&& n.users@ == Map::<String, User>::empty() && n.wallops_users@ == Set::<String>::empty()
    &&& n.invisible_users_count == 0 && n.operators_count == 0
    &&& (forall|c: String| n.channels@.contains_key(c) ==> (#[trigger] n.channels@[c]).preconfigured && n.channels@[c].users@ == Map::<String, ChannelUserModes>::empty() && chan_wf(n.channels@[c]))
}
pub proof fn lemma_initial_wf(n: VolatileState)
    requires initial_like(n)
    ensures state_wf(n)
{
    assert forall|u: String, d: String| #![trigger n.users@[u].channels@.contains(d)] #![trigger member(n, u, d)]
        (n.users@.contains_key(u) && n.users@[u].channels@.contains(d)) <==> member(n, u, d) by {
        if n.channels@.contains_key(d) { assert(n.channels@[d].users@ == Map::<String, ChannelUserModes>::empty()); }
    }
    assert(sym(n));
    assert(inv_set(n.users@) =~= Set::<String>::empty());
    assert(opr_set(n.users@) =~= Set::<String>::empty());
}
impl VolatileState {
//@fn state/structs.rs VolatileState::new_from_config unit=structs props=C16,C04 rules=R5,R5b
//@ascribe channels HashMap<String, Channel>
//@spec
        ensures
            r.users@ == Map::<String, User>::empty(), // @prop C16
            // exactly the configured channels exist, each as one of its configuration entries says
            config.channels is None ==> r.channels@ == Map::<String, Channel>::empty(), // @prop C16
            config.channels is Some ==> forall|c: String| #[trigger] r.channels@.contains_key(c) <==> cfg_has(config.channels->0@, config.channels->0@.len() as int, c), // @prop C16
            config.channels is Some ==> forall|c: String| #[trigger] r.channels@.contains_key(c) ==> cfg_ok(config.channels->0@, config.channels->0@.len() as int, c, r.channels@[c]), // @prop C16
            state_wf(r), // @prop C04
//@open
        broadcast use group_hash_axioms, bridge;
//@before ~for c in cfg_channels\.iter\(\)
            let ghost cfg = cfg_channels@;
//@loop ~for c in cfg_channels\.iter\(\) iter=itc
                invariant
                    cfg == cfg_channels@, itc.seq().len() == cfg.len(),
                    forall|k: int| 0 <= k < itc.seq().len() ==> itc.seq()[k] == &cfg[k],
                    forall|n: String| #[trigger] channels@.contains_key(n) <==> cfg_has(cfg, itc.index@ as int, n), // @prop C16
                    forall|n: String| #[trigger] channels@.contains_key(n) ==> cfg_ok(cfg, itc.index@ as int, n, channels@[n]), // @prop C16
//@after ~for c in cfg_channels\.iter\(\)
                broadcast use group_hash_axioms, bridge;
                let ghost k = itc.index@ as int;
                let ghost pre = channels@;
                proof { assert(c == &cfg[k]); }
//@endloop ~for c in cfg_channels\.iter\(\)
                proof {
                    assert(channels@ == pre.insert(cfg[k].name, channels@[cfg[k].name]));
                    assert(configured_channel(channels@[cfg[k].name], cfg[k]));
                    assert forall|n: String| #[trigger] channels@.contains_key(n) <==> cfg_has(cfg, k + 1, n) by {
                        if cfg_has(cfg, k, n) { let i = choose|i: int| 0 <= i < k && (#[trigger] cfg[i]).name == n; assert(0 <= i < k + 1 && cfg[i].name == n); }
                        if n == cfg[k].name { assert(cfg[k].name == n); }
                        if cfg_has(cfg, k + 1, n) { let i = choose|i: int| 0 <= i < k + 1 && (#[trigger] cfg[i]).name == n; if i < k { assert(cfg_has(cfg, k, n)); } }
                    }
                    assert forall|n: String| #[trigger] channels@.contains_key(n) implies cfg_ok(cfg, k + 1, n, channels@[n]) by {
                        if n == cfg[k].name { assert(0 <= k < k + 1 && cfg[k].name == n && configured_channel(channels@[n], cfg[k])); }
                        else {
                            assert(pre.contains_key(n) && channels@[n] == pre[n]);
                            let i = choose|i: int| 0 <= i < k && (#[trigger] cfg[i]).name == n && configured_channel(pre[n], cfg[i]);
                            assert(0 <= i < k + 1 && cfg[i].name == n && configured_channel(channels@[n], cfg[i]));
                        }
                    }
                }
//@before ~let \(quit_sender, quit_receiver\) = oneshot::channel\(\);
        proof {
            let r0 = channels@;
            assert forall|n: String| r0.contains_key(n) implies r0[n].preconfigured && r0[n].users@ == Map::<String, ChannelUserModes>::empty() && chan_wf(#[trigger] r0[n]) by {
                if config.channels is Some {
                    let cfg = config.channels->0@;
                    assert(cfg_ok(cfg, cfg.len() as int, n, r0[n]));
                    let i = choose|i: int| 0 <= i < cfg.len() && (#[trigger] cfg[i]).name == n && configured_channel(r0[n], cfg[i]);
                }
            }
            assert forall|n: VolatileState| initial_like(n) implies #[trigger] state_wf(n) by { lemma_initial_wf(n); }
        }
//@end
}
