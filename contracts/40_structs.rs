// ===== CONTRACTS: state/structs.rs and config.rs helpers =====
impl UserModes {
//@fn config.rs UserModes::is_local_oper unit=structs props=C11,C19
//@spec
        ensures r == local_oper(*self), // @prop C11,C19
//@end
}

impl ChannelUserModes {
//@fn state/structs.rs ChannelUserModes::new_for_created_channel unit=structs props=C16
//@spec
        ensures r == (ChannelUserModes { founder: true, protected: false, voice: false, operator: true, half_oper: false }), // @prop C16
//@end
//@fn state/structs.rs ChannelUserModes::is_protected unit=structs props=C08,C09
//@spec
        ensures r == is_prot(*self), // @prop C08,C09
//@end
//@fn state/structs.rs ChannelUserModes::is_operator unit=structs props=C08,C09
//@spec
        ensures r == is_op(*self), // @prop C08,C09
//@end
//@fn state/structs.rs ChannelUserModes::is_half_operator unit=structs props=C08,C09
//@spec
        ensures r == half_op(*self), // @prop C08,C09
//@end
//@fn state/structs.rs ChannelUserModes::is_only_half_operator unit=structs props=C09
//@spec
        ensures r == only_half_op(*self), // @prop C09
//@end
//@fn state/structs.rs ChannelUserModes::is_voice unit=structs props=C10
//@spec
        ensures r == has_voice(*self), // @prop C10
//@end
}

pub proof fn lemma_rank_change_wf(o: Channel, n: Channel, nick: String, which: int, v: bool)
    requires chan_wf(o), rank_change(o, n, nick, which, v), o.users@.contains_key(nick), 0 <= which <= 4,
    ensures chan_wf(n)
{
    assert forall|m: String| #[trigger] oset(n.modes.founders).contains(m) <==> (n.users@.contains_key(m) && n.users@[m].founder) by {
        assert(oset(o.modes.founders).contains(m) <==> (o.users@.contains_key(m) && o.users@[m].founder));
    }
    assert forall|m: String| #[trigger] oset(n.modes.protecteds).contains(m) <==> (n.users@.contains_key(m) && n.users@[m].protected) by {
        assert(oset(o.modes.protecteds).contains(m) <==> (o.users@.contains_key(m) && o.users@[m].protected));
    }
    assert forall|m: String| #[trigger] oset(n.modes.operators).contains(m) <==> (n.users@.contains_key(m) && n.users@[m].operator) by {
        assert(oset(o.modes.operators).contains(m) <==> (o.users@.contains_key(m) && o.users@[m].operator));
    }
    assert forall|m: String| #[trigger] oset(n.modes.half_operators).contains(m) <==> (n.users@.contains_key(m) && n.users@[m].half_oper) by {
        assert(oset(o.modes.half_operators).contains(m) <==> (o.users@.contains_key(m) && o.users@[m].half_oper));
    }
    assert forall|m: String| #[trigger] oset(n.modes.voices).contains(m) <==> (n.users@.contains_key(m) && n.users@[m].voice) by {
        assert(oset(o.modes.voices).contains(m) <==> (o.users@.contains_key(m) && o.users@[m].voice));
    }
}

impl Channel {
//@fn state/structs.rs Channel::add_operator unit=structs props=C04,C08
//@spec
        requires old(self).users@.contains_key(sk(nick)),
        ensures rank_change(*old(self), *final(self), sk(nick), 2, true), // @prop C08
            chan_wf(*old(self)) ==> chan_wf(*final(self)), // @prop C04
//@open
        broadcast use group_hash_axioms, bridge;
//@close
        proof { if chan_wf(*old(self)) { lemma_rank_change_wf(*old(self), *self, sk(nick), 2, true); } }
//@end
//@fn state/structs.rs Channel::remove_operator unit=structs props=C04,C08
//@spec
        requires old(self).users@.contains_key(sk(nick)),
        ensures rank_change(*old(self), *final(self), sk(nick), 2, false), // @prop C08
            chan_wf(*old(self)) ==> chan_wf(*final(self)), // @prop C04
//@open
        broadcast use group_hash_axioms, bridge;
//@close
        proof { if chan_wf(*old(self)) { lemma_rank_change_wf(*old(self), *self, sk(nick), 2, false); } }
//@end
//@fn state/structs.rs Channel::add_half_operator unit=structs props=C04,C08
//@spec
        requires old(self).users@.contains_key(sk(nick)),
        ensures rank_change(*old(self), *final(self), sk(nick), 3, true), // @prop C08
            chan_wf(*old(self)) ==> chan_wf(*final(self)), // @prop C04
//@open
        broadcast use group_hash_axioms, bridge;
//@close
        proof { if chan_wf(*old(self)) { lemma_rank_change_wf(*old(self), *self, sk(nick), 3, true); } }
//@end
//@fn state/structs.rs Channel::remove_half_operator unit=structs props=C04,C08
//@spec
        requires old(self).users@.contains_key(sk(nick)),
        ensures rank_change(*old(self), *final(self), sk(nick), 3, false), // @prop C08
            chan_wf(*old(self)) ==> chan_wf(*final(self)), // @prop C04
//@open
        broadcast use group_hash_axioms, bridge;
//@close
        proof { if chan_wf(*old(self)) { lemma_rank_change_wf(*old(self), *self, sk(nick), 3, false); } }
//@end
//@fn state/structs.rs Channel::add_voice unit=structs props=C04,C08
//@spec
        requires old(self).users@.contains_key(sk(nick)),
        ensures rank_change(*old(self), *final(self), sk(nick), 4, true), // @prop C08
            chan_wf(*old(self)) ==> chan_wf(*final(self)), // @prop C04
//@open
        broadcast use group_hash_axioms, bridge;
//@close
        proof { if chan_wf(*old(self)) { lemma_rank_change_wf(*old(self), *self, sk(nick), 4, true); } }
//@end
//@fn state/structs.rs Channel::remove_voice unit=structs props=C04,C08
//@spec
        requires old(self).users@.contains_key(sk(nick)),
        ensures rank_change(*old(self), *final(self), sk(nick), 4, false), // @prop C08
            chan_wf(*old(self)) ==> chan_wf(*final(self)), // @prop C04
//@open
        broadcast use group_hash_axioms, bridge;
//@close
        proof { if chan_wf(*old(self)) { lemma_rank_change_wf(*old(self), *self, sk(nick), 4, false); } }
//@end
//@fn state/structs.rs Channel::add_founder unit=structs props=C04,C08
//@spec
        requires old(self).users@.contains_key(sk(nick)),
        ensures rank_change(*old(self), *final(self), sk(nick), 0, true), // @prop C08
            chan_wf(*old(self)) ==> chan_wf(*final(self)), // @prop C04
//@open
        broadcast use group_hash_axioms, bridge;
//@close
        proof { if chan_wf(*old(self)) { lemma_rank_change_wf(*old(self), *self, sk(nick), 0, true); } }
//@end
//@fn state/structs.rs Channel::remove_founder unit=structs props=C04,C08
//@spec
        requires old(self).users@.contains_key(sk(nick)),
        ensures rank_change(*old(self), *final(self), sk(nick), 0, false), // @prop C08
            chan_wf(*old(self)) ==> chan_wf(*final(self)), // @prop C04
//@open
        broadcast use group_hash_axioms, bridge;
//@close
        proof { if chan_wf(*old(self)) { lemma_rank_change_wf(*old(self), *self, sk(nick), 0, false); } }
//@end
//@fn state/structs.rs Channel::add_protected unit=structs props=C04,C08
//@spec
        requires old(self).users@.contains_key(sk(nick)),
        ensures rank_change(*old(self), *final(self), sk(nick), 1, true), // @prop C08
            chan_wf(*old(self)) ==> chan_wf(*final(self)), // @prop C04
//@open
        broadcast use group_hash_axioms, bridge;
//@close
        proof { if chan_wf(*old(self)) { lemma_rank_change_wf(*old(self), *self, sk(nick), 1, true); } }
//@end
//@fn state/structs.rs Channel::remove_protected unit=structs props=C04,C08
//@spec
        requires old(self).users@.contains_key(sk(nick)),
        ensures rank_change(*old(self), *final(self), sk(nick), 1, false), // @prop C08
            chan_wf(*old(self)) ==> chan_wf(*final(self)), // @prop C04
//@open
        broadcast use group_hash_axioms, bridge;
//@close
        proof { if chan_wf(*old(self)) { lemma_rank_change_wf(*old(self), *self, sk(nick), 1, false); } }
//@end

//@fn state/structs.rs Channel::remove_user unit=structs props=C04,C06,C09
//@spec
        requires old(self).users@.contains_key(sk(nick)),
        ensures chan_after_leave(*old(self), *final(self), sk(nick)), // @prop C04,C06,C09
            chan_wf(*old(self)) ==> chan_wf(*final(self)), // @prop C04
//@open
        broadcast use group_hash_axioms, bridge;
//@close
        proof { assert(self.users@ =~= old(self).users@.remove(sk(nick))); }
//@end
}
