// ===== CONTRACT: connection slots (C19: never more than max_connections at once; every connection that ends frees its slot) =====
// The counter is an AtomicUsize behind an Arc; as with the quit flag its effect is recorded in a ghost parameter (rule R6c). The model
// is SEQUENTIAL: one register / drop at a time (interleavings are C18, not applicable).
pub ghost struct SlotCounter { pub v: int }
impl AtomicUsize {
    #[verifier::external_body]
    pub fn fetch_add(&self, n: usize, o: Ordering, Tracked(cnt): Tracked<&mut SlotCounter>) -> (r: usize)
        requires old(cnt).v + n <= usize::MAX, old(cnt).v >= 0,
        ensures r == old(cnt).v, final(cnt).v == old(cnt).v + n
    { unimplemented!() }
    #[verifier::external_body]
    pub fn fetch_sub(&self, n: usize, o: Ordering, Tracked(cnt): Tracked<&mut SlotCounter>) -> (r: usize)
        requires old(cnt).v >= n,
        ensures r == old(cnt).v, final(cnt).v == old(cnt).v - n
    { unimplemented!() }
}
// opaque stand-ins for the tokio-util / TLS stream types of the signature
#[verifier::external_body]
pub struct DualTcpStream { x: u8 }
#[verifier::external_body]
pub struct IRCLinesCodec { x: u8 }
#[verifier::external_body]
pub struct Framed<#[verifier::reject_recursive_types] A, #[verifier::reject_recursive_types] B> { a: A, b: B }
impl ConnState {
    // ASSUMED: the constructor only builds the record (channels, timers are created but not started)
    #[verifier::external_body]
    pub fn new(ip_addr: IpAddr, stream: Framed<DualTcpStream, IRCLinesCodec>, conns_count: Arc<AtomicUsize>) -> (r: ConnState)
    { unimplemented!() }
//@fn state/structs.rs Drop+for+ConnState::drop unit=slots props=C19 rules=R6c
//@spec
        // ending a connection - however it ends, the ConnState is dropped - gives its slot back
        requires old(cnt).v >= 1,
        ensures final(cnt).v == old(cnt).v - 1, // @prop C19
//@end
}
// the call Rust makes when a ConnState goes out of scope without having been moved out (rule Rdrop); same contract as the proved Drop::drop
#[verifier::external_body]
pub fn verif_drop_conn_state(c: ConnState, Tracked(cnt): Tracked<&mut SlotCounter>)
    requires old(cnt).v >= 1,
    ensures final(cnt).v == old(cnt).v - 1
{ unimplemented!() }
impl MainState {
//@fn state/mod.rs MainState::register_conn_state unit=slots props=C19,C05 rules=R3,R6c
//@implicitdrop ConnState::new verif_drop_conn_state Tracked(cnt)
//@spec
        requires 0 <= old(cnt).v < usize::MAX,
        ensures
            // with a limit configured a connection is served only while fewer than the limit are, and only a served one takes a slot
            self.config.max_connections is Some ==> (r is Some <==> old(cnt).v < self.config.max_connections->0), // @prop C19
            self.config.max_connections is None ==> r is Some, // @prop C19
            final(cnt).v == old(cnt).v + (if r is Some { 1int } else { 0int }), // @prop C19
            // hence the limit is never exceeded
            self.config.max_connections is Some && old(cnt).v <= self.config.max_connections->0 ==> final(cnt).v <= self.config.max_connections->0, // @prop C19
//@end
}
