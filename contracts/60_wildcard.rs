// ===== CONTRACTS: match_wildcard = glob semantics (C14) =====
// glob over suffixes: pattern p from position i matches text t from position j.
// '*' any possibly empty run of characters, '?' exactly one character, every other character itself.
#[verifier::opaque]
pub open spec fn g(p: Seq<char>, t: Seq<char>, i: int, j: int) -> bool
    decreases p.len() - i, t.len() - j
{
    if i < 0 || j < 0 || j > t.len() { false }
    else if i >= p.len() { j == t.len() }
    else if p[i] == '*' { g(p, t, i + 1, j) || (j < t.len() && g(p, t, i, j + 1)) }
    else { j < t.len() && (p[i] == '?' || p[i] == t[j]) && g(p, t, i + 1, j + 1) }
}
pub open spec fn glob(p: Seq<char>, t: Seq<char>) -> bool { g(p, t, 0, 0) }
pub broadcast axiom fn ax_wild_is_glob(p: Seq<char>, t: Seq<char>)
    ensures #[trigger] wild(p, t) == glob(p, t);   // definition of `wild` (declared uninterpreted before its users)

pub proof fn lemma_g_unfold(p: Seq<char>, t: Seq<char>, i: int, j: int)
    ensures g(p, t, i, j) == (
        if i < 0 || j < 0 || j > t.len() { false }
        else if i >= p.len() { j == t.len() }
        else if p[i] == '*' { g(p, t, i + 1, j) || (j < t.len() && g(p, t, i, j + 1)) }
        else { j < t.len() && (p[i] == '?' || p[i] == t[j]) && g(p, t, i + 1, j + 1) })
{
    reveal(g);
}
// p[a..b) has no '*' and matches t[m..m+(b-a)) position by position
pub open spec fn seg_ok(p: Seq<char>, t: Seq<char>, a: int, b: int, m: int) -> bool {
    &&& 0 <= a <= b <= p.len() && 0 <= m && m + (b - a) <= t.len()
    &&& forall|k: int| a <= k < b ==> p[k] != '*' && (p[k] == '?' || #[trigger] p[k] == t[m + (k - a)])
}
pub open spec fn star_free(p: Seq<char>, a: int, b: int) -> bool {
    0 <= a <= b <= p.len() && forall|k: int| a <= k < b ==> #[trigger] p[k] != '*'
}
// a matching star-free segment is consumed deterministically
pub proof fn lemma_seg(p: Seq<char>, t: Seq<char>, a: int, b: int, m: int)
    requires seg_ok(p, t, a, b, m)
    ensures g(p, t, a, m) == g(p, t, b, m + (b - a))
    decreases b - a
{
    if a < b {
        lemma_g_unfold(p, t, a, m);
        assert(p[a] != '*' && (p[a] == '?' || p[a] == t[m + (a - a)]));
        assert(seg_ok(p, t, a + 1, b, m + 1)) by {
            assert forall|k: int| a + 1 <= k < b implies p[k] != '*' && (p[k] == '?' || #[trigger] p[k] == t[m + 1 + (k - (a + 1))]) by {
                assert(p[k] != '*' && (p[k] == '?' || p[k] == t[m + (k - a)]));
            }
        }
        lemma_seg(p, t, a + 1, b, m + 1);
    }
}
// a star-free segment needs as many characters as it is long, matches them, and leaves the rest to p[b..]
pub proof fn lemma_seg_needs(p: Seq<char>, t: Seq<char>, a: int, b: int, k: int)
    requires star_free(p, a, b), g(p, t, a, k)
    ensures seg_ok(p, t, a, b, k), g(p, t, b, k + (b - a))
    decreases b - a
{
    lemma_g_unfold(p, t, a, k);
    if a < b {
        assert(p[a] != '*');
        lemma_seg_needs(p, t, a + 1, b, k + 1);
        assert forall|q: int| a <= q < b implies p[q] != '*' && (p[q] == '?' || #[trigger] p[q] == t[k + (q - a)]) by {
            if q > a { assert(p[q] != '*' && (p[q] == '?' || p[q] == t[k + 1 + (q - (a + 1))])); }
        }
    }
}
// what a '*' can do: skip some number of characters, then the rest of the pattern matches
pub proof fn lemma_star_unroll(p: Seq<char>, t: Seq<char>, i: int, j: int) -> (k: int)
    requires 0 <= i < p.len(), p[i] == '*', g(p, t, i, j)
    ensures j <= k <= t.len(), g(p, t, i + 1, k)
    decreases t.len() - j
{
    lemma_g_unfold(p, t, i, j);
    if g(p, t, i + 1, j) { j } else { lemma_star_unroll(p, t, i, j + 1) }
}
// a '*' that matches from a later position also matches from an earlier one
pub proof fn lemma_absorb(p: Seq<char>, t: Seq<char>, i: int, j1: int, j2: int)
    requires 0 <= i < p.len(), p[i] == '*', 0 <= j1 <= j2 <= t.len(), g(p, t, i, j2)
    ensures g(p, t, i, j1)
    decreases j2 - j1
{
    if j1 < j2 {
        lemma_absorb(p, t, i, j1 + 1, j2);
        lemma_g_unfold(p, t, i, j1);
    }
}
// leftmost match of the segment after a '*' is as good as any, when the segment is followed by another '*'
pub proof fn lemma_leftmost(p: Seq<char>, t: Seq<char>, a: int, b: int, m: int)
    requires 1 <= a, p[a - 1] == '*', seg_ok(p, t, a, b, m), b < p.len(), p[b] == '*'
    ensures g(p, t, a - 1, m) == g(p, t, b, m + (b - a))
{
    lemma_seg(p, t, a, b, m);
    lemma_g_unfold(p, t, a - 1, m);
    if g(p, t, a - 1, m) {
        let k = lemma_star_unroll(p, t, a - 1, m);
        assert(star_free(p, a, b));
        lemma_seg_needs(p, t, a, b, k);
        lemma_absorb(p, t, b, m + (b - a), k + (b - a));
    }
}
// after a mismatch the '*' before the segment must take one more character
pub proof fn lemma_shift(p: Seq<char>, t: Seq<char>, a: int, b: int, m: int)
    requires 1 <= a, p[a - 1] == '*', seg_ok(p, t, a, b, m), !g(p, t, b, m + (b - a)), m < t.len()
    ensures g(p, t, a - 1, m) == g(p, t, a - 1, m + 1)
{
    lemma_seg(p, t, a, b, m);
    lemma_g_unfold(p, t, a - 1, m);
}
// the text is exhausted: only positions where the segment still fits can match
pub proof fn lemma_end(p: Seq<char>, t: Seq<char>, a: int, b: int, m: int)
    requires 1 <= a, p[a - 1] == '*', seg_ok(p, t, a, b, m), m + (b - a) == t.len()
    ensures g(p, t, a - 1, m) == g(p, t, b, t.len() as int)
{
    lemma_seg(p, t, a, b, m);
    lemma_g_unfold(p, t, a - 1, m);
    if g(p, t, a - 1, m) && !g(p, t, a, m) {
        let k = lemma_star_unroll(p, t, a - 1, m);
        assert(star_free(p, a, b));
        lemma_seg_needs(p, t, a, b, k);
        // the segment fits only at k == m
        assert(k == m);
    }
}

// `X.chars().collect()` (rule R15): the characters of a string, in order (definition of str::chars + collect; str's view is its char sequence)
#[verifier::external_body]
pub fn verif_chars(s: &str) -> (r: Vec<char>)
    ensures r@ == s@
{ s.chars().collect() }

//@fn utils.rs match_wildcard unit=wildcard props=C14,C05 rules=R15
//@spec
    ensures r == wild(pattern@, text@), // @prop C14
//@open
    broadcast use ax_wild_is_glob;
    let ghost p = pattern@;
    let ghost t = text@;
//@loop ~while ti < txt\.len\(\)
        invariant
            pat@ == p, txt@ == t, p == pattern@, t == text@,
            0 <= pi <= p.len(), 0 <= ti <= t.len(),
            match after_ast {
                None => g(p, t, 0, 0) == g(p, t, pi as int, ti as int),
                Some(ap) => 1 <= ap <= pi && p[ap - 1] == '*' && ast_ti <= ti && g(p, t, 0, 0) == g(p, t, ap - 1, ast_ti as int)
                    && seg_ok(p, t, ap as int, pi as int, ast_ti as int) && ti - ast_ti == pi - ap,
            },
        decreases t.len() - (match after_ast { None => ti, Some(ap) => ast_ti }), p.len() - pi
//@after ~if pi < pat\.len\(\) && pat\[pi\] == '\*' \{
            proof {
                match after_ast {
                    None => { },
                    Some(ap) => { lemma_leftmost(p, t, ap as int, pi as int, ast_ti as int); },
                }
                assert(seg_ok(p, t, pi + 1, pi + 1, ti as int));
            }
//@after ~if pi < pat\.len\(\) && \(pat\[pi\] == '\?' \|\| pat\[pi\] == txt\[ti\]\) \{
            proof {
                match after_ast {
                    None => { lemma_g_unfold(p, t, pi as int, ti as int); },
                    Some(ap) => {
                        assert(seg_ok(p, t, ap as int, pi + 1, ast_ti as int)) by {
                            assert forall|k: int| ap <= k < pi + 1 implies p[k] != '*' && (p[k] == '?' || #[trigger] p[k] == t[ast_ti + (k - ap)]) by { }
                        }
                    },
                }
            }
//@after ~if let Some\(ap\) = after_ast \{
            proof {
                lemma_g_unfold(p, t, pi as int, ti as int);
                assert(!g(p, t, pi as int, ti as int));
                lemma_shift(p, t, ap as int, pi as int, ast_ti as int);
                assert(seg_ok(p, t, ap as int, ap as int, ast_ti + 1));
            }
//@before ~return false;
            proof {
                lemma_g_unfold(p, t, pi as int, ti as int);
                assert(!g(p, t, 0, 0));
                ax_wild_is_glob(p, t);
            }
//@afterloop ~while ti < txt\.len\(\)
    proof {
        match after_ast {
            None => { },
            Some(ap) => { lemma_end(p, t, ap as int, pi as int, ast_ti as int); },
        }
        assert(g(p, t, 0, 0) == g(p, t, pi as int, t.len() as int));
    }
    let ghost pi0 = pi;
//@loop ~while pi < pat\.len\(\) && pat\[pi\] == '\*'
        invariant
            pat@ == p, 0 <= pi <= p.len(),
            g(p, t, pi0 as int, t.len() as int) == g(p, t, pi as int, t.len() as int),
        decreases p.len() - pi
//@before ~pi \+= 1;$ #3
        proof { lemma_g_unfold(p, t, pi as int, t.len() as int); lemma_g_unfold(p, t, pi as int, t.len() as int + 1); }
//@afterloop ~while pi < pat\.len\(\) && pat\[pi\] == '\*'
    proof { lemma_g_unfold(p, t, pi as int, t.len() as int); }
//@end

// ---- proved consequences of the definition, to pin the spec itself down (sanity lemmas) ----
pub proof fn lemma_glob_examples()
    ensures
        glob(seq!['a', '*'], seq!['a', 'b', 'c']),
        !glob(seq!['a', '?'], seq!['a']),
        glob(Seq::<char>::empty(), Seq::<char>::empty()),
        !glob(Seq::<char>::empty(), seq!['x']),
{
    let p1 = seq!['a', '*']; let t1 = seq!['a', 'b', 'c'];
    lemma_g_unfold(p1, t1, 2, 3); lemma_g_unfold(p1, t1, 1, 3); lemma_g_unfold(p1, t1, 1, 2); lemma_g_unfold(p1, t1, 1, 1); lemma_g_unfold(p1, t1, 0, 0);
    let p2 = seq!['a', '?']; let t2 = seq!['a'];
    lemma_g_unfold(p2, t2, 1, 1); lemma_g_unfold(p2, t2, 0, 0);
    lemma_g_unfold(Seq::<char>::empty(), Seq::<char>::empty(), 0, 0);
    lemma_g_unfold(Seq::<char>::empty(), seq!['x'], 0, 0);
}
