// ===== CONTRACTS: JOIN (C07, C16, C04) =====
pub open spec fn key_at(keys: Option<Vec<&str>>, i: int) -> Option<Seq<char>> {
    if keys is Some { Some(keys->0@[i]@) } else { None }
}
// admission to an existing channel, written from the property statement
pub open spec fn join_existing_ok(ch: Channel, u: User, me: String, src: Seq<char>, c: String, key: Option<Seq<char>>) -> bool {
    &&& (ch.modes.key is None || (key is Some && ch.modes.key->0@ == key->0))
    &&& !banned_spec(ch.modes, src)
    &&& (!ch.modes.invite_only || u.invited_to@.contains(c)
            || (ch.modes.invite_exception is Some && any_match(ch.modes.invite_exception->0@, src)))
    &&& (ch.modes.client_limit is None || ch.users@.len() < ch.modes.client_limit->0)
    &&& !ch.users@.contains_key(me)
}
pub open spec fn join_pre(s: VolatileState, me: String, src: Seq<char>, c: String, key: Option<Seq<char>>) -> bool {
    if s.channels@.contains_key(c) { join_existing_ok(s.channels@[c], s.users@[me], me, src, c, key) } else { true }
}
pub open spec fn quota_ok(max_joins: Option<usize>, count: int) -> bool { max_joins is None || count < max_joins->0 }
// number of channels the user is in before the i-th name of the command is processed
pub open spec fn jcount(s: VolatileState, mj: Option<usize>, me: String, src: Seq<char>, chans: Seq<&str>, keys: Option<Vec<&str>>, i: int) -> int
    decreases i
{
    if i <= 0 { s.users@[me].channels@.len() as int }
    else {
        let p = jcount(s, mj, me, src, chans, keys, i - 1);
        if join_pre(s, me, src, sk(chans[i - 1]), key_at(keys, i - 1)) && quota_ok(mj, p) { p + 1 } else { p }
    }
}
// the i-th name is admitted
pub open spec fn jdec(s: VolatileState, mj: Option<usize>, me: String, src: Seq<char>, chans: Seq<&str>, keys: Option<Vec<&str>>, i: int) -> bool {
    join_pre(s, me, src, sk(chans[i]), key_at(keys, i)) && quota_ok(mj, jcount(s, mj, me, src, chans, keys, i))
}
pub open spec fn admitted(s: VolatileState, mj: Option<usize>, me: String, src: Seq<char>, chans: Seq<&str>, keys: Option<Vec<&str>>, upto: int, c: String) -> bool {
    exists|j: int| 0 <= j < upto && sk(#[trigger] chans[j]) == c && jdec(s, mj, me, src, chans, keys, j)
}
pub open spec fn user_same_for_join(a: User, b: User) -> bool {
    &&& a.hostname == b.hostname && a.sender == b.sender && a.quit_sender == b.quit_sender && a.name == b.name
    &&& a.realname == b.realname && a.source == b.source && a.modes == b.modes && a.away == b.away
    &&& a.signon == b.signon && a.history_entry == b.history_entry
}
// whole-view effect of JOIN after the first `upto` names have been applied
pub open spec fn join_post(o: VolatileState, n: VolatileState, mj: Option<usize>, me: String, src: Seq<char>, chans: Seq<&str>, keys: Option<Vec<&str>>, upto: int) -> bool {
    &&& state_rest_same(o, n)
    &&& n.users@.dom() == o.users@.dom()
    &&& (forall|u: String| u != me && o.users@.contains_key(u) ==> #[trigger] n.users@[u] == o.users@[u])
    &&& user_same_for_join(n.users@[me], o.users@[me])
    &&& (forall|c: String| #[trigger] n.users@[me].channels@.contains(c) <==> (o.users@[me].channels@.contains(c) || admitted(o, mj, me, src, chans, keys, upto, c)))
    &&& (forall|c: String| #[trigger] n.users@[me].invited_to@.contains(c) <==> (o.users@[me].invited_to@.contains(c) && !admitted(o, mj, me, src, chans, keys, upto, c)))
    &&& (forall|c: String| !admitted(o, mj, me, src, chans, keys, upto, c) ==>
            ((#[trigger] n.channels@.contains_key(c)) <==> o.channels@.contains_key(c)) && (o.channels@.contains_key(c) ==> n.channels@[c] == o.channels@[c]))
    &&& (forall|c: String| admitted(o, mj, me, src, chans, keys, upto, c) ==> (#[trigger] n.channels@.contains_key(c))
            && (if o.channels@.contains_key(c) { add_user_post(o.channels@[c], n.channels@[c], me) } else { fresh_channel(n.channels@[c], me) })
            && chan_wf(n.channels@[c]))
}
pub open spec fn distinct_names(chans: Seq<&str>) -> bool {
    forall|i: int, j: int| 0 <= i < j < chans.len() ==> (#[trigger] chans[i])@ != (#[trigger] chans[j])@
}
// JOIN keeps the state well formed (proved)
pub proof fn lemma_join_wf(o: VolatileState, n: VolatileState, mj: Option<usize>, me: String, src: Seq<char>, chans: Seq<&str>, keys: Option<Vec<&str>>, upto: int)
    requires state_wf(o), o.users@.contains_key(me), join_post(o, n, mj, me, src, chans, keys, upto), 0 <= upto <= chans.len(),
    ensures state_wf(n)
{
    assert forall|u: String, d: String| #![trigger n.users@[u].channels@.contains(d)] #![trigger member(n, u, d)]
        (n.users@.contains_key(u) && n.users@[u].channels@.contains(d)) <==> member(n, u, d) by {
        assert((o.users@.contains_key(u) && o.users@[u].channels@.contains(d)) <==> member(o, u, d));
        if admitted(o, mj, me, src, chans, keys, upto, d) {
            assert(n.channels@.contains_key(d));
            if o.channels@.contains_key(d) {
                assert(add_user_post(o.channels@[d], n.channels@[d], me));
                let j = choose|j: int| 0 <= j < upto && sk(#[trigger] chans[j]) == d && jdec(o, mj, me, src, chans, keys, j);
                assert(!o.channels@[d].users@.contains_key(me));
            } else {
                assert(fresh_channel(n.channels@[d], me));
                assert(!member(o, u, d));
            }
        } else {
            assert(n.channels@.contains_key(d) <==> o.channels@.contains_key(d));
        }
    }
    assert(sym(n));
    assert(chans_wf(n)) by {
        assert forall|d: String| n.channels@.contains_key(d) implies chan_wf(#[trigger] n.channels@[d]) by {
            if !admitted(o, mj, me, src, chans, keys, upto, d) { assert(chan_wf(o.channels@[d])); }
        }
    }
    assert(no_empty_chan(n)) by {
        assert forall|d: String| n.channels@.contains_key(d) && !(#[trigger] n.channels@[d]).preconfigured implies n.channels@[d].users@.len() > 0 by {
            if admitted(o, mj, me, src, chans, keys, upto, d) {
                assert(n.channels@[d].users@.contains_key(me));
                if n.channels@[d].users@.len() == 0 { assert(n.channels@[d].users@.dom() =~= Set::<String>::empty()); assert(false); }
            } else {
                assert(!o.channels@[d].preconfigured ==> o.channels@[d].users@.len() > 0);
            }
        }
    }
    assert(wallops_wf(n)) by {
        assert forall|u: String| #[trigger] n.wallops_users@.contains(u) <==> (n.users@.contains_key(u) && n.users@[u].modes.wallops) by {
            assert(o.wallops_users@.contains(u) <==> (o.users@.contains_key(u) && o.users@[u].modes.wallops));
        }
    }
    assert forall|u: String| o.users@.contains_key(u) implies (#[trigger] o.users@[u]).modes == n.users@[u].modes by { }
    lemma_sets_same_modes(o.users@, n.users@);
    assert(senders_distinct(n)) by {
        assert forall|a: String, b: String| #![trigger n.users@[a], n.users@[b]]
            n.users@.contains_key(a) && n.users@.contains_key(b) && a != b implies n.users@[a].sender.id() != n.users@[b].sender.id() by {
            assert(n.users@[a].sender == o.users@[a].sender);
            assert(n.users@[b].sender == o.users@[b].sender);
        }
    }
}
// jcount never exceeds the number of names processed (for the overflow obligation of `join_count += 1`)
pub proof fn lemma_jcount_bound(s: VolatileState, mj: Option<usize>, me: String, src: Seq<char>, chans: Seq<&str>, keys: Option<Vec<&str>>, i: int)
    requires 0 <= i
    ensures jcount(s, mj, me, src, chans, keys, i) <= s.users@[me].channels@.len() + i,
        jcount(s, mj, me, src, chans, keys, i) >= s.users@[me].channels@.len(),
        mj is Some && s.users@[me].channels@.len() <= mj->0 ==> jcount(s, mj, me, src, chans, keys, i) <= mj->0,
    decreases i
{
    if i > 0 { lemma_jcount_bound(s, mj, me, src, chans, keys, i - 1); }
}

// ---- the announcement of a JOIN (C04: "announced to all members of the channel") ----
#[verifier::opaque]
pub open spec fn join_line(src: Seq<char>, channel: Seq<char>) -> Seq<char> { seq![':'] + src + seq![' '] + ("JOIN "@ + channel) }
pub proof fn lemma_join_line(src: Seq<char>, channel: Seq<char>, msg: &str)
    requires msg@ == "JOIN "@ + channel,
    ensures disp::<&str>(src, msg) == join_line(src, channel),
{
    broadcast use display_text;
    reveal(join_line);
}
// one pass over `set` minus the joiner, one copy each (the joiner gets its own echo on its connection)
pub open spec fn others_get(before: Seq<(int, Seq<char>)>, after: Seq<(int, Seq<char>)>, s: VolatileState, set: Set<String>, me: String, line: Seq<char>) -> bool {
    exists|order: Seq<String>|
        #![trigger order.no_duplicates()]
        order.no_duplicates()
        && (forall|n: String| order.contains(n) <==> (set.contains(n) && n != me))
        && after == before + order.map_values(|n: String| (s.users@[n].sender.id(), line))
}
// step k of the channel list: an admitted JOIN is announced to every other member of the channel as it is after the command
pub open spec fn join_announce_step(fin: VolatileState, me: String, src: Seq<char>, chans: Seq<&str>, joined: bool, k: int,
        before: Seq<(int, Seq<char>)>, after: Seq<(int, Seq<char>)>) -> bool {
    if joined { others_get(before, after, fin, fin.channels@[sk(chans[k])].users@.dom(), me, join_line(src, chans[k]@)) } else { after == before }
}
// the four quantified facts of the effect loop as named predicates (the step proof asserts them by name: robust against solver noise)
pub open spec fn untouched_at(now: Map<String, Channel>, o: VolatileState, c: String) -> bool {
    (now.contains_key(c) <==> o.channels@.contains_key(c)) && (o.channels@.contains_key(c) ==> now[c] == o.channels@[c])
}
pub open spec fn touched_at(now: Map<String, Channel>, o: VolatileState, me: String, c: String) -> bool {
    now.contains_key(c) && (if o.channels@.contains_key(c) { add_user_post(o.channels@[c], now[c], me) } else { fresh_channel(now[c], me) }) && chan_wf(now[c])
}
pub open spec fn join_untouched(now: Map<String, Channel>, o: VolatileState, mj: Option<usize>, me: String, src: Seq<char>, chans: Seq<&str>, keys: Option<Vec<&str>>, upto: int) -> bool {
    forall|c: String| #![trigger untouched_at(now, o, c)] #![trigger now.contains_key(c)] !admitted(o, mj, me, src, chans, keys, upto, c) ==> untouched_at(now, o, c)
}
pub open spec fn join_touched(now: Map<String, Channel>, o: VolatileState, mj: Option<usize>, me: String, src: Seq<char>, chans: Seq<&str>, keys: Option<Vec<&str>>, upto: int) -> bool {
    forall|c: String| #![trigger touched_at(now, o, me, c)] #![trigger now.contains_key(c)] admitted(o, mj, me, src, chans, keys, upto, c) ==> touched_at(now, o, me, c)
}
pub open spec fn join_user_chans(now: User, u0: User, o: VolatileState, mj: Option<usize>, me: String, src: Seq<char>, chans: Seq<&str>, keys: Option<Vec<&str>>, upto: int) -> bool {
    &&& forall|c: String| #[trigger] now.channels@.contains(c) <==> (u0.channels@.contains(c) || admitted(o, mj, me, src, chans, keys, upto, c))
    &&& forall|c: String| #[trigger] now.invited_to@.contains(c) <==> (u0.invited_to@.contains(c) && !admitted(o, mj, me, src, chans, keys, upto, c))
}

pub open spec fn join_announced(o: VolatileState, fin: VolatileState, mj: Option<usize>, me: String, src: Seq<char>, chans: Seq<&str>, keys: Option<Vec<&str>>, n: int, logs: Seq<Seq<(int, Seq<char>)>>) -> bool {
    &&& logs.len() == n + 1
    &&& forall|k: int| 0 <= k < n ==> #[trigger] join_announce_step(fin, me, src, chans, jdec(o, mj, me, src, chans, keys, k), k, logs[k], logs[k + 1])
}

impl MainState {
//@fn state/channel_cmds.rs MainState::process_join unit=join props=C07,C16,C04,C05 rules=R1,R2,R4,R5b,R6,R10
//@attr #[verifier::loop_isolation(false)]
//@ascribe joined_created Vec<(bool, bool)>
//@spec
        requires
            state_wf(*old(state)),
            conn_ok(*old(conn_state), *old(state)),
            keys_opt is Some ==> keys_opt->0@.len() == channels@.len(),
            distinct_names(channels@),
        ensures
            conn_same_but_stream(*final(conn_state), *old(conn_state)), // @prop C07
            // on an error exit during the decision phase nothing has changed; otherwise the whole command has been applied
            vs_same(*final(state), *old(state)) || join_post(*old(state), *final(state), self.config.max_joins, my_nick(*old(conn_state)), // @prop C07,C16,C04
                old(conn_state).user_state.source@, channels@, keys_opt, channels@.len() as int),
            r is Ok ==> join_post(*old(state), *final(state), self.config.max_joins, my_nick(*old(conn_state)), // @prop C07,C16,C04
                old(conn_state).user_state.source@, channels@, keys_opt, channels@.len() as int),
            // every admitted JOIN is announced to all other members of that channel, one copy each; nothing else is sent
            r is Ok ==> exists|logs: Seq<Seq<(int, Seq<char>)>>|
                #![trigger join_announced(*old(state), *final(state), self.config.max_joins, my_nick(*old(conn_state)), old(conn_state).user_state.source@, channels@, keys_opt, channels@.len() as int, logs)]
                join_announced(*old(state), *final(state), self.config.max_joins, my_nick(*old(conn_state)), old(conn_state).user_state.source@, channels@, keys_opt, channels@.len() as int, logs)
                && logs[0] == old(outbox).log && logs[channels@.len() as int] == final(outbox).log, // @prop C04
            sym(*final(state)), // @prop C04,C05
            chans_wf(*final(state)), // @prop C04,C08
            no_empty_chan(*final(state)), // @prop C16
            wallops_wf(*final(state)), // @prop C11,C06,C05
            counters_wf(*final(state)), // @prop C19
            senders_distinct(*final(state)), // @prop C02,C01
            conn_ok(*final(conn_state), *final(state)), // @prop C07
//@open
        broadcast use group_hash_axioms, bridge, string_eq, lemma_cover_is_exact;
        let ghost me = my_nick(*conn_state);
        let ghost src = conn_state.user_state.source@;
        let ghost chans = channels@;
        let ghost mj = self.config.max_joins;
        let ghost o = *old(state);
//@before ~let mut i__n: usize = 0; // \[R4\]
            let ghost u0 = *user;
            proof { assert(u0 == o.users@[me]); }
//@loop ~for chname_str in channels\.iter\(\) iter=it1
                invariant
                    conn_same_but_stream(*conn_state, *old(conn_state)),
                    it1.seq().len() == chans.len(),
                    forall|k: int| 0 <= k < it1.seq().len() ==> it1.seq()[k] == &chans[k],
                    i__n == it1.index@, joined_created@.len() == i__n,
                    *user == u0, state.channels == o.channels, // @prop C07
                    join_count == jcount(o, mj, me, src, chans, keys_opt, i__n as int),
                    forall|j: int| 0 <= j < i__n ==> (#[trigger] joined_created@[j]) == (jdec(o, mj, me, src, chans, keys_opt, j), !o.channels@.contains_key(sk(chans[j]))),
//@after ~let i = i__n; i__n \+= 1;
                proof {
                    ax_set_vec_len_bound(o.users@[me].channels, channels);
                    assert(chname_str == &chans[i as int]);
                    lemma_jcount_bound(o, mj, me, src, chans, keys_opt, i as int);
                    ax_set_vec_len_bound(o.users@[me].channels, channels);
                }
//@before ~joined_created\.push\(
                proof {
                    assert(sk(chans[i as int]) == chname);
                    assert(join == join_pre(o, me, src, chname, key_at(keys_opt, i as int))); // @prop C07
                    assert(create == !o.channels@.contains_key(chname)); // @prop C16
                    assert(do_join == jdec(o, mj, me, src, chans, keys_opt, i as int)); // @prop C07
                    assert(jcount(o, mj, me, src, chans, keys_opt, i as int + 1) == (if do_join { join_count + 1 } else { join_count as int })) by {
                        reveal_with_fuel(jcount, 2);
                    }
                }
//@before ~// insert create channel or add user to channel
            let ghost jc = joined_created@;
            proof {
                assert(i__n == chans.len());
                assert forall|c: String| !admitted(o, mj, me, src, chans, keys_opt, 0, c) by { }
            }
//@loop ~for \(\(join, create\), chname_str\) in joined_created\.iter\(\)\.zip\(channels\.iter\(\)\) iter=it2
                invariant
                    conn_same_but_stream(*conn_state, *old(conn_state)),
                    joined_created@ == jc, jc.len() == chans.len(),
                    forall|j: int| 0 <= j < jc.len() ==> (#[trigger] jc[j]) == (jdec(o, mj, me, src, chans, keys_opt, j), !o.channels@.contains_key(sk(chans[j]))),
                    it2.seq().len() == chans.len(),
                    forall|k: int| 0 <= k < it2.seq().len() ==> it2.seq()[k] == (&jc[k], &chans[k]),
                    user_same_for_join(*user, u0), user.last_activity == u0.last_activity,
                    join_user_chans(*user, u0, o, mj, me, src, chans, keys_opt, it2.index@ as int), // @prop C07,C04
                    join_untouched(state.channels@, o, mj, me, src, chans, keys_opt, it2.index@ as int), // @prop C07
                    join_touched(state.channels@, o, mj, me, src, chans, keys_opt, it2.index@ as int), // @prop C07,C16
//@after ~for \(\(join, create\), chname_str\) in joined_created\.iter\(\)\.zip\(channels\.iter\(\)\)
                let ghost k = it2.index@ as int;
                let ghost pre_user = *user;
                let ghost pre_ch = state.channels@;
                proof {
                    assert(*join == jc[k].0 && *create == jc[k].1);
                    assert(chname_str == &chans[k]);
                    assert(!admitted(o, mj, me, src, chans, keys_opt, k, sk(chans[k]))) by {
                        if admitted(o, mj, me, src, chans, keys_opt, k, sk(chans[k])) {
                            let j = choose|j: int| 0 <= j < k && sk(#[trigger] chans[j]) == sk(chans[k]) && jdec(o, mj, me, src, chans, keys_opt, j);
                            assert(chans[j]@ == chans[k]@);
                        }
                    }
                    if *join && !*create {
                        assert(o.channels@.contains_key(sk(chans[k])));
                        assert(chan_wf(o.channels@[sk(chans[k])]));
                        assert(join_existing_ok(o.channels@[sk(chans[k])], o.users@[me], me, src, sk(chans[k]), key_at(keys_opt, k)));
                    }
                }
//@endloop ~for \(\(join, create\), chname_str\) in joined_created\.iter\(\)\.zip\(channels\.iter\(\)\)
                proof {
                    let ck = sk(chans[k]);
                    assert forall|c: String| admitted(o, mj, me, src, chans, keys_opt, k + 1, c) <==> (admitted(o, mj, me, src, chans, keys_opt, k, c) || (c == ck && jdec(o, mj, me, src, chans, keys_opt, k))) by {
                        if admitted(o, mj, me, src, chans, keys_opt, k, c) {
                            let j = choose|j: int| 0 <= j < k && sk(#[trigger] chans[j]) == c && jdec(o, mj, me, src, chans, keys_opt, j);
                            assert(0 <= j < k + 1 && sk(chans[j]) == c);
                        }
                        if c == ck && jdec(o, mj, me, src, chans, keys_opt, k) { assert(sk(chans[k]) == c); }
                        if admitted(o, mj, me, src, chans, keys_opt, k + 1, c) {
                            let j = choose|j: int| 0 <= j < k + 1 && sk(#[trigger] chans[j]) == c && jdec(o, mj, me, src, chans, keys_opt, j);
                            if j < k { assert(admitted(o, mj, me, src, chans, keys_opt, k, c)); }
                        }
                    }
                    // channel map after this step, case by case
                    if *join {
                        assert(jdec(o, mj, me, src, chans, keys_opt, k));
                        assert(state.channels@.contains_key(ck));
                        assert(forall|c: String| c != ck ==> (state.channels@.contains_key(c) <==> pre_ch.contains_key(c)));
                        assert(forall|c: String| c != ck && pre_ch.contains_key(c) ==> state.channels@[c] == pre_ch[c]);
                        if *create {
                            assert(!o.channels@.contains_key(ck));
                            assert(fresh_channel(state.channels@[ck], me) && chan_wf(state.channels@[ck]));
                        } else {
                            assert(pre_ch.contains_key(ck) && pre_ch[ck] == o.channels@[ck]);
                            assert(add_user_post(o.channels@[ck], state.channels@[ck], me) && chan_wf(state.channels@[ck]));
                        }
                    } else {
                        assert(state.channels@ == pre_ch);
                    }
                    assert forall|c: String| admitted(o, mj, me, src, chans, keys_opt, k + 1, c) implies (#[trigger] state.channels@.contains_key(c))
                        && (if o.channels@.contains_key(c) { add_user_post(o.channels@[c], state.channels@[c], me) } else { fresh_channel(state.channels@[c], me) })
                        && chan_wf(state.channels@[c]) by {
                        if c == ck && jdec(o, mj, me, src, chans, keys_opt, k) { }
                        else {
                            assert(admitted(o, mj, me, src, chans, keys_opt, k, c));
                            assert(pre_ch.contains_key(c));
                            if c != ck || !*join { assert(state.channels@[c] == pre_ch[c]); }
                        }
                    }
                    assert forall|c: String| !admitted(o, mj, me, src, chans, keys_opt, k + 1, c) implies
                        ((#[trigger] state.channels@.contains_key(c)) <==> o.channels@.contains_key(c)) && (o.channels@.contains_key(c) ==> state.channels@[c] == o.channels@[c]) by {
                        assert(!admitted(o, mj, me, src, chans, keys_opt, k, c));
                        assert(pre_ch.contains_key(c) <==> o.channels@.contains_key(c));
                        if c == ck { assert(!*join); }
                    }
                    let now = state.channels@;
                    assert forall|c: String| !admitted(o, mj, me, src, chans, keys_opt, k + 1, c) implies #[trigger] untouched_at(now, o, c) by { // @prop C07
                        assert(state.channels@.contains_key(c) <==> o.channels@.contains_key(c));
                    }
                    assert forall|c: String| admitted(o, mj, me, src, chans, keys_opt, k + 1, c) implies #[trigger] touched_at(now, o, me, c) by { // @prop C07,C16
                        assert(state.channels@.contains_key(c));
                    }
                    assert(join_untouched(now, o, mj, me, src, chans, keys_opt, k + 1)); // @prop C07
                    assert(join_touched(now, o, mj, me, src, chans, keys_opt, k + 1)); // @prop C07,C16
                    assert(join_user_chans(*user, u0, o, mj, me, src, chans, keys_opt, k + 1)); // @prop C07,C04
                }
//@before ~// sending messages
        proof {
            assert(state.users@ =~= o.users@.insert(me, state.users@[me]));
            assert(state.users@.dom() =~= o.users@.dom());
            assert(join_post(o, *state, mj, me, src, chans, keys_opt, chans.len() as int));
            lemma_join_wf(o, *state, mj, me, src, chans, keys_opt, chans.len() as int);
        }
        let ghost fin = *state;
        let ghost jc = joined_created@;
        let ghost mut logs: Seq<Seq<(int, Seq<char>)>> = seq![outbox.log];
        proof { assert(outbox.log == old(outbox).log); }
//@loop ~for \(\(join, _\), chname_str\) in joined_created\.iter\(\)\.zip\(channels\.iter\(\)\) iter=it3
                invariant
                    logs[0] == old(outbox).log, logs[it3.index@ as int] == outbox.log, // @prop C04
                    join_announced(o, fin, mj, me, src, chans, keys_opt, it3.index@ as int, logs), // @prop C04
                    conn_same_but_stream(*conn_state, *old(conn_state)),
                    *state == fin, state_wf(fin),
                    join_post(o, fin, mj, me, src, chans, keys_opt, chans.len() as int),
                    joined_created@ == jc, jc.len() == chans.len(),
                    forall|j: int| 0 <= j < jc.len() ==> (#[trigger] jc[j]) == (jdec(o, mj, me, src, chans, keys_opt, j), !o.channels@.contains_key(sk(chans[j]))),
                    it3.seq().len() == chans.len(),
                    forall|k: int| 0 <= k < it3.seq().len() ==> it3.seq()[k] == (&jc[k], &chans[k]),
//@after ~for \(\(join, _\), chname_str\) in joined_created\.iter\(\)\.zip\(channels\.iter\(\)\)
                let ghost k3 = it3.index@ as int;
                let ghost log_a = outbox.log;
                let ghost mut ord: Seq<String> = Seq::empty();
                let ghost mut done: Set<String> = Set::empty();
                proof {
                    assert(*join == jc[k3].0);
                    assert(chname_str == &chans[k3]);
                    if *join { assert(admitted(o, mj, me, src, chans, keys_opt, chans.len() as int, sk(chans[k3]))); }
                }
//@before ~let join_msg = verif_str_plus
                    proof {
                        assert(chanobj == fin.channels@[sk(chans[k3])]);
                        assert forall|n: String| chanobj.users@.contains_key(n) implies fin.users@.contains_key(n) by {
                            assert(member(fin, n, sk(chans[k3])));
                        }
                    }
//@before ~for nick in chanobj\.users\.keys\(\)
                    let ghost line = join_line(src, chans[k3]@);
                    let ghost set4 = chanobj.users@.dom();
                    proof {
                        assert(join_msg@ =~= "JOIN "@ + chans[k3]@); // @prop C04,C13
                        lemma_join_line(src, chans[k3]@, str_of(join_msg@));
                    }
//@loop ~for nick in chanobj\.users\.keys\(\) iter=it4
                        invariant
                            conn_same_but_stream(*conn_state, *old(conn_state)),
                            *state == fin,
                            forall|n: String| chanobj.users@.contains_key(n) ==> fin.users@.contains_key(n),
                            it4.seq().no_duplicates(),
                            it4.seq().len() == chanobj.users@.dom().len(),
                            forall|q: String| chanobj.users@.dom().contains(q) ==> exists|i: int| 0 <= i < it4.seq().len() && *#[trigger] it4.seq()[i] == q,
                            forall|i: int| 0 <= i < it4.seq().len() ==> set4.contains(*#[trigger] it4.seq()[i]),
                            set4 == chanobj.users@.dom(), user_nick == me,
                            forall|c: String| done.contains(c) <==> (exists|j: int| 0 <= j < it4.index@ && *#[trigger] it4.seq()[j] == c),
                            ord.no_duplicates(),
                            forall|i: int| 0 <= i < ord.len() ==> done.contains(#[trigger] ord[i]) && ord[i] != me,
                            forall|c: String| done.contains(c) && c != me ==> #[trigger] ord.contains(c),
                            line == disp::<&str>(src, str_of(join_msg@)),
                            outbox.log == log_a + ord.map_values(|n: String| (fin.users@[n].sender.id(), line)), // @prop C04
//@after ~for nick in chanobj\.users\.keys\(\)
                        proof { assert(chanobj.users@.dom().contains(*nick)); assert(!done.contains(*nick)); }
//@endloop ~for nick in chanobj\.users\.keys\(\)
                        proof {
                            let f = |n: String| (fin.users@[n].sender.id(), line);
                            let old_ord = ord;
                            assert(string_of(nick@) == *nick && string_of(me@) == me);
                            if nick@ != me@ {
                                assert(!old_ord.contains(*nick)) by {
                                    if old_ord.contains(*nick) { let i = choose|i: int| 0 <= i < old_ord.len() && old_ord[i] == *nick; assert(done.contains(old_ord[i])); }
                                }
                                assert(old_ord.push(*nick).map_values(f) =~= old_ord.map_values(f).push(f(*nick)));
                                ord = old_ord.push(*nick);
                                assert(ord[old_ord.len() as int] == *nick);
                            }
                            done = done.insert(*nick);
                            assert forall|c: String| done.contains(c) && c != me implies #[trigger] ord.contains(c) by {
                                if c == *nick { assert(ord[old_ord.len() as int] == c); }
                                else { assert(old_ord.contains(c)); let i = choose|i: int| 0 <= i < old_ord.len() && old_ord[i] == c; assert(ord[i] == c); }
                            }
                        }
//@afterloop ~for nick in chanobj\.users\.keys\(\)
                    proof {
                        assert forall|n: String| ord.contains(n) <==> (set4.contains(n) && n != me) by {
                            if ord.contains(n) { let i = choose|i: int| 0 <= i < ord.len() && ord[i] == n; assert(done.contains(ord[i])); }
                            if set4.contains(n) && n != me { assert(done.contains(n)); }
                        }
                        assert(others_get(log_a, outbox.log, fin, set4, me, line));
                    }
//@endloop ~for \(\(join, _\), chname_str\) in joined_created\.iter\(\)\.zip\(channels\.iter\(\)\)
                proof {
                    assert(join_announce_step(fin, me, src, chans, jdec(o, mj, me, src, chans, keys_opt, k3), k3, log_a, outbox.log)); // @prop C04
                    let logs0 = logs;
                    logs = logs0.push(outbox.log);
                    assert forall|q: int| 0 <= q < k3 + 1 implies #[trigger] join_announce_step(fin, me, src, chans, jdec(o, mj, me, src, chans, keys_opt, q), q, logs[q], logs[q + 1]) by {
                        if q < k3 { assert(join_announce_step(fin, me, src, chans, jdec(o, mj, me, src, chans, keys_opt, q), q, logs0[q], logs0[q + 1])); }
                    }
                }
//@end
}

// ===== CONTRACT: the answers of a refused JOIN (C07: "answered with the matching error (475, 474, 473, 471, 405)") =====
// The decision about ONE channel name (body of the first loop of process_join) as a block of its own: it is only proved here, the
// handler keeps its own proof (any change to these lines changes both texts, both are cut from the same source).
pub open spec fn key_bad(ch: Channel, key: Option<Seq<char>>) -> bool { ch.modes.key is Some && !(key is Some && ch.modes.key->0@ == key->0) }
pub open spec fn invite_bad(ch: Channel, u: User, c: String, src: Seq<char>) -> bool {
    ch.modes.invite_only && !u.invited_to@.contains(c) && !(ch.modes.invite_exception is Some && any_match(ch.modes.invite_exception->0@, src))
}
pub open spec fn full_bad(ch: Channel) -> bool { ch.modes.client_limit is Some && ch.users@.len() >= ch.modes.client_limit->0 }
pub open spec fn quota_bad(mj: Option<usize>, count: int) -> bool { mj is Some && count >= mj->0 }
// an error line about channel name `cn` whose reason really applies
pub open spec fn join_err_applies(item: FedItem, s: VolatileState, u: User, src: Seq<char>, cn: Seq<char>, key: Option<Seq<char>>, mj: Option<usize>, count: int) -> bool {
    let c = string_of(cn);
    match fed_reply(item) {
        Some(Reply::ErrBadChannelKey475 { client, channel }) => channel@ == cn && s.channels@.contains_key(c) && key_bad(s.channels@[c], key),
        Some(Reply::ErrBannedFromChan474 { client, channel }) => channel@ == cn && s.channels@.contains_key(c) && banned_spec(s.channels@[c].modes, src),
        Some(Reply::ErrInviteOnlyChan473 { client, channel }) => channel@ == cn && s.channels@.contains_key(c) && invite_bad(s.channels@[c], u, c, src),
        Some(Reply::ErrChannelIsFull471 { client, channel }) => channel@ == cn && s.channels@.contains_key(c) && full_bad(s.channels@[c]),
        Some(Reply::ErrTooManyChannels405 { client, channel }) => channel@ == cn && quota_bad(mj, count),
        _ => false,
    }
}
// the JOIN of this name is refused for one of the five reasons that have an error code (being on the channel already has none)
pub open spec fn join_refused_with_reason(s: VolatileState, u: User, src: Seq<char>, cn: Seq<char>, key: Option<Seq<char>>, mj: Option<usize>, count: int) -> bool {
    let c = string_of(cn);
    quota_bad(mj, count) || (s.channels@.contains_key(c) && (key_bad(s.channels@[c], key) || banned_spec(s.channels@[c].modes, src)
        || invite_bad(s.channels@[c], u, c, src) || full_bad(s.channels@[c])))
}

impl MainState {
//@block state/channel_cmds.rs MainState::process_join join_decide_one unit=joinreply props=C07,C05 rules=R2,R5b loopbody=~|for \(i, chname_str\) in channels\.iter\(\)\.enumerate\(\)|
//@head
    pub async fn join_decide_one<'a>(&self, state: &VolatileState, user: &User, conn_state: &mut ConnState, chname_str: &&'a str, i: usize,
            keys_opt: &Option<Vec<&'a str>>, user_nick: String, join_count_in: usize, joined_created: &mut Vec<(bool, bool)>) -> (r: Result<usize, HErr>)
//@prologue
            let client = conn_state.user_state.client_name();
//@glue
            let mut join_count = join_count_in;
//@epilogue
            Ok(join_count)
//@spec
        requires
            state_wf(*state), old(conn_state).user_state.nick is Some, user_nick == my_nick(*old(conn_state)),
            keys_opt is Some ==> i < keys_opt->0@.len(),
            join_count_in < usize::MAX,
        ensures
            conn_same_but_stream(*final(conn_state), *old(conn_state)), // @prop C07
            old(conn_state).stream.log().len() <= final(conn_state).stream.log().len(), // @prop C07
            forall|k: int| 0 <= k < old(conn_state).stream.log().len() ==> final(conn_state).stream.log()[k] == old(conn_state).stream.log()[k], // @prop C07
            // every answer is an error about this channel name whose reason applies ...
            forall|k: int| old(conn_state).stream.log().len() <= k < final(conn_state).stream.log().len() ==> // @prop C07
                join_err_applies(#[trigger] final(conn_state).stream.log()[k], *state, *user, old(conn_state).user_state.source@, chname_str@, key_at(*keys_opt, i as int), self.config.max_joins, join_count_in as int),
            // ... a JOIN refused for one of the five reasons is answered, an admitted one is not
            r is Ok && join_refused_with_reason(*state, *user, old(conn_state).user_state.source@, chname_str@, key_at(*keys_opt, i as int), self.config.max_joins, join_count_in as int)
                ==> final(conn_state).stream.log().len() > old(conn_state).stream.log().len(), // @prop C07
            // the decision recorded for the effect phase: admitted iff every condition of the statement holds
            r is Ok ==> final(joined_created)@.len() == old(joined_created)@.len() + 1 && final(joined_created)@[old(joined_created)@.len() as int].0 ==
                (!join_refused_with_reason(*state, *user, old(conn_state).user_state.source@, chname_str@, key_at(*keys_opt, i as int), self.config.max_joins, join_count_in as int)
                 && !(state.channels@.contains_key(sk(*chname_str)) && state.channels@[sk(*chname_str)].users@.contains_key(user_nick))), // @prop C07
//@open
        broadcast use group_hash_axioms, bridge, string_eq, ax_fed_reply;
        proof { assert(string_of(chname_str@) == sk(*chname_str)); }
//@end
}

// ===== CONTRACT: what the joiner itself is told (C04: the joiner gets its own JOIN line, the topic and the roster) =====
// The body of the announcement loop as a block of its own (proved here only; the handler keeps its own proof of the other members' copies).
impl MainState {
//@block state/channel_cmds.rs MainState::process_join join_tell_joiner unit=joinreply props=C04,C05 rules=R2,R6,R10 loopbody=~|for \(\(join, _\), chname_str\) in joined_created|
//@head
    pub async fn join_tell_joiner<'a>(&self, state: &VolatileState, conn_state: &mut ConnState, join: &bool, chname_str: &&'a str, user_nick: String,
            Tracked(outbox): Tracked<&mut Outbox>) -> (r: Result<(), HErr>)
//@epilogue
            Ok(())
//@spec
        requires
            state_wf(*state), old(conn_state).user_state.nick is Some, user_nick == my_nick(*old(conn_state)),
            *join ==> member(*state, user_nick, sk(*chname_str)),
        ensures
            conn_same_but_stream(*final(conn_state), *old(conn_state)), // @prop C04
            !*join ==> final(conn_state).stream.log() == old(conn_state).stream.log() && final(outbox).log == old(outbox).log, // @prop C04,C07
            // an admitted JOIN: the joiner's own connection gets, first, the JOIN line under its own prefix, then the topic if there is one
            r is Ok && *join ==> ({
                let l0 = old(conn_state).stream.log(); let l1 = final(conn_state).stream.log();
                let ch = state.channels@[sk(*chname_str)];
                &&& l1.len() > l0.len() && (forall|k: int| 0 <= k < l0.len() ==> l1[k] == l0[k])
                &&& exists|m: &str| #![trigger fed::<&str>(old(conn_state).user_state.source@, m)] m@ == "JOIN "@ + chname_str@ && l1[l0.len() as int] == fed::<&str>(old(conn_state).user_state.source@, m)
                &&& (ch.topic is Some ==> l1.len() > l0.len() + 1 && l1[l0.len() as int + 1] == fed(self.config.name@, Reply::RplTopic332 {
                        client: str_of(client_name_spec(old(conn_state).user_state)), channel: *chname_str, topic: str_of(ch.topic->0.topic@) }))
            }), // @prop C04
//@open
        broadcast use group_hash_axioms, bridge, string_eq;
        let ghost l0 = conn_state.stream.log();
//@before ~self\.send_names_from_channel\(
                    let ghost l_mid = conn_state.stream.log();
                    proof {
                        assert(chanobj == state.channels@[sk(*chname_str)]);
                        assert forall|n: String| chanobj.users@.contains_key(n) implies state.users@.contains_key(n) by { assert(member(*state, n, sk(*chname_str))); }
                    }
//@loop ~for nick in chanobj\.users\.keys\(\) iter=it4
                        invariant
                            *join, conn_same_but_stream(*conn_state, *old(conn_state)),
                            forall|n: String| chanobj.users@.contains_key(n) ==> state.users@.contains_key(n),
                            it4.seq().no_duplicates(), it4.seq().len() == chanobj.users@.dom().len(),
                            forall|q: String| chanobj.users@.dom().contains(q) ==> exists|i: int| 0 <= i < it4.seq().len() && *#[trigger] it4.seq()[i] == q,
//@after ~for nick in chanobj\.users\.keys\(\)
                        broadcast use group_hash_axioms, bridge, string_eq, lemma_cover_is_exact;
                        proof { assert(chanobj.users@.dom().contains(*nick)); }
//@end
}
