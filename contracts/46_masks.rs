// ===== masks: match_wildcard and its users =====
// meaning of a mask match; defined as glob semantics in contracts/60_wildcard.rs
pub uninterp spec fn wild(pattern: Seq<char>, text: Seq<char>) -> bool;

// match_wildcard: contract in contracts/60_wildcard.rs

pub open spec fn any_match(set: Set<String>, text: Seq<char>) -> bool {
    exists|m: String| set.contains(m) && wild(#[trigger] m@, text)
}
// Definition of `set.iter().any(|m| match_wildcard(m, text))` (rule R5b); proved against any_match
pub fn verif_any_match(set: &HashSet<String>, text: &str) -> (r: bool)
    ensures r == any_match(set@, text@)
{
    broadcast use group_hash_axioms, bridge, lemma_cover_is_exact;
    let ghost mut done: Set<String> = Set::empty();
    for m in it: set.iter()
        invariant
            it.seq().no_duplicates(),
            it.seq().len() == set@.len(),
            forall|k: String| set@.contains(k) ==> exists|i: int| 0 <= i < it.seq().len() && *#[trigger] it.seq()[i] == k,
            forall|c: String| done.contains(c) <==> (exists|j: int| 0 <= j < it.index@ && *#[trigger] it.seq()[j] == c),
            forall|c: String| done.contains(c) ==> !wild(#[trigger] c@, text@),
    {
        broadcast use group_hash_axioms, bridge, lemma_cover_is_exact;
        if match_wildcard(m, text) {
            proof { assert(set@.contains(*m)); }
            return true;
        }
        proof { done = done.insert(*m); }
    }
    proof {
        assert forall|m: String| set@.contains(m) implies !wild(#[trigger] m@, text@) by {
            assert(done.contains(m));
        }
    }
    false
}

pub open spec fn banned_spec(m: ChannelModes, source: Seq<char>) -> bool {
    (m.ban is Some && any_match(m.ban->0@, source)) && !(m.exception is Some && any_match(m.exception->0@, source))
}
impl ChannelModes {
//@fn config.rs ChannelModes::banned unit=masks props=C07,C10,C14 rules=R5b
//@spec
        ensures r == banned_spec(*self, source@), // @prop C07,C10
//@end
}
