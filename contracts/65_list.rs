// ===== CONTRACT: LIST (C12: secret channels stay hidden; C09: the topic shown is the stored one) =====
pub open spec fn listable(s: VolatileState, c: String) -> bool { s.channels@.contains_key(c) && !s.channels@[c].modes.secret }
pub open spec fn list_item(server: Seq<char>, k: ConnState, s: VolatileState, cname: Seq<char>) -> FedItem {
    let ch = s.channels@[string_of(cname)];
    fed(server, Reply::RplList322 { client: str_of(client_name_spec(k.user_state)), channel: str_of(cname), client_count: ch.users@.len() as usize,
        topic: str_of(if ch.topic is Some { ch.topic->0.topic@ } else { Seq::<char>::empty() }) })
}
pub open spec fn list_lines(server: Seq<char>, k: ConnState, s: VolatileState, names: Seq<Seq<char>>) -> Seq<FedItem> {
    names.map_values(|c: Seq<char>| list_item(server, k, s, c))
}
pub open spec fn list_post(server: Seq<char>, k: ConnState, s: VolatileState, chans: Seq<&str>, sl0: Seq<FedItem>, sl1: Seq<FedItem>) -> bool {
    exists|names: Seq<Seq<char>>|
        #![trigger list_lines(server, k, s, names)]
        sl1 == (sl0.push(fed(server, Reply::RplListStart321 { client: str_of(client_name_spec(k.user_state)) }))
                + list_lines(server, k, s, names)).push(fed(server, Reply::RplListEnd323 { client: str_of(client_name_spec(k.user_state)) }))
        // every line is about an existing channel the asker may know of (not secret, or the asker is on it) ...
        && (forall|i: int| 0 <= i < names.len() ==> s.channels@.contains_key(string_of(#[trigger] names[i])) && chan_visible_to(s.channels@[string_of(names[i])], my_nick(k)))
        // ... that was asked for, if any were named
        && (chans.len() > 0 ==> forall|i: int| 0 <= i < names.len() ==> listed_ch(chans, string_of(#[trigger] names[i])))
        // and every public channel (asked for) is shown
        && (forall|c: String| listable(s, c) && (chans.len() == 0 || listed_ch(chans, c)) ==> names.contains(#[trigger] c@))
}

impl MainState {
//@fn state/channel_cmds.rs MainState::process_list unit=list props=C12,C09,C05 rules=R0,R22,R1,R2,R5b
//@spec
        requires state_wf(*old(state)), conn_ok(*old(conn_state), *old(state)),
        ensures
            *final(state) == *old(state), // @prop C12
            conn_same_but_stream(*final(conn_state), *old(conn_state)), // @prop C12
            server is Some ==> final(conn_state).stream.log() == old(conn_state).stream.log().push(fed(self.config.name@, Reply::ErrUnknownError400 {
                client: str_of(client_name_spec(old(conn_state).user_state)), command: "LIST", subcommand: None, info: "Server unsupported" })), // @prop C12
            // 321, one 322 per listed channel that exists and is not secret (all of them when no name is given), 323 - nothing about a secret channel, member or not
            server is None && r is Ok ==> list_post(self.config.name@, *old(conn_state), *old(state), channels@, old(conn_state).stream.log(), final(conn_state).stream.log()), // @prop C12,C09
//@open
        broadcast use group_hash_axioms, bridge, string_eq, lemma_cover_is_exact;
        let ghost s0 = *old(state);
        let ghost k0 = *old(conn_state);
        let ghost server_name = self.config.name@;
        let ghost sl0 = conn_state.stream.log();
        let ghost cs = channels@;
        let ghost mut names: Seq<Seq<char>> = Seq::empty();
        let ghost start = fed(server_name, Reply::RplListStart321 { client: str_of(client_name_spec(k0.user_state)) });
        proof { assert(list_lines(server_name, k0, s0, names) =~= Seq::<FedItem>::empty()); }
//@loop ~for chname in channels\.iter\(\) iter=it1
                    invariant
                        *state == s0, state_wf(s0), conn_ok(k0, s0), conn_same_but_stream(*conn_state, k0), k0 == *old(conn_state), cs == channels@, server_name == self.config.name@,
                        client@ == client_name_spec(k0.user_state),
                        it1.seq().len() == cs.len(),
                        forall|k: int| 0 <= k < it1.seq().len() ==> it1.seq()[k] == &cs[k],
                        forall|i: int| 0 <= i < names.len() ==> s0.channels@.contains_key(string_of(#[trigger] names[i])) && chan_visible_to(s0.channels@[string_of(names[i])], my_nick(k0)) && listed_ch(cs, string_of(names[i])), // @prop C12
                        forall|j: int| 0 <= j < it1.index@ && listable(s0, sk(#[trigger] cs[j])) ==> names.contains(cs[j]@), // @prop C12
                        conn_state.stream.log() == sl0.push(start) + list_lines(server_name, k0, s0, names), // @prop C12,C09
//@after ~for chname in channels\.iter\(\)
                    broadcast use group_hash_axioms, bridge, string_eq;
                    let ghost k = it1.index@ as int;
                    let ghost log_a = conn_state.stream.log();
                    proof {
                        assert(chname == &cs[k]);
                        assert forall|x: String| (#[trigger] x@) == cs[k]@ implies x == sk(cs[k]) by { assert(string_of(x@) == x); }
                    }
//@endloop ~for chname in channels\.iter\(\)
                    proof {
                        // whatever the guard was: a line was appended or not, and it is the line of this channel name
                        assert(conn_state.stream.log() == log_a || conn_state.stream.log() == log_a.push(list_item(server_name, k0, s0, cs[k]@))); // @prop C12,C09
                        if conn_state.stream.log() != log_a {
                            let names0 = names;
                            names = names0.push(cs[k]@);
                            assert(string_of(cs[k]@) == sk(cs[k]));
                            assert(s0.channels@.contains_key(sk(cs[k])) && chan_visible_to(s0.channels@[sk(cs[k])], my_nick(k0))); // @prop C12
                            assert(list_lines(server_name, k0, s0, names) =~= list_lines(server_name, k0, s0, names0).push(list_item(server_name, k0, s0, cs[k]@)));
                            assert(names[names0.len() as int] == cs[k]@);
                            assert forall|j: int| 0 <= j < k + 1 && listable(s0, sk(#[trigger] cs[j])) implies names.contains(cs[j]@) by {
                                if j < k { let t = choose|t: int| 0 <= t < names0.len() && names0[t] == cs[j]@; assert(names[t] == cs[j]@); }
                            }
                        } else {
                            assert(!listable(s0, sk(cs[k]))); // @prop C12
                        }
                    }
//@loop ~for \(chname, ch\) in state\.channels\.iter\(\) iter=it2
                    invariant
                        *state == s0, state_wf(s0), conn_ok(k0, s0), conn_same_but_stream(*conn_state, k0), k0 == *old(conn_state), cs == channels@, cs.len() == 0, server_name == self.config.name@,
                        client@ == client_name_spec(k0.user_state),
                        forall|i: int| 0 <= i < it2.seq().len() ==> s0.channels@.contains_key(*(#[trigger] it2.seq()[i]).0) && s0.channels@[*it2.seq()[i].0] == *it2.seq()[i].1,
                        forall|c: String| s0.channels@.contains_key(c) ==> exists|i: int| 0 <= i < it2.seq().len() && *(#[trigger] it2.seq()[i]).0 == c,
                        conn_state.stream.log() == sl0.push(start) + list_lines(server_name, k0, s0, names), // @prop C12,C09
                        // every name listed so far is a channel the asker may know of; every public channel walked so far is listed
                        forall|i: int| 0 <= i < names.len() ==> s0.channels@.contains_key(string_of(#[trigger] names[i])) && chan_visible_to(s0.channels@[string_of(names[i])], my_nick(k0)), // @prop C12
                        forall|j: int| 0 <= j < it2.index@ && listable(s0, *(#[trigger] it2.seq()[j]).0) ==> names.contains((*it2.seq()[j].0)@), // @prop C12
                        it2.index@ == it2.seq().len() ==> (forall|c: String| listable(s0, c) ==> names.contains(#[trigger] c@)), // @prop C12
//@after ~for \(chname, ch\) in state\.channels\.iter\(\)
                    broadcast use group_hash_axioms, bridge, string_eq;
                    let ghost log_a = conn_state.stream.log();
                    let ghost names0 = names;
                    proof {
                        assert(s0.channels@.contains_key(*chname) && s0.channels@[*chname] == *ch);
                        assert(string_of(chname@) == *chname);
                    }
//@endloop ~for \(chname, ch\) in state\.channels\.iter\(\)
                    proof {
                        // whatever the guard was: a line was appended or not, and it is the line of this channel
                        assert(conn_state.stream.log() == log_a || conn_state.stream.log() == log_a.push(list_item(server_name, k0, s0, chname@))); // @prop C12,C09
                        if conn_state.stream.log() != log_a {
                            names = names0.push(chname@);
                            assert(chan_visible_to(s0.channels@[*chname], my_nick(k0))); // @prop C12
                            assert(list_lines(server_name, k0, s0, names) =~= list_lines(server_name, k0, s0, names0).push(list_item(server_name, k0, s0, chname@)));
                            assert(names[names0.len() as int] == chname@);
                        } else {
                            assert(!listable(s0, *chname)); // @prop C12
                        }
                    }
                    assert(forall|j: int| 0 <= j < it2.index@ + 1 && listable(s0, *(#[trigger] it2.seq()[j]).0) ==> names.contains((*it2.seq()[j].0)@)) by { // @prop C12
                        assert forall|j: int| 0 <= j < it2.index@ + 1 && listable(s0, *(#[trigger] it2.seq()[j]).0) implies names.contains((*it2.seq()[j].0)@) by {
                            if j < it2.index@ { let t = choose|t: int| 0 <= t < names0.len() && names0[t] == (*it2.seq()[j].0)@; assert(names[t] == names0[t]); }
                            else { assert(names[names0.len() as int] == chname@); }
                        }
                    }
                    assert(it2.index@ + 1 == it2.seq().len() ==> (forall|c: String| listable(s0, c) ==> names.contains(#[trigger] c@))) by { // @prop C12
                        if it2.index@ + 1 == it2.seq().len() {
                            assert forall|c: String| listable(s0, c) implies names.contains(#[trigger] c@) by {
                                let i = choose|i: int| 0 <= i < it2.seq().len() && *(#[trigger] it2.seq()[i]).0 == c;
                                assert(names.contains((*it2.seq()[i].0)@));
                            }
                        }
                    }
//@close
        proof {
            if server is None {
                assert forall|c: String| listable(s0, c) && (cs.len() == 0 || listed_ch(cs, c)) implies names.contains(#[trigger] c@) by {
                    if cs.len() > 0 { let j = choose|j: int| 0 <= j < cs.len() && sk(#[trigger] cs[j]) == c; assert(names.contains(cs[j]@)); }
                }
                assert(list_post(server_name, k0, s0, cs, sl0, conn_state.stream.log())); // @prop C12,C09
            }
        }
//@end
}
