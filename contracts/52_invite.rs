// ===== CONTRACTS: INVITE (C09) =====
pub open spec fn invite_ok(s: VolatileState, actor: String, c: String, invitee: String) -> bool {
    &&& s.channels@.contains_key(c)
    &&& s.channels@[c].users@.contains_key(actor)
    &&& (!s.channels@[c].modes.invite_only || s.channels@[c].users@[actor].operator)
    &&& !s.channels@[c].users@.contains_key(invitee)
    &&& s.users@.contains_key(invitee)
}
pub open spec fn user_same_except_invited(a: User, b: User) -> bool {
    &&& a.hostname == b.hostname && a.sender == b.sender && a.quit_sender == b.quit_sender && a.name == b.name
    &&& a.realname == b.realname && a.source == b.source && a.modes == b.modes && a.away == b.away
    &&& a.channels == b.channels && a.last_activity == b.last_activity && a.signon == b.signon
    &&& a.history_entry == b.history_entry
}
pub open spec fn invited_upd(o: VolatileState, n: VolatileState, k: String, c: String) -> bool {
    &&& o.users@.contains_key(k)
    &&& n.users@ == o.users@.insert(k, n.users@[k])
    &&& n.users@[k].invited_to@ == o.users@[k].invited_to@.insert(c)
    &&& user_same_except_invited(n.users@[k], o.users@[k])
    &&& n.channels == o.channels
    &&& state_rest_same(o, n)
}
// recording an invitation keeps the state well formed (proved)
pub proof fn lemma_invited_wf(o: VolatileState, n: VolatileState, k: String, c: String)
    requires state_wf(o), invited_upd(o, n, k, c),
    ensures state_wf(n)
{
    assert forall|u: String, d: String| #![trigger n.users@[u].channels@.contains(d)] #![trigger member(n, u, d)]
        (n.users@.contains_key(u) && n.users@[u].channels@.contains(d)) <==> member(n, u, d) by {
        assert((o.users@.contains_key(u) && o.users@[u].channels@.contains(d)) <==> member(o, u, d));
    }
    assert(sym(n));
    assert(wallops_wf(n)) by {
        assert forall|u: String| #[trigger] n.wallops_users@.contains(u) <==> (n.users@.contains_key(u) && n.users@[u].modes.wallops) by {
            assert(o.wallops_users@.contains(u) <==> (o.users@.contains_key(u) && o.users@[u].modes.wallops));
        }
    }
    assert(n.users@.dom() =~= o.users@.dom());
    assert forall|u: String| o.users@.contains_key(u) implies (#[trigger] o.users@[u]).modes == n.users@[u].modes by { }
    lemma_sets_same_modes(o.users@, n.users@);
    assert(senders_distinct(n));
}

impl MainState {
//@fn state/channel_cmds.rs MainState::process_invite unit=invite props=C09,C05 rules=R1,R2,R6
//@spec
        requires
            state_wf(*old(state)),
            conn_ok(*old(conn_state), *old(state)),
        ensures
            conn_same_but_stream(*final(conn_state), *old(conn_state)), // @prop C09
            !invite_ok(*old(state), my_nick(*old(conn_state)), sk(channel), sk(nickname)) ==> // @prop C09
                *final(state) == *old(state) && final(outbox).log == old(outbox).log
                && final(conn_state).stream.log().len() == old(conn_state).stream.log().len() + 1,
            invite_ok(*old(state), my_nick(*old(conn_state)), sk(channel), sk(nickname)) ==> ({ // @prop C09
                let ou = old(state).users@[sk(nickname)];
                &&& invited_upd(*old(state), *final(state), sk(nickname), sk(channel))
                &&& final(conn_state).stream.log() == old(conn_state).stream.log().push(fed(self.config.name@,
                        RplInviting341 { client: str_of(client_name_spec(old(conn_state).user_state)), nick: nickname, channel }))
                &&& (r is Ok ==> final(outbox).log == old(outbox).log.push((ou.sender.id(), render(*msg, old(conn_state).user_state.source@))))
            }),
            sym(*final(state)), // @prop C04,C05
            chans_wf(*final(state)), // @prop C04,C08
            no_empty_chan(*final(state)), // @prop C16
            wallops_wf(*final(state)), // @prop C11,C06,C05
            counters_wf(*final(state)), // @prop C19
            senders_distinct(*final(state)), // @prop C02,C01
            conn_ok(*final(conn_state), *final(state)), // @prop C09
//@open
        broadcast use group_hash_axioms, bridge;
        proof {
            // available at every exit (the `?` exits included): whatever state results from recording the invitation is well formed
            assert forall|n: VolatileState| #![trigger state_wf(n)] #![trigger sym(n)] #![trigger chans_wf(n)] #![trigger no_empty_chan(n)] #![trigger wallops_wf(n)] #![trigger counters_wf(n)] #![trigger senders_distinct(n)] invited_upd(*old(state), n, sk(nickname), sk(channel)) implies state_wf(n) by {
                lemma_invited_wf(*old(state), n, sk(nickname), sk(channel));
            }
        }
//@end
}
