// ===== CONTRACTS: WHO (C12, C04) =====
// ASSUMED (status A): syntax validators over bytes (str::find / contains / as_bytes); only their verdicts matter here
pub uninterp spec fn is_channel_name(s: Seq<char>) -> bool;
pub uninterp spec fn is_user_name(s: Seq<char>) -> bool;
pub struct ValidationError { pub k: u8 }
#[verifier::external_body]
pub fn validate_channel(channel: &str) -> (r: Result<(), ValidationError>) ensures r is Ok <==> is_channel_name(channel@) { unimplemented!() }
#[verifier::external_body]
pub fn validate_username(username: &str) -> (r: Result<(), ValidationError>) ensures r is Ok <==> is_user_name(username@) { unimplemented!() }
// str::contains(char)
pub uninterp spec fn has_char(s: Seq<char>, c: char) -> bool;
// `E.contains('c')` (rule R20; the Pattern trait is not declared to Verus)
#[verifier::external_body]
pub fn verif_str_has_char(s: &str, c: char) -> (r: bool) ensures r == has_char(s@, c) { s.contains(c) }

pub open spec fn shares_channel(a: User, b: User) -> bool { !a.channels@.disjoint(b.channels@) }
// user u may be shown to the asking user q
pub open spec fn user_visible_to(u: User, q: User) -> bool { !u.modes.invisible || shares_channel(u, q) }
pub open spec fn who_line_names(item: FedItem, nick: Seq<char>) -> bool {
    match fed_reply(item) { Some(Reply::RplWhoReply352 { nick: n, .. }) => n@ == nick, _ => false }
}

impl MainState {
//@fn state/rest_cmds.rs MainState::send_who_info unit=who props=C12,C04,C05 rules=R2,R5b
//@spec
        ensures
            conn_same_but_stream(*final(conn_state), *old(conn_state)), // @prop C12
            // an invisible user sharing no channel with the asker is not revealed
            !user_visible_to(*user, *cmd_user) ==> final(conn_state).stream.log() == old(conn_state).stream.log(), // @prop C12
            user_visible_to(*user, *cmd_user) ==> final(conn_state).stream.log().len() == old(conn_state).stream.log().len() + 1 // @prop C04
                && log_extends(old(conn_state).stream.log(), final(conn_state).stream.log())
                && who_line_names(final(conn_state).stream.log().last(), user_nick@),
//@open
        broadcast use group_hash_axioms, bridge, ax_fed_reply, ax_string_add_assign_req;
//@end
}
