// ===== CONTRACTS: WHO (C12, C04) =====
// ASSUMED (status A): syntax validators over bytes (str::find / contains / as_bytes); only their verdicts matter here
pub uninterp spec fn is_channel_name(s: Seq<char>) -> bool;
//@assumed utils.rs validate_channel sha=8b098ab28df7 units=who
//@assumed utils.rs validate_username sha=472fa1e6ccd3 units=who
pub uninterp spec fn is_user_name(s: Seq<char>) -> bool;
pub struct ValidationError { pub k: u8 }
#[verifier::external_body]
pub fn validate_channel(channel: &str) -> (r: Result<(), ValidationError>) ensures r is Ok <==> is_channel_name(channel@) { unimplemented!() }
#[verifier::external_body]
pub fn validate_username(username: &str) -> (r: Result<(), ValidationError>) ensures r is Ok <==> is_user_name(username@) { unimplemented!() }
// str::contains(char)
pub uninterp spec fn has_char(s: Seq<char>, c: char) -> bool;
// `E.contains('c')` (rule R20; the Pattern trait is not declared to Verus)
#[verifier::external_body]
pub fn verif_str_has_char(s: &str, c: char) -> (r: bool) ensures r == has_char(s@, c) { s.contains(c) }

pub open spec fn shares_channel(a: User, b: User) -> bool { !a.channels@.disjoint(b.channels@) }
// user u may be shown to the asking user q
pub open spec fn user_visible_to(u: User, q: User) -> bool { !u.modes.invisible || shares_channel(u, q) }
pub open spec fn who_line_names(item: FedItem, nick: Seq<char>) -> bool {
    match fed_reply(item) { Some(Reply::RplWhoReply352 { nick: n, .. }) => n@ == nick, _ => false }
}

impl MainState {
//@fn state/rest_cmds.rs MainState::send_who_info unit=who props=C12,C04,C05 rules=R2,R5b
//@spec
        ensures
            r is Ok,
            conn_same_but_stream(*final(conn_state), *old(conn_state)), // @prop C12
            // an invisible user sharing no channel with the asker is not revealed
            !user_visible_to(*user, *cmd_user) ==> final(conn_state).stream.log() == old(conn_state).stream.log(), // @prop C12
            user_visible_to(*user, *cmd_user) ==> final(conn_state).stream.log().len() == old(conn_state).stream.log().len() + 1 // @prop C04
                && log_extends(old(conn_state).stream.log(), final(conn_state).stream.log())
                && who_line_names(final(conn_state).stream.log().last(), user_nick@),
//@open
        broadcast use group_hash_axioms, bridge, ax_fed_reply, ax_string_add_assign_req;
//@end
}

// the users a WHO mask selects: with wildcards, those whose nickname, nick!user@host or real name the mask matches as a whole
// (C14: the mask is the pattern, the user's text is the text); a channel name selects its members; a plain name that user
pub open spec fn who_selects(mask: Seq<char>, s: VolatileState, n: String) -> bool {
    if has_char(mask, '*') || has_char(mask, '?') { wild(mask, n@) || wild(mask, s.users@[n].source@) || wild(mask, s.users@[n].realname@) }
    else if is_channel_name(mask) { member(s, n, string_of(mask)) }
    else { n@ == mask }
}
pub open spec fn who_item_ok(item: FedItem, s: VolatileState, q: User, mask: Seq<char>) -> bool {
    exists|n: String| s.users@.contains_key(n) && user_visible_to(s.users@[n], q) && who_selects(mask, s, n) && #[trigger] who_line_names(item, n@)
}
// every 352 line appended names a user that the mask selects and that is visible to the asker (in state s)
pub open spec fn who_lines_visible(old_log: Seq<FedItem>, new_log: Seq<FedItem>, s: VolatileState, q: User, mask: Seq<char>) -> bool {
    forall|k: int| old_log.len() <= k < new_log.len() - 1 ==> who_item_ok(#[trigger] new_log[k], s, q, mask)
}
impl MainState {
//@fn state/rest_cmds.rs MainState::process_who unit=who props=C12,C04,C05,C14 rules=R1,R2,R14,R20
//@spec
        requires state_wf(*old(state)), conn_ok(*old(conn_state), *old(state)),
        ensures
            conn_same_but_stream(*final(conn_state), *old(conn_state)), // @prop C12
            *final(state) == *old(state), // @prop C12
            log_extends(old(conn_state).stream.log(), final(conn_state).stream.log()), // @prop C12
            final(conn_state).stream.log().len() >= old(conn_state).stream.log().len() + 1, // @prop C12
            // nobody invisible to the asker is revealed
            r is Ok ==> who_lines_visible(old(conn_state).stream.log(), final(conn_state).stream.log(), *old(state), old(state).users@[my_nick(*old(conn_state))], mask@), // @prop C12,C14,C04
            // existence clause: a secret channel the asker is not on is answered exactly like a channel that does not exist
            !has_char(mask@, '*') && !has_char(mask@, '?') && is_channel_name(mask@) && (!old(state).channels@.contains_key(sk(mask)) // @prop C12
                    || !chan_visible_to(old(state).channels@[sk(mask)], my_nick(*old(conn_state)))) ==>
                final(conn_state).stream.log() == old(conn_state).stream.log().push(fed(self.config.name@,
                    Reply::RplEndOfWho315 { client: str_of(client_name_spec(old(conn_state).user_state)), mask })),
//@open
        broadcast use group_hash_axioms, bridge, ax_fed_reply;
        let ghost log0 = conn_state.stream.log();
        let ghost s0 = *old(state);
        let ghost me = my_nick(*conn_state);
//@loop ~for \(unick, u\) in state\.users\.iter\(\) iter=it1
                invariant
                    has_char(mask@, '*') || has_char(mask@, '?'),
                    conn_same_but_stream(*conn_state, *old(conn_state)), *state == s0, state_wf(s0), s0.users@.contains_key(me), *user == s0.users@[me],
                    log_extends(log0, conn_state.stream.log()), log0 == old(conn_state).stream.log(),
                    forall|k: int| log0.len() <= k < conn_state.stream.log().len() ==>
                        who_item_ok(#[trigger] conn_state.stream.log()[k], s0, *user, mask@),
                    forall|i: int| 0 <= i < it1.seq().len() ==> s0.users@.contains_key(*(#[trigger] it1.seq()[i]).0) && s0.users@[*it1.seq()[i].0] == *it1.seq()[i].1,
//@after ~for \(unick, u\) in state\.users\.iter\(\)
                broadcast use group_hash_axioms, bridge, ax_fed_reply;
                let ghost lg1 = conn_state.stream.log();
                proof { assert(s0.users@.contains_key(*unick) && s0.users@[*unick] == *u); }
//@endloop ~for \(unick, u\) in state\.users\.iter\(\)
                proof {
                    let lg2 = conn_state.stream.log();
                    assert forall|k: int| log0.len() <= k < lg2.len() implies
                        who_item_ok(#[trigger] lg2[k], s0, *user, mask@) by {
                        if k < lg1.len() { assert(lg2[k] == lg1[k]); }
                        else { assert(who_line_names(lg2[k], unick@)); assert(s0.users@.contains_key(*unick) && user_visible_to(s0.users@[*unick], *user)); assert(who_selects(mask@, s0, *unick)); } // @prop C14,C12
                    }
                }
//@loop ~for \(u, chum\) in channel\.users\.iter\(\) iter=it2
                        invariant
                            !has_char(mask@, '*') && !has_char(mask@, '?') && is_channel_name(mask@),
                            conn_same_but_stream(*conn_state, *old(conn_state)), *state == s0, state_wf(s0), s0.users@.contains_key(me), *user == s0.users@[me],
                            s0.channels@.contains_key(sk(mask)), *channel == s0.channels@[sk(mask)],
                            log_extends(log0, conn_state.stream.log()), log0 == old(conn_state).stream.log(),
                            forall|k: int| log0.len() <= k < conn_state.stream.log().len() ==>
                                who_item_ok(#[trigger] conn_state.stream.log()[k], s0, *user, mask@),
                            forall|i: int| 0 <= i < it2.seq().len() ==> channel.users@.contains_key(*(#[trigger] it2.seq()[i]).0),
//@after ~for \(u, chum\) in channel\.users\.iter\(\)
                        broadcast use group_hash_axioms, bridge, ax_fed_reply;
                        let ghost lg1 = conn_state.stream.log();
                        proof {
                            assert(channel.users@.contains_key(*u));
                            assert(member(s0, *u, sk(mask)));
                            assert(string_of(u@) == *u);
                        }
//@endloop ~for \(u, chum\) in channel\.users\.iter\(\)
                        proof {
                            let lg2 = conn_state.stream.log();
                            assert forall|k: int| log0.len() <= k < lg2.len() implies
                                who_item_ok(#[trigger] lg2[k], s0, *user, mask@) by {
                                if k < lg1.len() { assert(lg2[k] == lg1[k]); }
                                else { assert(who_line_names(lg2[k], u@)); assert(s0.users@.contains_key(*u) && user_visible_to(s0.users@[*u], *user)); assert(sk(mask) == string_of(mask@)); assert(who_selects(mask@, s0, *u)); } // @prop C04,C12
                            }
                        }
//@end
}
