// ===== helpers every handler uses =====
// ---- rendering of a relayed protocol message: Message::to_string_with_source, proved against the grammar (C13) ----
// the characters that force the trailing form of the last parameter
pub open spec fn has_any_of(s: Seq<char>, set: Seq<char>) -> bool { exists|i: int| 0 <= i < s.len() && set.contains(#[trigger] s[i]) }
pub uninterp spec fn is_ws_char(c: char) -> bool;
pub open spec fn has_whitespace(s: Seq<char>) -> bool { exists|i: int| 0 <= i < s.len() && is_ws_char(#[trigger] s[i]) }
// ASSUMED std facts (rule R27): str::find with a character predicate, str::contains(char::is_whitespace)
#[verifier::external_body]
pub fn verif_str_has_any(s: &str, set: &[char]) -> (r: bool) ensures r == has_any_of(s@, set@) { unimplemented!() }
#[verifier::external_body]
pub fn verif_str_has_whitespace(s: &str) -> (r: bool) ensures r == has_whitespace(s@) { unimplemented!() }
// middle parameters: each one preceded by one blank
pub open spec fn join_mid(params: Seq<&str>, n: int) -> Seq<char>
    decreases n
{
    if n <= 0 { Seq::empty() } else { join_mid(params, n - 1) + seq![' '] + params[n - 1]@ }
}
// the last parameter takes the trailing form ` :text` iff it is empty or contains a colon, a blank or a tab
pub open spec fn needs_trailing(last: Seq<char>) -> bool { last.len() == 0 || has_any_of(last, seq![':', ' ', '\t']) }
// `:source COMMAND p1 .. pn-1 [:]pn`
#[verifier::opaque]
pub open spec fn render(msg: Message, source: Seq<char>) -> Seq<char> {
    let head = seq![':'] + source + seq![' '] + msg.command@;
    let n = msg.params@.len() as int;
    if n == 0 { head } else {
        let last = msg.params@[n - 1]@;
        head + join_mid(msg.params@, n - 1) + (if needs_trailing(last) { seq![' ', ':'] } else { seq![' '] }) + last
    }
}

impl<'a> Message<'a> {
//@fn command.rs Message::to_string_with_source unit=structs props=C13,C01 rules=R28,R27
//@spec
        ensures r@ == render(*self, source@), // @prop C13
//@open
        broadcast use string_add;
        proof { reveal(render); reveal_strlit(":"); reveal_strlit(" :"); assert(join_mid(self.params@, 0) =~= Seq::<char>::empty()); }
        let ghost head = seq![':'] + source@ + seq![' '] + self.command@;
//@loop ~while i__ < n__
                invariant
                    n__ == self.params@.len() - 1, i__ <= n__,
                    out@ == head + join_mid(self.params@, i__ as int), // @prop C13
                decreases n__ - i__,
//@after ~while i__ < n__
                broadcast use string_add;
//@endloop ~while i__ < n__
                proof { reveal_with_fuel(join_mid, 2); assert(out@ =~= head + join_mid(self.params@, i__ as int)); }
//@close
        proof {
            let n = self.params@.len() as int;
            if n > 0 {
                assert([':', ' ', '\t']@ =~= seq![':', ' ', '\t']);
                assert(out@ =~= render(*self, source@)); // @prop C13
            } else { assert(out@ =~= render(*self, source@)); } // @prop C13
        }
//@end
}

impl MainState {
    // ASSUMED: one-line `stream.feed(format!(":{} {}", self.config.name, t)).await` — format! is opaque to Verus
    #[verifier::external_body]
    pub async fn feed_msg<T: fmt::Display>(&self, stream: &mut BufferedLineStream, t: T) -> (r: Result<(), LinesCodecError>)
        ensures r is Ok, final(stream).log() == old(stream).log().push(fed(self.config.name@, t)),
    { unimplemented!() }
    // ASSUMED: one-line `stream.feed(format!(":{} {}", source, t)).await`
    #[verifier::external_body]
    pub async fn feed_msg_source<T: fmt::Display>(&self, stream: &mut BufferedLineStream, source: &str, t: T) -> (r: Result<(), LinesCodecError>)
        ensures r is Ok, final(stream).log() == old(stream).log().push(fed(source@, t)),
    { unimplemented!() }
}

impl User {
//@fn state/structs.rs User::send_message unit=structs props=C01,C04,C09 rules=R6
//@spec
        ensures
            r is Ok ==> final(outbox).log == old(outbox).log.push((self.sender.id(), render(*msg, source@))), // @prop C01,C04,C09
            r is Err ==> final(outbox).log == old(outbox).log, // @prop C01
//@end
//@fn state/structs.rs User::send_msg_display unit=structs props=C01,C04,C09 rules=R6,R23
//@spec
        ensures
            r is Ok ==> final(outbox).log == old(outbox).log.push((self.sender.id(), disp(source@, t))), // @prop C01,C04,C09
            r is Err ==> final(outbox).log == old(outbox).log, // @prop C01
//@open
        proof {
            // `format!(":{} {}", source, t)` is the line disp(source, t)
            broadcast use display_text;
            reveal(fmt2_text); reveal_strlit(":"); reveal_strlit(" "); reveal_strlit("");
            assert(""@ =~= Seq::<char>::empty());
            assert(":"@ =~= seq![':']); assert(" "@ =~= seq![' ']);
            assert(fmt2_text(":"@, dv::<&&str>(&source), " "@, dv::<&T>(&t), ""@) =~= disp::<T>(source@, t));
        }
//@end
//@fn state/structs.rs User::update_nick unit=structs props=C15
//@spec
        ensures *final(self) == (User { source: user_state.source, ..*old(self) }), // @prop C15
//@end
}

impl ChannelTopic {
//@fn state/structs.rs ChannelTopic::new unit=structs props=C16
//@spec
        ensures r.topic == topic, r.nick@.len() == 0, // @prop C16
//@end
//@fn state/structs.rs ChannelTopic::new_with_nick unit=structs props=C09
//@spec
        ensures r.topic == topic, r.nick == nick, // @prop C09
//@end
}

impl ConnUserState {
//@fn state/structs.rs ConnUserState::client_name unit=structs props=C05
//@spec
        ensures r@ == client_name_spec(*self), // @prop C05
//@end
}
pub open spec fn client_name_spec(u: ConnUserState) -> Seq<char> {
    if u.nick is Some { u.nick->0@ } else if u.name is Some { u.name->0@ } else { u.hostname@ }
}

// ---- per-connection invariant ----
// the replies: `fed(server, reply)` is what feed_msg queues; the text of each reply (its numeric and layout) is the Display of Reply - a
// trusted rendering, pinned to its text; so are feed_msg / feed_msg_source themselves and the rank-prefix rendering of NAMES / WHO / WHOIS
//@assumed reply.rs fmt::Display+for+Reply::fmt sha=46c83b6ae681
//@assumed state/mod.rs MainState::feed_msg sha=e6c54daa707d
//@assumed state/mod.rs MainState::feed_msg_source sha=63cec4a811e6
//@assumed state/structs.rs ChannelUserModes::to_string sha=0463f40c90ea units=names,who,whois
// the server object: config look-up tables (mainstate_wf is an ASSUMED invariant of MainState::new_from_config), password hashing
//@assumed state/mod.rs MainState::new_from_config sha=23cfa0ae8dca units=conn,oper
//@assumed utils.rs argon2_verify_password sha=1a19fd242069 units=conn,oper
//@assumed utils.rs argon2_verify_password_async sha=6f4759998899 units=conn,oper
// a fresh connection (conn_pre is assumed to hold for it) and one step of it
//@assumed state/structs.rs ConnState::new sha=c0f08f14c746 units=teardown,slots
//@assumed state/structs.rs ConnUserState::new sha=c1f7bc20cf87 units=teardown
//@assumed state/mod.rs MainState::process sha=73f244b9888d units=teardown
pub open spec fn conn_ok(k: ConnState, s: VolatileState) -> bool {
    &&& k.user_state.authenticated
    &&& k.user_state.nick is Some
    &&& s.users@.contains_key(k.user_state.nick->0)
    &&& s.users@[k.user_state.nick->0].sender.id() == k.receiver.id()
}
pub open spec fn my_nick(k: ConnState) -> String { k.user_state.nick->0 }
// ---- more than one critical section in one handler (rule R1s) ----
// ASSUMED rely condition: what the OTHER connections may have done to the registry while this connection did not hold the lock.
// They keep the registry well formed (each of their critical sections is one of the handlers proved here), they never remove, re-key or
// re-queue this connection's user (only a connection's own NICK / teardown does that), and they never register a user under this
// connection's queue (a user is created with the queue of the connection that registers it).
pub open spec fn others_ran(o: VolatileState, n: VolatileState, rid: int) -> bool {
    &&& (state_wf(o) ==> state_wf(n))
    &&& (forall|k: String| o.users@.contains_key(k) && (#[trigger] o.users@[k]).sender.id() == rid ==> n.users@.contains_key(k) && n.users@[k].sender.id() == rid)
    &&& ((forall|k: String| o.users@.contains_key(k) ==> (#[trigger] o.users@[k]).sender.id() != rid) ==> (forall|k: String| n.users@.contains_key(k) ==> (#[trigger] n.users@[k]).sender.id() != rid))
}
// a lock acquisition: the first one reached on a path sees the registry as the contract's precondition describes it; a later one sees
// what the other connections made of it in between
#[verifier::external_body]
pub fn verif_section(state: &mut VolatileState, me: &UnboundedReceiver<String>, Ghost(again): Ghost<bool>)
    ensures !again ==> *final(state) == *old(state), again ==> others_ran(*old(state), *final(state), me.id()),
{ unimplemented!() }


// every member of channel c (in state s) got exactly one copy of `line`, nobody else got anything
pub open spec fn delivered_to_members(old_log: Seq<(int, Seq<char>)>, new_log: Seq<(int, Seq<char>)>, s: VolatileState, members: Set<String>, line: Seq<char>) -> bool {
    exists|order: Seq<String>|
        #![trigger order.no_duplicates()]
        order.no_duplicates()
        && (forall|n: String| order.contains(n) <==> members.contains(n))
        && new_log == old_log + order.map_values(|n: String| (s.users@[n].sender.id(), line))
}
