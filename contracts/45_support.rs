// ===== helpers every handler uses =====
// rendering of a relayed protocol message (Message::to_string_with_source) — opaque text
pub uninterp spec fn render(msg: Message, source: Seq<char>) -> Seq<char>;

impl<'a> Message<'a> {
    // ASSUMED (status A, DESIGN §11): string building with closures; only the opaque result is used
    #[verifier::external_body]
    pub fn to_string_with_source(&self, source: &str) -> (r: String)
        ensures r@ == render(*self, source@)
    { unimplemented!() }
}

impl MainState {
    // ASSUMED: one-line `stream.feed(format!(":{} {}", self.config.name, t)).await` — format! is opaque to Verus
    #[verifier::external_body]
    pub async fn feed_msg<T: fmt::Display>(&self, stream: &mut BufferedLineStream, t: T) -> (r: Result<(), LinesCodecError>)
        ensures r is Ok, final(stream).log() == old(stream).log().push(fed(self.config.name@, t)),
    { unimplemented!() }
    // ASSUMED: one-line `stream.feed(format!(":{} {}", source, t)).await`
    #[verifier::external_body]
    pub async fn feed_msg_source<T: fmt::Display>(&self, stream: &mut BufferedLineStream, source: &str, t: T) -> (r: Result<(), LinesCodecError>)
        ensures r is Ok, final(stream).log() == old(stream).log().push(fed(source@, t)),
    { unimplemented!() }
}

impl User {
//@fn state/structs.rs User::send_message unit=structs props=C01,C04,C09 rules=R6
//@spec
        ensures
            r is Ok ==> final(outbox).log == old(outbox).log.push((self.sender.id(), render(*msg, source@))), // @prop C01,C04,C09
            r is Err ==> final(outbox).log == old(outbox).log, // @prop C01
//@end
//@fn state/structs.rs User::send_msg_display unit=structs props=C01,C04,C09 rules=R6,R23
//@spec
        ensures
            r is Ok ==> final(outbox).log == old(outbox).log.push((self.sender.id(), disp(source@, t))), // @prop C01,C04,C09
            r is Err ==> final(outbox).log == old(outbox).log, // @prop C01
//@open
        proof {
            // `format!(":{} {}", source, t)` is the line disp(source, t)
            broadcast use display_text;
            reveal(fmt2_text); reveal_strlit(":"); reveal_strlit(" "); reveal_strlit("");
            assert(""@ =~= Seq::<char>::empty());
            assert(":"@ =~= seq![':']); assert(" "@ =~= seq![' ']);
            assert(fmt2_text(":"@, dv::<&&str>(&source), " "@, dv::<&T>(&t), ""@) =~= disp::<T>(source@, t));
        }
//@end
//@fn state/structs.rs User::update_nick unit=structs props=C15
//@spec
        ensures *final(self) == (User { source: user_state.source, ..*old(self) }), // @prop C15
//@end
}

impl ChannelTopic {
//@fn state/structs.rs ChannelTopic::new unit=structs props=C16
//@spec
        ensures r.topic == topic, r.nick@.len() == 0, // @prop C16
//@end
//@fn state/structs.rs ChannelTopic::new_with_nick unit=structs props=C09
//@spec
        ensures r.topic == topic, r.nick == nick, // @prop C09
//@end
}

impl ConnUserState {
//@fn state/structs.rs ConnUserState::client_name unit=structs props=C05
//@spec
        ensures r@ == client_name_spec(*self), // @prop C05
//@end
}
pub open spec fn client_name_spec(u: ConnUserState) -> Seq<char> {
    if u.nick is Some { u.nick->0@ } else if u.name is Some { u.name->0@ } else { u.hostname@ }
}

// ---- per-connection invariant ----
pub open spec fn conn_ok(k: ConnState, s: VolatileState) -> bool {
    &&& k.user_state.authenticated
    &&& k.user_state.nick is Some
    &&& s.users@.contains_key(k.user_state.nick->0)
    &&& s.users@[k.user_state.nick->0].sender.id() == k.receiver.id()
}
pub open spec fn my_nick(k: ConnState) -> String { k.user_state.nick->0 }

// every member of channel c (in state s) got exactly one copy of `line`, nobody else got anything
pub open spec fn delivered_to_members(old_log: Seq<(int, Seq<char>)>, new_log: Seq<(int, Seq<char>)>, s: VolatileState, members: Set<String>, line: Seq<char>) -> bool {
    exists|order: Seq<String>|
        #![trigger order.no_duplicates()]
        order.no_duplicates()
        && (forall|n: String| order.contains(n) <==> members.contains(n))
        && new_log == old_log + order.map_values(|n: String| (s.users@[n].sender.id(), line))
}
