// ===== THE INDUCTION STEP over commands (main world): every parsed command, executed by the command arm of process_internal,
// re-establishes the connection invariant conn_inv (state_wf + this connection's link to the registry). This is what lets the
// per-command contracts speak about "every history". The handlers are called through their proved contracts (callers see
// contracts, not bodies); the handlers NOT under contract are assumed to preserve the invariant and are listed below. =====
//@type command.rs enum Command

// ---- what the (unverified) parser guarantees about a command it accepts: the preconditions the handlers rely on ----
pub open spec fn cmd_wf(c: Command) -> bool {
    match c {
        // keys, if given, are as many as channels (ParameterDoesntMatch otherwise); no channel name is listed twice: the parser passes the
        // list through dedup_join_list (PROVED, unit joinlist: distinct names) - that it does so is part of the assumed, pinned parser contract
        Command::JOIN { channels, keys } => (keys is Some ==> keys->0@.len() == channels@.len()) && distinct_names(channels@),
        // Command::validate: for a channel target (validate_channelmodes) every letter that takes an argument has one, +l takes a number;
        // for a user target nothing is promised about the arguments (validate_usermodes looks at the letters only)
        Command::MODE { target, modes } => is_channel_name(target@) ==> all_mode_args_ok(modes@),
        _ => true,
    }
}

impl MainState {

//@fn state/rest_cmds.rs MainState::process_privmsg unit=privmsg2 props=C01,C10 rules=R2
//@sigadd state: &mut VolatileState
//@sigadd Tracked(outbox): Tracked<&mut Outbox>
//@callargs process_privmsg_notice state,+Tracked(outbox)
//@spec
        requires state_wf(*old(state)), conn_ok(*old(conn_state), *old(state)),
        ensures
            conn_same_but_stream(*final(conn_state), *old(conn_state)), // @prop C01
            r is Ok ==> privmsg_post(self.config.name@, *old(state), *old(conn_state), false, text@, str_views(targets@),
                old(outbox).log, final(outbox).log, old(conn_state).stream.log(), final(conn_state).stream.log()), // @prop C01
            state_wf(*final(state)), conn_ok(*final(conn_state), *final(state)), // @prop C04
//@end
//@fn state/rest_cmds.rs MainState::process_notice unit=privmsg2 props=C01,C10 rules=R2
//@sigadd state: &mut VolatileState
//@sigadd Tracked(outbox): Tracked<&mut Outbox>
//@callargs process_privmsg_notice state,+Tracked(outbox)
//@spec
        requires state_wf(*old(state)), conn_ok(*old(conn_state), *old(state)),
        ensures
            conn_same_but_stream(*final(conn_state), *old(conn_state)), // @prop C01
            r is Ok ==> privmsg_post(self.config.name@, *old(state), *old(conn_state), true, text@, str_views(targets@),
                old(outbox).log, final(outbox).log, old(conn_state).stream.log(), final(conn_state).stream.log()), // @prop C01
            // NOTICE is never answered
            final(conn_state).stream.log() == old(conn_state).stream.log(), // @prop C10
            state_wf(*final(state)), conn_ok(*final(conn_state), *final(state)), // @prop C04
//@end

//@block state/mod.rs MainState::process_internal step_command unit=step props=C04,C02,C06,C03,C05 rules=R2 from=~|match cmd \{| to=~|self\.process_die\(conn_state, message\)\.await,| plus=1
//@autocallargs
//@head
    pub async fn step_command<'a>(&self, state: &mut VolatileState, conn_state: &mut ConnState, cmd: Command<'a>, msg: Message<'a>,
            Tracked(outbox): Tracked<&mut Outbox>, Tracked(sig): Tracked<&mut Signals>) -> (r: Result<(), HErr>)
//@prologue
                use crate::Command::*;
//@spec
        requires
            mainstate_wf(*self),
            conn_inv(*old(conn_state), *old(state)),
            cmd_wf(cmd),
        ensures
            // whatever the command and whatever it answered: the registry is well formed again and this connection is linked to it as before
            conn_inv(*final(conn_state), *final(state)), // @prop C04,C02,C06
            // nothing works before registration
            !old(conn_state).user_state.authenticated && !(cmd is CAP || cmd is AUTHENTICATE || cmd is PASS || cmd is NICK || cmd is USER || cmd is QUIT)
                ==> *final(state) == *old(state) && conn_same_but_stream(*final(conn_state), *old(conn_state)) && final(outbox).log == old(outbox).log, // @prop C03
//@open
        broadcast use group_hash_axioms, bridge;
//@end
}

// ===== the session-ending arms of process_internal (C06: ping timeout and KILL end the session; C11: the killed user is told who did it) =====
impl MainState {
//@block state/mod.rs MainState::process_internal arm_pong_timeout unit=step props=C06,C05 rules=R2,R3,R6q from=~|info!\("Pong timeout for| to=~|^\s*Ok\(\(\)\)\s*$|
//@head
    pub async fn arm_pong_timeout(&self, conn_state: &mut ConnState, Tracked(sig): Tracked<&mut Signals>) -> (r: Result<(), HErr>)
//@spec
        ensures
            // the silent client is sent an ERROR and the connection is flagged to end (the loop then runs the clean-up of C06)
            r is Ok, final(sig).quit == 1, conn_same_but_stream(*final(conn_state), *old(conn_state)), // @prop C06
            final(conn_state).stream.log() == old(conn_state).stream.log().push(fed::<&str>(self.config.name@, "ERROR :Pong timeout, connection will be closed.")), // @prop C06
//@end

//@block state/mod.rs MainState::process_internal arm_killed unit=step props=C11,C06,C05 rules=R2,R3,R6q,R23 from=~|info!\("User \{\} killed by \{\}: \{\}"| to=~|^\s*Ok\(\(\)\)\s*$|
//@head
    pub async fn arm_killed(&self, conn_state: &mut ConnState, killer: String, comment: String, Tracked(sig): Tracked<&mut Signals>) -> (r: Result<(), HErr>)
//@spec
        ensures
            // the killed user is told who did it and why, and the connection is flagged to end
            r is Ok, final(sig).quit == 1, conn_same_but_stream(*final(conn_state), *old(conn_state)), // @prop C06
            exists|line: String| #![trigger fed::<String>(self.config.name@, line)]
                line@ == "ERROR :User killed by "@ + killer@ + ": "@ + comment@
                && final(conn_state).stream.log() == old(conn_state).stream.log().push(fed::<String>(self.config.name@, line)), // @prop C11
//@open
        broadcast use display_text;
        proof { reveal(fmt2_text); reveal_strlit(""); assert(""@ =~= Seq::<char>::empty()); }
//@end
}

// ===== the forwarding arm of process_internal (C01: a copy put into a user's queue is written to that user's connection unchanged) =====
// a raw line written to the connection (the relay lines are complete IRC lines already; feed_msg's items are the server's own replies)
pub uninterp spec fn fed_raw(line: Seq<char>) -> FedItem;
impl BufferedLineStream {
    // ASSUMED: Sink::feed of the framed line stream (tokio-util): queues exactly this line for writing
    #[verifier::external_body]
    pub async fn feed(&mut self, line: String) -> (r: Result<(), LinesCodecError>)
        ensures r is Ok, final(self).log() == old(self).log().push(fed_raw(line@)),
    { unimplemented!() }
}
impl MainState {
//@block state/mod.rs MainState::process_internal arm_forward unit=step props=C01,C05 rules=R2 from=~|conn_state\.stream\.feed\(msg\)\.await\?;| to=~|conn_state\.stream\.feed\(msg\)\.await\?;|
//@head
    pub async fn arm_forward(&self, conn_state: &mut ConnState, msg: String) -> (r: Result<(), HErr>)
//@epilogue
                Ok(())
//@spec
        ensures
            r is Ok, conn_same_but_stream(*final(conn_state), *old(conn_state)), // @prop C01
            // the queued copy goes out as it is: nothing added, nothing dropped, one line
            final(conn_state).stream.log() == old(conn_state).stream.log().push(fed_raw(msg@)), // @prop C01
//@end
}
