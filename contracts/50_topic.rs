// ===== CONTRACTS: TOPIC (C09) =====
pub open spec fn topic_allowed(s: VolatileState, nick: String, c: String) -> bool {
    s.channels@.contains_key(c) && s.channels@[c].users@.contains_key(nick)
        && (!s.channels@[c].modes.protected_topic || half_op(s.channels@[c].users@[nick]))
}
pub open spec fn chan_same_except_topic(oc: Channel, nc: Channel) -> bool {
    nc.users == oc.users && nc.modes == oc.modes && nc.preconfigured == oc.preconfigured
    && nc.default_modes == oc.default_modes && nc.ban_info == oc.ban_info && nc.creation_time == oc.creation_time
}
pub open spec fn state_rest_same(o: VolatileState, n: VolatileState) -> bool {
    n.wallops_users == o.wallops_users && n.invisible_users_count == o.invisible_users_count
    && n.operators_count == o.operators_count && n.max_users_count == o.max_users_count
    && n.nick_histories == o.nick_histories && n.quit_sender == o.quit_sender && n.quit_receiver == o.quit_receiver
}

impl MainState {
//@fn state/channel_cmds.rs MainState::process_topic unit=topic props=C09,C05,C04 rules=R1,R2,R6
//@attr #[verifier::loop_isolation(false)]
//@spec
        requires
            state_wf(*old(state)),
            conn_ok(*old(conn_state), *old(state)),
        ensures
            final(conn_state).user_state == old(conn_state).user_state, // @prop C09
            sym(*final(state)), // @prop C04,C05
            chans_wf(*final(state)), // @prop C04,C08
            no_empty_chan(*final(state)), // @prop C16
            wallops_wf(*final(state)), // @prop C11,C06,C05
            counters_wf(*final(state)), // @prop C19
            senders_distinct(*final(state)), // @prop C02,C01
            conn_ok(*final(conn_state), *final(state)), // @prop C09
            topic_opt is None ==> *final(state) == *old(state) && final(outbox).log == old(outbox).log, // @prop C09
            topic_opt is Some && !topic_allowed(*old(state), my_nick(*old(conn_state)), sk(channel)) ==> // @prop C09
                *final(state) == *old(state) && final(outbox).log == old(outbox).log
                && final(conn_state).stream.log().len() == old(conn_state).stream.log().len() + 1,
            topic_opt is Some && !old(state).channels@.contains_key(sk(channel)) ==> // @prop C09
                final(conn_state).stream.log() == old(conn_state).stream.log().push(fed(self.config.name@, ErrNoSuchChannel403 { client: str_of(client_name_spec(old(conn_state).user_state)), channel })),
            topic_opt is Some && topic_allowed(*old(state), my_nick(*old(conn_state)), sk(channel)) ==> ({ // @prop C09
                let oc = old(state).channels@[sk(channel)];
                let nc = final(state).channels@[sk(channel)];
                &&& final(state).users@ == old(state).users@
                &&& final(state).channels@.dom() == old(state).channels@.dom()
                &&& (forall|c: String| c != sk(channel) && old(state).channels@.contains_key(c) ==> final(state).channels@[c] == old(state).channels@[c])
                &&& chan_same_except_topic(oc, nc)
                &&& state_rest_same(*old(state), *final(state))
                &&& (topic_opt->0@.len() == 0 ==> nc.topic is None)
                &&& (topic_opt->0@.len() > 0 ==> nc.topic is Some && nc.topic->0.topic@ == topic_opt->0@ && nc.topic->0.nick == my_nick(*old(conn_state)))
                &&& final(conn_state).stream.log() == old(conn_state).stream.log()
                &&& (r is Ok ==> delivered_to_members(old(outbox).log, final(outbox).log, *final(state), nc.users@.dom(),
                        render(*msg, old(conn_state).user_state.source@)))
            }),
//@open
        broadcast use group_hash_axioms, bridge, lemma_cover_is_exact;
//@before ~for cu in chanobj\.users\.keys\(\)
                let ghost log0 = outbox.log;
                let ghost line = render(*msg, conn_state.user_state.source@);
                let ghost members = chanobj.users@.dom();
                let ghost mut order: Seq<String> = Seq::empty();
                proof {
                    assert(state.channels@.dom() =~= old(state).channels@.dom());
                    lemma_topic_wf(*old(state), *state, sk(channel));
                }
//@loop ~for cu in chanobj\.users\.keys\(\) iter=it
                    invariant
                        it.seq().no_duplicates(),
                        it.seq().len() == members.len(),
                        forall|k: String| members.contains(k) ==> exists|i: int| 0 <= i < it.seq().len() && *#[trigger] it.seq()[i] == k,
                        order.len() == it.index@,
                        order.no_duplicates(),
                        forall|j: int, l: int| #![trigger order[j], it.seq()[l]] 0 <= j < order.len() && order.len() <= l < it.seq().len() ==> order[j] != *it.seq()[l],
                        forall|i: int| 0 <= i < order.len() ==> members.contains(#[trigger] order[i]),
                        forall|j: int| 0 <= j < it.index@ ==> order[j] == *#[trigger] it.seq()[j],
                        outbox.log == log0 + order.map_values(|n: String| (state.users@[n].sender.id(), line)),
//@after ~for cu in chanobj\.users\.keys\(\)
                    proof {
                        assert(members.contains(*cu));
                        assert(member(*state, *cu, sk(channel)));
                    }
//@after ~\.send_message\(msg, &conn_state\.user_state\.source
                    proof {
                        assert forall|j: int| 0 <= j < order.len() implies order[j] != *cu by { }
                        let f = |n: String| (state.users@[n].sender.id(), line);
                        assert(order.push(*cu).map_values(f) =~= order.map_values(f).push(f(*cu)));
                        order = order.push(*cu);
                    }
//@afterloop ~for cu in chanobj\.users\.keys\(\)
                proof {
                    assert(order.len() == members.len());
                    lemma_nodup_subset_full(order, members);
                }
//@end
}
// changing only the topic of one channel keeps the state well formed (proved)
pub proof fn lemma_topic_wf(o: VolatileState, n: VolatileState, c: String)
    requires state_wf(o), o.channels@.contains_key(c), n.users@ == o.users@, n.channels@.dom() == o.channels@.dom(),
        forall|d: String| d != c && o.channels@.contains_key(d) ==> n.channels@[d] == o.channels@[d],
        chan_same_except_topic(o.channels@[c], n.channels@[c]), state_rest_same(o, n),
    ensures state_wf(n)
{
    assert forall|u: String, d: String| #![trigger n.users@[u].channels@.contains(d)] #![trigger member(n, u, d)]
        (n.users@.contains_key(u) && n.users@[u].channels@.contains(d)) <==> member(n, u, d) by {
        assert((o.users@.contains_key(u) && o.users@[u].channels@.contains(d)) <==> member(o, u, d));
    }
    assert(sym(n));
    assert(chans_wf(n)) by {
        assert forall|d: String| n.channels@.contains_key(d) implies chan_wf(#[trigger] n.channels@[d]) by {
            assert(chan_wf(o.channels@[d]));
        }
    }
    assert(no_empty_chan(n)) by {
        assert forall|d: String| n.channels@.contains_key(d) && !(#[trigger] n.channels@[d]).preconfigured implies n.channels@[d].users@.len() > 0 by {
            assert(!o.channels@[d].preconfigured ==> o.channels@[d].users@.len() > 0);
        }
    }
    assert(wallops_wf(n)) by {
        assert forall|u: String| #[trigger] n.wallops_users@.contains(u) <==> (n.users@.contains_key(u) && n.users@[u].modes.wallops) by {
            assert(o.wallops_users@.contains(u) <==> (o.users@.contains_key(u) && o.users@[u].modes.wallops));
        }
    }
}
