// ===== CONTRACTS: operator status (C11, C19) =====
pub open spec fn user_same_except_modes(a: User, b: User) -> bool {
    &&& a.hostname == b.hostname && a.sender == b.sender && a.quit_sender == b.quit_sender && a.name == b.name
    &&& a.realname == b.realname && a.source == b.source && a.away == b.away && a.channels == b.channels
    &&& a.invited_to == b.invited_to && a.last_activity == b.last_activity && a.signon == b.signon
    &&& a.history_entry == b.history_entry
}
pub open spec fn b2i(b: bool) -> int { if b { 1 } else { 0 } }
// only the modes of user k change (and the bookkeeping that mirrors them)
pub open spec fn modes_upd(o: VolatileState, n: VolatileState, k: String) -> bool {
    &&& o.users@.contains_key(k)
    &&& n.users@ == o.users@.insert(k, n.users@[k])
    &&& user_same_except_modes(n.users@[k], o.users@[k])
    &&& n.channels == o.channels && n.nick_histories == o.nick_histories && n.max_users_count == o.max_users_count
    &&& n.quit_sender == o.quit_sender && n.quit_receiver == o.quit_receiver
    &&& n.invisible_users_count == o.invisible_users_count + b2i(n.users@[k].modes.invisible) - b2i(o.users@[k].modes.invisible)
    &&& n.operators_count == o.operators_count + b2i(local_oper(n.users@[k].modes)) - b2i(local_oper(o.users@[k].modes))
    &&& n.wallops_users@ == (if n.users@[k].modes.wallops { o.wallops_users@.insert(k) } else { o.wallops_users@.remove(k) })
}
pub proof fn lemma_modes_upd_wf(o: VolatileState, n: VolatileState, k: String)
    requires state_wf(o), modes_upd(o, n, k)
    ensures state_wf(n)
{
    assert forall|u: String, d: String| #![trigger n.users@[u].channels@.contains(d)] #![trigger member(n, u, d)]
        (n.users@.contains_key(u) && n.users@[u].channels@.contains(d)) <==> member(n, u, d) by {
        assert((o.users@.contains_key(u) && o.users@[u].channels@.contains(d)) <==> member(o, u, d));
    }
    assert(sym(n));
    assert(wallops_wf(n)) by {
        assert forall|u: String| #[trigger] n.wallops_users@.contains(u) <==> (n.users@.contains_key(u) && n.users@[u].modes.wallops) by {
            assert(o.wallops_users@.contains(u) <==> (o.users@.contains_key(u) && o.users@[u].modes.wallops));
        }
    }
    lemma_inv_update(o.users@, k, n.users@[k]);
    lemma_opr_update(o.users@, k, n.users@[k]);
    assert(n.users@.dom() =~= o.users@.dom());
    assert(senders_distinct(n)) by {
        assert forall|a: String, b: String| #![trigger n.users@[a], n.users@[b]]
            n.users@.contains_key(a) && n.users@.contains_key(b) && a != b implies n.users@[a].sender.id() != n.users@[b].sender.id() by {
            assert(n.users@[a].sender == o.users@[a].sender);
            assert(n.users@[b].sender == o.users@[b].sender);
        }
    }
}
pub open spec fn cfg_oper(m: MainState, name: String) -> Option<OperatorConfig> {
    if m.oper_config_idxs@.contains_key(name) && m.config.operators is Some { Some(m.config.operators->0@[m.oper_config_idxs@[name] as int]) } else { None }
}
// OPER succeeds exactly for a configured operator name, with that operator's password, from a source matching its mask
pub open spec fn oper_ok(m: MainState, name: String, password: Seq<char>, source: Seq<char>) -> bool {
    let oc = cfg_oper(m, name);
    oc is Some && hash_ok(password, oc->0.password@) && (oc->0.mask is None || wild(oc->0.mask->0@, source))
}

impl MainState {
//@fn state/conn_cmds.rs MainState::process_oper unit=oper props=C11,C19,C05 rules=R1,R2
//@spec
        requires
            mainstate_wf(*self), state_wf(*old(state)), conn_ok(*old(conn_state), *old(state)),
        ensures
            conn_same_but_stream(*final(conn_state), *old(conn_state)), // @prop C11
            oper_ok(*self, sk(nick), password@, old(conn_state).user_state.source@) ==> // @prop C11
                modes_upd(*old(state), *final(state), my_nick(*old(conn_state)))
                && final(state).users@[my_nick(*old(conn_state))].modes == (UserModes { oper: true, ..old(state).users@[my_nick(*old(conn_state))].modes }),
            !oper_ok(*self, sk(nick), password@, old(conn_state).user_state.source@) ==> vs_same(*final(state), *old(state)), // @prop C11
            sym(*final(state)), // @prop C04,C05
            chans_wf(*final(state)), // @prop C04,C08
            no_empty_chan(*final(state)), // @prop C16
            wallops_wf(*final(state)), // @prop C11,C06,C05
            counters_wf(*final(state)), // @prop C19
            senders_distinct(*final(state)), // @prop C02,C01
            conn_ok(*final(conn_state), *final(state)), // @prop C11
//@open
        broadcast use group_hash_axioms, bridge;
        proof {
            assert forall|n: VolatileState| #![trigger state_wf(n)] #![trigger sym(n)] #![trigger chans_wf(n)] #![trigger no_empty_chan(n)] #![trigger wallops_wf(n)] #![trigger counters_wf(n)] #![trigger senders_distinct(n)] modes_upd(*old(state), n, my_nick(*old(conn_state))) implies state_wf(n) by {
                lemma_modes_upd_wf(*old(state), n, my_nick(*old(conn_state)));
            }
            lemma_opr_update(old(state).users@, my_nick(*old(conn_state)), old(state).users@[my_nick(*old(conn_state))]);
            ax_hashmap_len_bound(old(state).users);
            old(state).users@.dom().lemma_len_filter(|n: String| local_oper(old(state).users@[n].modes));
        }
//@close
        proof {
            let k = my_nick(*old(conn_state));
            if state.users@.contains_key(k) {
                assert(state.users@ =~= old(state).users@.insert(k, state.users@[k]));
                if state.users@[k] == old(state).users@[k] { assert(state.users@ =~= old(state).users@); }
                if state.users@[k].modes.wallops == old(state).users@[k].modes.wallops {
                    assert(old(state).wallops_users@.contains(k) <==> old(state).users@[k].modes.wallops);
                    assert(state.wallops_users@ =~= (if state.users@[k].modes.wallops { old(state).wallops_users@.insert(k) } else { old(state).wallops_users@.remove(k) }));
                }
            }
        }
//@end
}

// the sign in force at position i of one mode string of `MODE <nick> ..`: the last '+' / '-' before i, minus when there is none
pub open spec fn usign(ms: Seq<char>, i: int) -> bool
    decreases i
{
    if i <= 0 { false } else if ms[i - 1] == '+' { true } else if ms[i - 1] == '-' { false } else { usign(ms, i - 1) }
}
// letter i of mode string k is an 'o' with the minus sign in force: the operator flag is being removed (C11: "loses it by removing the mode")
pub open spec fn minus_o_at(modes: Seq<(&str, Vec<&str>)>, k: int, i: int) -> bool {
    0 <= k < modes.len() && 0 <= i < modes[k].0@.len() && modes[k].0@[i] == 'o' && !usign(modes[k].0@, i)
}

impl MainState {
//@fn state/srv_query_cmds.rs MainState::process_mode_user unit=oper props=C11,C19,C05 rules=R2
//@spec
        requires
            state_wf(*old(state)), conn_ok(*old(conn_state), *old(state)), sk(target) == my_nick(*old(conn_state)),
        ensures
            conn_same_but_stream(*final(conn_state), *old(conn_state)), // @prop C11
            modes_upd(*old(state), *final(state), sk(target)), // @prop C11,C19
            // MODE never confers operator status (it may only drop it)
            final(state).users@[sk(target)].modes.oper ==> old(state).users@[sk(target)].modes.oper, // @prop C11
            final(state).users@[sk(target)].modes.local_oper == old(state).users@[sk(target)].modes.local_oper, // @prop C11
            // ... and removing the mode does drop it: any `-o` among the mode strings leaves the user without operator status
            r is Ok ==> forall|kk: int, i: int| #[trigger] minus_o_at(modes@, kk, i) ==> !final(state).users@[sk(target)].modes.oper, // @prop C11
            sym(*final(state)), // @prop C04,C05
            chans_wf(*final(state)), // @prop C04,C08
            no_empty_chan(*final(state)), // @prop C16
            wallops_wf(*final(state)), // @prop C11,C06,C05
            counters_wf(*final(state)), // @prop C19
            senders_distinct(*final(state)), // @prop C02,C01
            conn_ok(*final(conn_state), *final(state)), // @prop C11
//@open
        broadcast use group_hash_axioms, bridge, ax_string_add_assign_req;
        let ghost k = sk(target);
        let ghost o = *old(state);
        let ghost ms0 = modes@;
        proof {
            assert forall|n: VolatileState| #![trigger state_wf(n)] #![trigger sym(n)] #![trigger chans_wf(n)] #![trigger no_empty_chan(n)] #![trigger wallops_wf(n)] #![trigger counters_wf(n)] #![trigger senders_distinct(n)] modes_upd(o, n, k) implies state_wf(n) by { lemma_modes_upd_wf(o, n, k); }
            ax_hashmap_len_bound(o.users);
            o.users@.dom().lemma_len_filter(|n: String| local_oper(o.users@[n].modes));
            o.users@.dom().lemma_len_filter(|n: String| o.users@[n].modes.invisible);
            lemma_inv_update(o.users@, k, o.users@[k]);
            lemma_opr_update(o.users@, k, o.users@[k]);
            assert(o.wallops_users@.contains(k) <==> o.users@[k].modes.wallops);
            lemma_inv_remove(o.users@, k);
            lemma_opr_remove(o.users@, k);
            if !o.users@[k].modes.invisible { lemma_inv_bound(o.users@, k); }
            if !local_oper(o.users@[k].modes) { lemma_opr_bound(o.users@, k); }
        }
//@after ~let user_nick = target;
        proof {
            assert(*user == o.users@[k]);
            assert(o.wallops_users@.insert(k) =~= o.wallops_users@ || !o.users@[k].modes.wallops);
            assert(o.wallops_users@.remove(k) =~= o.wallops_users@ || o.users@[k].modes.wallops);
        }
//@loop ~for \(mchars, _\) in modes iter=itm
                invariant
                    itm.seq() == ms0, ms0 == modes@,
                    forall|kk: int, i: int| kk < itm.index@ && #[trigger] minus_o_at(ms0, kk, i) ==> !user.modes.oper, // @prop C11
                    conn_same_but_stream(*conn_state, *old(conn_state)),
                    user_same_except_modes(*user, o.users@[k]),
                    user.modes.oper ==> o.users@[k].modes.oper, // @prop C11
                    user.modes.local_oper == o.users@[k].modes.local_oper, // @prop C11
                    state.invisible_users_count == o.invisible_users_count + b2i(user.modes.invisible) - b2i(o.users@[k].modes.invisible), // @prop C19
                    state.operators_count == o.operators_count + b2i(local_oper(user.modes)) - b2i(local_oper(o.users@[k].modes)), // @prop C19
                    state.wallops_users@ == (if user.modes.wallops { o.wallops_users@.insert(k) } else { o.wallops_users@.remove(k) }), // @prop C11
                    state.channels == o.channels && state.nick_histories == o.nick_histories && state.max_users_count == o.max_users_count
                        && state.quit_sender == o.quit_sender && state.quit_receiver == o.quit_receiver,
                    sk(user_nick) == k,
                    !o.users@[k].modes.invisible ==> o.invisible_users_count < usize::MAX,
                    o.users@[k].modes.invisible ==> o.invisible_users_count >= 1,
                    !local_oper(o.users@[k].modes) ==> o.operators_count < usize::MAX,
                    local_oper(o.users@[k].modes) ==> o.operators_count >= 1,
//@loop ~for mchar in mchars\.chars\(\) iter=itc
                    invariant
                    itc.seq() == mchars@, ms0 == modes@, itm.seq() == ms0, 0 <= itm.index@ < ms0.len(), mchars@ == ms0[itm.index@ as int].0@,
                    mode_set == usign(mchars@, itc.index@ as int), // @prop C11
                    forall|kk: int, i: int| kk < itm.index@ && #[trigger] minus_o_at(ms0, kk, i) ==> !user.modes.oper, // @prop C11
                    forall|i: int| i < itc.index@ && #[trigger] minus_o_at(ms0, itm.index@ as int, i) ==> !user.modes.oper, // @prop C11
                    conn_same_but_stream(*conn_state, *old(conn_state)),
                    user_same_except_modes(*user, o.users@[k]),
                    user.modes.oper ==> o.users@[k].modes.oper, // @prop C11
                    user.modes.local_oper == o.users@[k].modes.local_oper, // @prop C11
                    state.invisible_users_count == o.invisible_users_count + b2i(user.modes.invisible) - b2i(o.users@[k].modes.invisible), // @prop C19
                    state.operators_count == o.operators_count + b2i(local_oper(user.modes)) - b2i(local_oper(o.users@[k].modes)), // @prop C19
                    state.wallops_users@ == (if user.modes.wallops { o.wallops_users@.insert(k) } else { o.wallops_users@.remove(k) }), // @prop C11
                    state.channels == o.channels && state.nick_histories == o.nick_histories && state.max_users_count == o.max_users_count
                        && state.quit_sender == o.quit_sender && state.quit_receiver == o.quit_receiver,
                    sk(user_nick) == k,
                    !o.users@[k].modes.invisible ==> o.invisible_users_count < usize::MAX,
                    o.users@[k].modes.invisible ==> o.invisible_users_count >= 1,
                    !local_oper(o.users@[k].modes) ==> o.operators_count < usize::MAX,
                    local_oper(o.users@[k].modes) ==> o.operators_count >= 1,
//@after ~for mchar in mchars\.chars\(\)
                    broadcast use group_hash_axioms, bridge, ax_string_add_assign_req;
//@close
        proof {
            assert(state.users@ =~= o.users@.insert(k, state.users@[k]));
        }
//@end
}

// ---- operator-only commands (C11) ----
pub open spec fn user_same_except_quit_sender(a: User, b: User) -> bool {
    &&& a.hostname == b.hostname && a.sender == b.sender && a.name == b.name && a.modes == b.modes
    &&& a.realname == b.realname && a.source == b.source && a.away == b.away && a.channels == b.channels
    &&& a.invited_to == b.invited_to && a.last_activity == b.last_activity && a.signon == b.signon
    &&& a.history_entry == b.history_entry
}
pub open spec fn kill_frame(o: VolatileState, n: VolatileState, t: String) -> bool {
    &&& n.users@.dom() =~= o.users@.dom()
    &&& (forall|u: String| u != t && o.users@.contains_key(u) ==> #[trigger] n.users@[u] == o.users@[u])
    &&& (o.users@.contains_key(t) ==> user_same_except_quit_sender(n.users@[t], o.users@[t]))
    &&& n.channels == o.channels && state_rest_same(o, n)
}
pub proof fn lemma_kill_frame_wf(o: VolatileState, n: VolatileState, t: String)
    requires state_wf(o), kill_frame(o, n, t)
    ensures state_wf(n)
{
    assert forall|u: String, d: String| #![trigger n.users@[u].channels@.contains(d)] #![trigger member(n, u, d)]
        (n.users@.contains_key(u) && n.users@[u].channels@.contains(d)) <==> member(n, u, d) by {
        assert((o.users@.contains_key(u) && o.users@[u].channels@.contains(d)) <==> member(o, u, d));
    }
    assert(sym(n));
    assert(wallops_wf(n)) by {
        assert forall|u: String| #[trigger] n.wallops_users@.contains(u) <==> (n.users@.contains_key(u) && n.users@[u].modes.wallops) by {
            assert(o.wallops_users@.contains(u) <==> (o.users@.contains_key(u) && o.users@[u].modes.wallops));
        }
    }
    assert forall|u: String| o.users@.contains_key(u) implies (#[trigger] o.users@[u]).modes == n.users@[u].modes by { }
    lemma_sets_same_modes(o.users@, n.users@);
    assert(senders_distinct(n)) by {
        assert forall|a: String, b: String| #![trigger n.users@[a], n.users@[b]]
            n.users@.contains_key(a) && n.users@.contains_key(b) && a != b implies n.users@[a].sender.id() != n.users@[b].sender.id() by {
            assert(n.users@[a].sender == o.users@[a].sender);
            assert(n.users@[b].sender == o.users@[b].sender);
        }
    }
}
impl MainState {
//@fn state/rest_cmds.rs MainState::process_kill unit=oper props=C11,C05 rules=R1,R2
//@spec
        requires state_wf(*old(state)), conn_ok(*old(conn_state), *old(state)),
        ensures
            conn_same_but_stream(*final(conn_state), *old(conn_state)), // @prop C11
            // everyone but an operator gets 481 and nothing happens
            !old(state).users@[my_nick(*old(conn_state))].modes.oper ==> vs_same(*final(state), *old(state)) // @prop C11
                && final(conn_state).stream.log() == old(conn_state).stream.log().push(fed(self.config.name@,
                    Reply::ErrNoPrivileges481 { client: str_of(client_name_spec(old(conn_state).user_state)) })),
            // an operator's KILL touches exactly the named user's kill channel, nothing else
            kill_frame(*old(state), *final(state), sk(nickname)), // @prop C11
            sym(*final(state)), // @prop C04,C05
            chans_wf(*final(state)), // @prop C04,C08
            no_empty_chan(*final(state)), // @prop C16
            wallops_wf(*final(state)), // @prop C11,C06,C05
            counters_wf(*final(state)), // @prop C19
            senders_distinct(*final(state)), // @prop C02,C01
//@open
        broadcast use group_hash_axioms, bridge;
        let ghost o = *old(state);
        proof {
            assert forall|n: VolatileState| #![trigger state_wf(n)] #![trigger sym(n)] #![trigger chans_wf(n)] #![trigger no_empty_chan(n)] #![trigger wallops_wf(n)] #![trigger counters_wf(n)] #![trigger senders_distinct(n)] kill_frame(o, n, sk(nickname)) implies state_wf(n) by { lemma_kill_frame_wf(o, n, sk(nickname)); }
        }
//@close
        proof {
            assert(state.users@.dom() =~= o.users@.dom());
            if !o.users@[my_nick(*old(conn_state))].modes.oper { assert(state.users@ =~= o.users@); }
        }
//@end

//@fn state/rest_cmds.rs MainState::process_wallops unit=oper props=C11,C05 rules=R1,R2,R5t,R6
//@attr #[verifier::loop_isolation(false)]
//@spec
        requires state_wf(*old(state)), conn_ok(*old(conn_state), *old(state)),
        ensures
            conn_same_but_stream(*final(conn_state), *old(conn_state)), // @prop C11
            *final(state) == *old(state), // @prop C11
            !local_oper(old(state).users@[my_nick(*old(conn_state))].modes) ==> final(outbox).log == old(outbox).log // @prop C11
                && final(conn_state).stream.log() == old(conn_state).stream.log().push(fed(self.config.name@,
                    Reply::ErrNoPrivileges481 { client: str_of(client_name_spec(old(conn_state).user_state)) })),
            // WALLOPS reaches exactly the users with mode +w (wallops_users mirrors the +w flags by state_wf), once each
            local_oper(old(state).users@[my_nick(*old(conn_state))].modes) && r is Ok ==> // @prop C11
                delivered_to_members(old(outbox).log, final(outbox).log, *old(state), old(state).wallops_users@, render(*msg, old(conn_state).user_state.source@)),
//@open
        broadcast use group_hash_axioms, bridge, lemma_cover_is_exact;
//@before ~for wu in state\.wallops_users\.iter\(\)
            let ghost log0 = outbox.log;
            let ghost line = render(*msg, conn_state.user_state.source@);
            let ghost members = state.wallops_users@;
            let ghost mut order: Seq<String> = Seq::empty();
//@loop ~for wu in state\.wallops_users\.iter\(\) iter=it
                invariant
                    it.seq().no_duplicates(),
                    it.seq().len() == members.len(),
                    forall|k: String| members.contains(k) ==> exists|i: int| 0 <= i < it.seq().len() && *#[trigger] it.seq()[i] == k,
                    order.len() == it.index@,
                    order.no_duplicates(),
                    forall|j: int, l: int| #![trigger order[j], it.seq()[l]] 0 <= j < order.len() && order.len() <= l < it.seq().len() ==> order[j] != *it.seq()[l],
                    forall|i: int| 0 <= i < order.len() ==> members.contains(#[trigger] order[i]),
                    forall|j: int| 0 <= j < it.index@ ==> order[j] == *#[trigger] it.seq()[j],
                    outbox.log == log0 + order.map_values(|n: String| (state.users@[n].sender.id(), line)),
                    *state == *old(state),
//@after ~for wu in state\.wallops_users\.iter\(\)
                proof { assert(members.contains(*wu)); assert(state.users@.contains_key(*wu)); }
//@endloop ~for wu in state\.wallops_users\.iter\(\)
                proof {
                    assert forall|j: int| 0 <= j < order.len() implies order[j] != *wu by { }
                    let f = |n: String| (state.users@[n].sender.id(), line);
                    assert(order.push(*wu).map_values(f) =~= order.map_values(f).push(f(*wu)));
                    order = order.push(*wu);
                }
//@afterloop ~for wu in state\.wallops_users\.iter\(\)
            proof {
                assert(order.len() == members.len());
                lemma_nodup_subset_full(order, members);
            }
//@end

//@fn state/rest_cmds.rs MainState::process_away unit=oper props=C10,C05 rules=R1,R2
//@spec
        requires state_wf(*old(state)), conn_ok(*old(conn_state), *old(state)),
        ensures
            conn_same_but_stream(*final(conn_state), *old(conn_state)), // @prop C10
            ({ let k = my_nick(*old(conn_state)); // @prop C10
               &&& final(state).users@ == old(state).users@.insert(k, User { away: (if text is Some { Some(sk(text->0)) } else { None }), ..old(state).users@[k] })
               &&& final(state).channels == old(state).channels && state_rest_same(*old(state), *final(state)) }),
            sym(*final(state)), // @prop C04,C05
            chans_wf(*final(state)), // @prop C04,C08
            no_empty_chan(*final(state)), // @prop C16
            wallops_wf(*final(state)), // @prop C11,C06,C05
            counters_wf(*final(state)), // @prop C19
            senders_distinct(*final(state)), // @prop C02,C01
//@open
        broadcast use group_hash_axioms, bridge;
        proof {
            let k = my_nick(*old(conn_state));
            assert forall|n: VolatileState| #![trigger state_wf(n)] #![trigger sym(n)] #![trigger chans_wf(n)] #![trigger no_empty_chan(n)] #![trigger wallops_wf(n)] #![trigger counters_wf(n)] #![trigger senders_distinct(n)] n.users@ == old(state).users@.insert(k, User { away: n.users@[k].away, ..old(state).users@[k] })
                && n.channels == old(state).channels && state_rest_same(*old(state), n) implies state_wf(n) by {
                lemma_user_field_wf(*old(state), n, k);
            }
        }
//@end
}
// replacing users[k] by a user with the same modes, sender and channels keeps the state well formed (proved)
pub proof fn lemma_user_field_wf(o: VolatileState, n: VolatileState, k: String)
    requires state_wf(o), o.users@.contains_key(k), n.users@ == o.users@.insert(k, n.users@[k]),
        n.users@[k].modes == o.users@[k].modes, n.users@[k].sender == o.users@[k].sender, n.users@[k].channels == o.users@[k].channels,
        n.channels == o.channels, state_rest_same(o, n),
    ensures state_wf(n)
{
    assert forall|u: String, d: String| #![trigger n.users@[u].channels@.contains(d)] #![trigger member(n, u, d)]
        (n.users@.contains_key(u) && n.users@[u].channels@.contains(d)) <==> member(n, u, d) by {
        assert((o.users@.contains_key(u) && o.users@[u].channels@.contains(d)) <==> member(o, u, d));
    }
    assert(sym(n));
    assert(wallops_wf(n)) by {
        assert forall|u: String| #[trigger] n.wallops_users@.contains(u) <==> (n.users@.contains_key(u) && n.users@[u].modes.wallops) by {
            assert(o.wallops_users@.contains(u) <==> (o.users@.contains_key(u) && o.users@[u].modes.wallops));
        }
    }
    assert(n.users@.dom() =~= o.users@.dom());
    assert forall|u: String| o.users@.contains_key(u) implies (#[trigger] o.users@[u]).modes == n.users@[u].modes by { }
    lemma_sets_same_modes(o.users@, n.users@);
    assert(senders_distinct(n)) by {
        assert forall|a: String, b: String| #![trigger n.users@[a], n.users@[b]]
            n.users@.contains_key(a) && n.users@.contains_key(b) && a != b implies n.users@[a].sender.id() != n.users@[b].sender.id() by {
            assert(n.users@[a].sender == o.users@[a].sender);
            assert(n.users@[b].sender == o.users@[b].sender);
        }
    }
}

// every user keeps everything but (possibly) its kill channel: the state stays well formed (proved)
pub proof fn lemma_quit_senders_taken_wf(o: VolatileState, n: VolatileState)
    requires state_wf(o), n.users@.dom() == o.users@.dom(),
        forall|u: String| o.users@.contains_key(u) ==> user_same_except_quit_sender(#[trigger] n.users@[u], o.users@[u]),
        n.channels == o.channels, n.wallops_users == o.wallops_users, n.invisible_users_count == o.invisible_users_count,
        n.operators_count == o.operators_count, n.max_users_count == o.max_users_count,
    ensures state_wf(n)
{
    assert forall|u: String, d: String| #![trigger n.users@[u].channels@.contains(d)] #![trigger member(n, u, d)]
        (n.users@.contains_key(u) && n.users@[u].channels@.contains(d)) <==> member(n, u, d) by {
        assert((o.users@.contains_key(u) && o.users@[u].channels@.contains(d)) <==> member(o, u, d));
    }
    assert(sym(n));
    assert(wallops_wf(n)) by {
        assert forall|u: String| #[trigger] n.wallops_users@.contains(u) <==> (n.users@.contains_key(u) && n.users@[u].modes.wallops) by {
            assert(o.wallops_users@.contains(u) <==> (o.users@.contains_key(u) && o.users@[u].modes.wallops));
        }
    }
    assert forall|u: String| o.users@.contains_key(u) implies (#[trigger] o.users@[u]).modes == n.users@[u].modes by { }
    lemma_sets_same_modes(o.users@, n.users@);
    assert(senders_distinct(n)) by {
        assert forall|a: String, b: String| #![trigger n.users@[a], n.users@[b]]
            n.users@.contains_key(a) && n.users@.contains_key(b) && a != b implies n.users@[a].sender.id() != n.users@[b].sender.id() by {
            assert(n.users@[a].sender == o.users@[a].sender);
            assert(n.users@[b].sender == o.users@[b].sender);
        }
    }
}

impl MainState {
//@fn state/rest_cmds.rs MainState::process_die unit=oper2 props=C11,C05 rules=R1,R2
//@spec
        requires state_wf(*old(state)), conn_ok(*old(conn_state), *old(state)),
        ensures
            conn_same_but_stream(*final(conn_state), *old(conn_state)), // @prop C11
            // DIE acts only for operators: everyone else gets 483 and nothing happens
            !old(state).users@[my_nick(*old(conn_state))].modes.oper ==> vs_same(*final(state), *old(state)) // @prop C11
                && final(conn_state).stream.log() == old(conn_state).stream.log().push(fed(self.config.name@,
                    Reply::ErrCantKillServer483 { client: str_of(client_name_spec(old(conn_state).user_state)) })),
            // for an operator every user's kill channel is taken; nothing else of the registry moves
            state_wf(*final(state)), conn_ok(*final(conn_state), *final(state)), // @prop C04,C02
//@opaque ~for u in state\.users\.values_mut\(\)
            verif_die_signal_all(&mut state.users, user_nick, message)?;
//@open
        broadcast use group_hash_axioms, bridge;
        proof {
            assert forall|n: VolatileState| #![trigger state_wf(n)]
                n.users@.dom() == old(state).users@.dom() && (forall|u: String| old(state).users@.contains_key(u) ==> user_same_except_quit_sender(#[trigger] n.users@[u], old(state).users@[u]))
                && n.channels == old(state).channels && n.wallops_users == old(state).wallops_users && n.invisible_users_count == old(state).invisible_users_count
                && n.operators_count == old(state).operators_count && n.max_users_count == old(state).max_users_count implies state_wf(n) by { lemma_quit_senders_taken_wf(*old(state), n); }
        }
//@end
}
// ASSUMED stand-in for the loop `for u in state.users.values_mut() { if let Some(sender) = u.quit_sender.take() { sender.send(..)?; } }`
// (HashMap::values_mut has no Verus specification): takes every user's kill channel, changes nothing else
#[verifier::external_body]
pub fn verif_die_signal_all(users: &mut HashMap<String, User>, killer: &String, message: &str) -> (r: Result<(), HErr>)
    ensures final(users)@.dom() == old(users)@.dom(),
        forall|n: String| old(users)@.contains_key(n) ==> user_same_except_quit_sender(#[trigger] final(users)@[n], old(users)@[n]),
{ unimplemented!() }

impl MainState {
//@fn state/rest_cmds.rs MainState::process_squit unit=oper2 props=C11,C05 rules=R1,R2
//@callargs process_die state
//@spec
        requires state_wf(*old(state)), conn_ok(*old(conn_state), *old(state)),
        ensures
            conn_same_but_stream(*final(conn_state), *old(conn_state)), // @prop C11
            !old(state).users@[my_nick(*old(conn_state))].modes.oper ==> vs_same(*final(state), *old(state)), // @prop C11
            state_wf(*final(state)), conn_ok(*final(conn_state), *final(state)), // @prop C04,C02
//@open
        broadcast use group_hash_axioms, bridge, string_eq;
//@end
}

// ===== CONTRACT: STATS is for (local) operators only (C11); the statistics themselves (chrono clock, const_table iteration, atomics) are an opaque region =====
impl MainState {
    // ASSUMED stand-in for the opaque region `match stat { 'u' => .., 'm' => .., _ => {} }` of process_stats: it only feeds replies
    #[verifier::external_body]
    pub async fn verif_stats_body(&self, stream: &mut BufferedLineStream, client: &str, stat: char) -> (r: Result<(), HErr>)
        ensures log_extends(old(stream).log(), final(stream).log()),
    { unimplemented!() }
//@fn state/srv_query_cmds.rs MainState::process_stats unit=oper2 props=C11,C05 rules=R1,R2
//@opaque ~match stat \{
                self.verif_stats_body(&mut conn_state.stream, client, stat).await?;
//@spec
        requires state_wf(*old(state)), conn_ok(*old(conn_state), *old(state)),
        ensures
            conn_same_but_stream(*final(conn_state), *old(conn_state)), // @prop C11
            *final(state) == *old(state), // @prop C11
            // everyone who is not a (local) operator gets the privilege error and nothing else happens
            server is None && !local_oper(old(state).users@[my_nick(*old(conn_state))].modes) ==> // @prop C11
                final(conn_state).stream.log() == old(conn_state).stream.log().push(fed(self.config.name@,
                    Reply::ErrNoPrivileges481 { client: str_of(client_name_spec(old(conn_state).user_state)) })),
            server is Some ==> final(conn_state).stream.log() == old(conn_state).stream.log().push(fed(self.config.name@, Reply::ErrUnknownError400 {
                client: str_of(client_name_spec(old(conn_state).user_state)), command: "STATS", subcommand: None, info: "Server unsupported" })), // @prop C11
//@open
        broadcast use group_hash_axioms, bridge;
//@end
}
