// ===== CONTRACTS: registration, ownership, teardown (C02, C03, C06, C15, C19) =====
pub open spec fn log_extends(old_log: Seq<FedItem>, new_log: Seq<FedItem>) -> bool {
    old_log.len() <= new_log.len() && forall|k: int| 0 <= k < old_log.len() ==> new_log[k] == old_log[k]
}

impl MainState {
//@fn state/srv_query_cmds.rs MainState::process_lusers unit=conn props=C19,C05 rules=R1,R2
//@spec
        requires state_wf(*old(state)),
        ensures
            conn_same_but_stream(*final(conn_state), *old(conn_state)), // @prop C19
            *final(state) == *old(state), // @prop C19
            // the numbers reported are the true cardinalities
            final(conn_state).stream.log().len() == old(conn_state).stream.log().len() + 7, // @prop C19
            ({ let cl = str_of(client_name_spec(old(conn_state).user_state)); let l0 = old(conn_state).stream.log().len() as int; let lg = final(conn_state).stream.log();
               &&& lg[l0] == fed(self.config.name@, Reply::RplLUserClient251 { client: cl, // @prop C19
                        users_num: (old(state).users@.len() - inv_set(old(state).users@).len()) as usize, inv_users_num: inv_set(old(state).users@).len() as usize, servers_num: 1 })
               &&& lg[l0 + 1] == fed(self.config.name@, Reply::RplLUserOp252 { client: cl, ops_num: opr_set(old(state).users@).len() as usize })
               &&& lg[l0 + 3] == fed(self.config.name@, Reply::RplLUserChannels254 { client: cl, channels_num: old(state).channels@.len() as usize })
               &&& lg[l0 + 4] == fed(self.config.name@, Reply::RplLUserMe255 { client: cl, clients_num: old(state).users@.len() as usize, servers_num: 1 })
               &&& lg[l0 + 5] == fed(self.config.name@, Reply::RplLocalUsers265 { client: cl, clients_num: old(state).users@.len() as usize, max_clients_num: old(state).max_users_count })
            }),
            log_extends(old(conn_state).stream.log(), final(conn_state).stream.log()), // @prop C19
//@open
        broadcast use group_hash_axioms, bridge;
        proof {
            old(state).users@.dom().lemma_len_filter(|n: String| old(state).users@[n].modes.invisible);
        }
//@end
//@fn state/srv_query_cmds.rs MainState::process_motd unit=conn props=C05 rules=R2
//@spec
        ensures
            conn_same_but_stream(*final(conn_state), *old(conn_state)), // @prop C05
            log_extends(old(conn_state).stream.log(), final(conn_state).stream.log()), // @prop C05
//@end
}

// nick!~user@host as the server composes it
pub open spec fn source_spec(u: ConnUserState) -> Seq<char> {
    (if u.nick is Some { u.nick->0@ + seq!['!'] } else { Seq::<char>::empty() })
    + (if u.name is Some { seq!['~'] + u.name->0@ } else { Seq::<char>::empty() })
    + seq!['@'] + u.hostname@
}
impl ConnUserState {
//@fn state/structs.rs ConnUserState::update_source unit=conn props=C01,C15
//@spec
        ensures final(self).source@ == source_spec(*old(self)), // @prop C01,C15
            *final(self) == (ConnUserState { source: final(self).source, ..*old(self) }), // @prop C15
//@end
//@fn state/structs.rs ConnUserState::set_name unit=conn props=C03
//@spec
        ensures final(self).name == Some(name), // @prop C03
            final(self).source@ == source_spec(ConnUserState { name: Some(name), ..*old(self) }), // @prop C01
            *final(self) == (ConnUserState { name: Some(name), source: final(self).source, ..*old(self) }), // @prop C03
//@end
//@fn state/structs.rs ConnUserState::set_nick unit=conn props=C15,C03
//@spec
        ensures final(self).nick == Some(nick), // @prop C15
            final(self).source@ == source_spec(ConnUserState { nick: Some(nick), ..*old(self) }), // @prop C01,C15
            *final(self) == (ConnUserState { nick: Some(nick), source: final(self).source, ..*old(self) }), // @prop C15
//@end
}
impl User {
//@fn state/structs.rs User::new unit=conn props=C11,C02,C03
//@spec
        requires user_state.name is Some, user_state.realname is Some,
        ensures
            r.sender == sender, r.quit_sender == Some(quit_sender), // @prop C02
            r.channels@ == Set::<String>::empty(), r.invited_to@ == Set::<String>::empty(), r.away is None, // @prop C02
            r.source == user_state.source, r.hostname == user_state.hostname, r.name == user_state.name->0, r.realname == user_state.realname->0, // @prop C02
            // privileges come from the configured default modes only
            r.modes == (UserModes { registered: config.default_user_modes.registered || user_state.registered, ..config.default_user_modes }), // @prop C11
//@open
        broadcast use group_hash_axioms;
//@end
}

// ---- registration ----
pub open spec fn mainstate_wf(m: MainState) -> bool {
    &&& (forall|n: String| m.user_config_idxs@.contains_key(n) ==> m.config.users is Some && (#[trigger] m.user_config_idxs@[n]) < m.config.users->0@.len())
    &&& (forall|n: String| m.oper_config_idxs@.contains_key(n) ==> m.config.operators is Some && (#[trigger] m.oper_config_idxs@[n]) < m.config.operators->0@.len())
}
// invariant of a connection that has not (yet) registered: it still holds both ends of its queue and owns no user
pub open spec fn conn_pre(k: ConnState, s: VolatileState) -> bool {
    &&& !k.user_state.authenticated
    &&& k.sender is Some && k.quit_sender is Some && k.ping_sender is Some
    &&& k.sender->0.id() == k.receiver.id()
    &&& (k.user_state.name is Some ==> k.user_state.realname is Some)
    &&& (forall|n: String| s.users@.contains_key(n) ==> (#[trigger] s.users@[n]).sender.id() != k.receiver.id())
}
pub open spec fn cfg_user(m: MainState, name: String) -> Option<UserConfig> {
    if m.user_config_idxs@.contains_key(name) && m.config.users is Some { Some(m.config.users->0@[m.user_config_idxs@[name] as int]) } else { None }
}
// the password that must have been supplied: the configured user's, else the server's (from the statement)
pub open spec fn required_hash(m: MainState, name: String) -> Option<String> {
    let cu = cfg_user(m, name);
    if cu is Some && cu->0.password is Some { cu->0.password } else { m.config.password }
}
pub open spec fn mask_ok(m: MainState, name: String, source: Seq<char>) -> bool {
    let cu = cfg_user(m, name);
    !(cu is Some && cu->0.mask is Some) || wild(cu->0.mask->0@, source)
}
pub open spec fn pwd_ok(m: MainState, name: String, password: Option<String>) -> bool {
    required_hash(m, name) is None || (password is Some && hash_ok(password->0@, required_hash(m, name)->0@))
}
pub open spec fn reg_ready(k: ConnState) -> bool { !k.caps_negotation && k.user_state.nick is Some && k.user_state.name is Some }
pub open spec fn reg_accept(m: MainState, k: ConnState, s: VolatileState) -> bool {
    &&& reg_ready(k)
    &&& mask_ok(m, k.user_state.name->0, k.user_state.source@)
    &&& pwd_ok(m, k.user_state.name->0, k.user_state.password)
    &&& !s.users@.contains_key(k.user_state.nick->0)
}
pub open spec fn conn_same_for_reg(a: ConnState, b: ConnState) -> bool {
    a.receiver == b.receiver && a.caps == b.caps && a.caps_negotation == b.caps_negotation && a.quit == b.quit
    && a.user_state.nick == b.user_state.nick && a.user_state.name == b.user_state.name && a.user_state.realname == b.user_state.realname
    && a.user_state.source == b.user_state.source && a.user_state.hostname == b.user_state.hostname && a.user_state.password == b.user_state.password
}
// effect of an accepted registration
pub open spec fn registered_post(m: MainState, ok: ConnState, nk: ConnState, o: VolatileState, n: VolatileState) -> bool {
    let nick = ok.user_state.nick->0;
    &&& nk.user_state.authenticated
    &&& n.users@ == o.users@.insert(nick, n.users@[nick])
    &&& n.users@[nick].sender.id() == ok.receiver.id()
    &&& n.users@[nick].channels@ == Set::<String>::empty()
    &&& n.users@[nick].source == ok.user_state.source
    &&& n.users@[nick].modes == (UserModes { registered: m.config.default_user_modes.registered || cfg_user(m, ok.user_state.name->0) is Some, ..m.config.default_user_modes })
    &&& n.channels == o.channels && n.nick_histories == o.nick_histories && n.quit_sender == o.quit_sender && n.quit_receiver == o.quit_receiver
    &&& state_wf(n)
    &&& conn_ok(nk, n)
}

impl ConnState {
    // ASSUMED stub (tokio::spawn of the ping task; C17 is not applicable): consumes ping_sender, panics if it is gone
    #[verifier::external_body]
    pub fn run_ping_waker(&mut self, config: &MainConfig)
        requires old(self).ping_sender is Some
        ensures *final(self) == (ConnState { ping_sender: None, ..*old(self) })
    { unimplemented!() }
}
impl MainState {
    // ASSUMED (status A): builds the 005 token lines with closures / chunks / join; appends lines, changes nothing else
    #[verifier::external_body]
    pub async fn send_isupport(&self, conn_state: &mut ConnState) -> (r: Result<(), HErr>)
        ensures conn_same_but_stream(*final(conn_state), *old(conn_state)), final(conn_state).ping_sender == old(conn_state).ping_sender,
            log_extends(old(conn_state).stream.log(), final(conn_state).stream.log()), r is Ok
    { unimplemented!() }

//@fn state/conn_cmds.rs MainState::authenticate unit=conn props=C02,C03,C05,C11 rules=R1,R2,R6q
//@callargs process_lusers state
//@spec
        requires
            mainstate_wf(*self),
            state_wf(*old(state)),
            conn_pre(*old(conn_state), *old(state)),
        ensures
            conn_same_for_reg(*final(conn_state), *old(conn_state)), // @prop C02
            log_extends(old(conn_state).stream.log(), final(conn_state).stream.log()), // @prop C03
            // registration completes exactly when everything the statement lists holds
            r is Ok ==> (final(conn_state).user_state.authenticated <==> reg_accept(*self, *old(conn_state), *old(state))), // @prop C03,C02
            final(conn_state).user_state.authenticated ==> reg_accept(*self, *old(conn_state), *old(state)) // @prop C02,C03
                && registered_post(*self, *old(conn_state), *final(conn_state), *old(state), *final(state)),
            // a refused or incomplete registration creates no user and leaves the connection a proper unregistered one
            !final(conn_state).user_state.authenticated ==> vs_same(*final(state), *old(state)) // @prop C02,C03
                && conn_pre(*final(conn_state), *final(state)),
            // wrong or missing password: the connection is told 464 and flagged to close
            reg_ready(*old(conn_state)) && mask_ok(*self, old(conn_state).user_state.name->0, old(conn_state).user_state.source@) // @prop C03
                && !pwd_ok(*self, old(conn_state).user_state.name->0, old(conn_state).user_state.password) ==>
                final(sig).quit == 1 && final(conn_state).stream.log() == old(conn_state).stream.log().push(
                    fed(self.config.name@, Reply::ErrPasswdMismatch464 { client: str_of(client_name_spec(old(conn_state).user_state)) })),
            sym(*final(state)), // @prop C04,C05
            chans_wf(*final(state)), // @prop C04,C08
            no_empty_chan(*final(state)), // @prop C16
            wallops_wf(*final(state)), // @prop C11,C06,C05
            counters_wf(*final(state)), // @prop C19
            senders_distinct(*final(state)), // @prop C02,C01
//@open
        broadcast use group_hash_axioms, bridge;
//@end
}

// ---- teardown (C06, C02) ----
impl MainState {
//@fn state/mod.rs MainState::remove_user unit=conn props=C06,C02 rules=R1
//@spec
        requires
            state_wf(*old(state)),
            conn_state.user_state.authenticated ==> conn_ok(*conn_state, *old(state)),
        ensures
            // a connection that never registered has no effect on any registered user
            !conn_state.user_state.authenticated ==> vs_same(*final(state), *old(state)), // @prop C02,C06
            // a registered connection removes exactly its own user, completely
            conn_state.user_state.authenticated ==> ({ // @prop C06
                let nk = my_nick(*conn_state);
                &&& final(state).users@ == old(state).users@.remove(nk)
                &&& (forall|c: String| post_chan(old(state).channels@, final(state).channels@, c, nk))
                &&& final(state).wallops_users@ == old(state).wallops_users@.remove(nk)
                &&& final(state).nick_histories@.contains_key(nk)
                &&& final(state).nick_histories@[nk]@.last() == old(state).users@[nk].history_entry
            }),
            sym(*final(state)), // @prop C04,C05
            chans_wf(*final(state)), // @prop C04,C08
            no_empty_chan(*final(state)), // @prop C16
            wallops_wf(*final(state)), // @prop C11,C06,C05
            counters_wf(*final(state)), // @prop C19
            senders_distinct(*final(state)), // @prop C02,C01
//@open
        broadcast use group_hash_axioms, bridge;
//@end

//@fn state/conn_cmds.rs MainState::process_quit unit=conn props=C06,C05 rules=R2,R6q
//@spec
        ensures
            final(sig).quit == 1, // @prop C06
            conn_same_but_stream(*final(conn_state), *old(conn_state)), // @prop C06
//@end

//@fn state/conn_cmds.rs MainState::process_pass unit=conn props=C03,C02 rules=R2,R6q
//@sigadd state: &mut VolatileState
//@callargs authenticate state,+Tracked(sig)
//@spec
        requires
            mainstate_wf(*self), state_wf(*old(state)),
            !old(conn_state).user_state.authenticated ==> conn_pre(*old(conn_state), *old(state)),
            old(conn_state).user_state.authenticated ==> conn_ok(*old(conn_state), *old(state)),
        ensures
            sym(*final(state)), // @prop C04,C05
            chans_wf(*final(state)), // @prop C04,C08
            no_empty_chan(*final(state)), // @prop C16
            wallops_wf(*final(state)), // @prop C11,C06,C05
            counters_wf(*final(state)), // @prop C19
            senders_distinct(*final(state)), // @prop C02,C01
            old(conn_state).user_state.authenticated ==> *final(state) == *old(state) && conn_same_but_stream(*final(conn_state), *old(conn_state)), // @prop C02
            final(conn_state).user_state.authenticated && !old(conn_state).user_state.authenticated ==> // @prop C03,C02
                reg_accept(*self, ConnState { user_state: ConnUserState { password: Some(sk(pass)), ..old(conn_state).user_state }, ..*old(conn_state) }, *old(state))
                && conn_ok(*final(conn_state), *final(state)),
            !final(conn_state).user_state.authenticated ==> vs_same(*final(state), *old(state)) && conn_pre(*final(conn_state), *final(state)), // @prop C02
//@open
        broadcast use group_hash_axioms, bridge;
//@end

//@fn state/conn_cmds.rs MainState::process_user unit=conn props=C03,C02 rules=R2,R6q,R11
//@sigadd state: &mut VolatileState
//@callargs authenticate state,+Tracked(sig)
//@spec
        requires
            mainstate_wf(*self), state_wf(*old(state)),
            !old(conn_state).user_state.authenticated ==> conn_pre(*old(conn_state), *old(state)),
            old(conn_state).user_state.authenticated ==> conn_ok(*old(conn_state), *old(state)),
        ensures
            sym(*final(state)), // @prop C04,C05
            chans_wf(*final(state)), // @prop C04,C08
            no_empty_chan(*final(state)), // @prop C16
            wallops_wf(*final(state)), // @prop C11,C06,C05
            counters_wf(*final(state)), // @prop C19
            senders_distinct(*final(state)), // @prop C02,C01
            old(conn_state).user_state.authenticated ==> *final(state) == *old(state) && conn_same_but_stream(*final(conn_state), *old(conn_state)), // @prop C02
            final(conn_state).user_state.authenticated && !old(conn_state).user_state.authenticated ==> conn_ok(*final(conn_state), *final(state)), // @prop C03,C02
            !final(conn_state).user_state.authenticated ==> vs_same(*final(state), *old(state)) && conn_pre(*final(conn_state), *final(state)), // @prop C02
//@open
        broadcast use group_hash_axioms, bridge;
//@end
}

// ---- CAP negotiation (C03) ----
//@type command.rs enum CapCommand
impl CapState {
//@fn state/structs.rs CapState::apply_cap unit=conn props=C03
//@spec
        ensures r ==> final(self).multi_prefix, !r ==> *final(self) == *old(self), // @prop C03
//@end
}
// ASSUMED stand-in for `cs.iter().all(|c| new_caps.apply_cap(c))` (closure mutating its capture): applies the capabilities in order
#[verifier::external_body]
pub fn verif_apply_all_caps(caps: &mut CapState, cs: &Vec<&str>) -> (r: bool) { unimplemented!() }
// ASSUMED stand-in for `cs.join(" ")`
#[verifier::external_body]
pub fn verif_join_space(cs: &Vec<&str>) -> (r: String) { unimplemented!() }
pub broadcast axiom fn ax_display_capstate(e: CapState, f: &std::fmt::Formatter<'_>)
    ensures #[trigger] <CapState as DisplaySpec>::fmt_req(&e, f);

impl MainState {
//@fn state/conn_cmds.rs MainState::process_cap unit=conn props=C03,C05,C02,C06 rules=R1,R2,R3,R6q,R11
//@replace ~|cs\.iter\(\)\.all\(\|c\| new_caps\.apply_cap\(c\)\)| => verif_apply_all_caps(&mut new_caps, cs)
//@replace ~|cs\.join\(" "\)| => verif_join_space(cs)
//@callargs authenticate state,+Tracked(sig)
//@spec
        requires
            mainstate_wf(*self), state_wf(*old(state)),
            !old(conn_state).user_state.authenticated ==> conn_pre(*old(conn_state), *old(state)),
            old(conn_state).user_state.authenticated ==> conn_ok(*old(conn_state), *old(state)),
        ensures
            // CAP LS / CAP REQ open the negotiation: registration cannot complete until CAP END
            (subcommand is LS || subcommand is REQ) ==> final(conn_state).caps_negotation && vs_same(*final(state), *old(state)) // @prop C03
                && final(conn_state).user_state == old(conn_state).user_state,
            subcommand is LIST ==> conn_same_but_stream(*final(conn_state), *old(conn_state)) && vs_same(*final(state), *old(state)), // @prop C03
            // CAP END closes it and tries to complete the registration
            subcommand is END ==> !final(conn_state).caps_negotation, // @prop C03
            subcommand is END && old(conn_state).user_state.authenticated ==> vs_same(*final(state), *old(state)), // @prop C02
            !final(conn_state).user_state.authenticated ==> vs_same(*final(state), *old(state)) && conn_pre(*final(conn_state), *final(state)), // @prop C02,C03
            final(conn_state).user_state.authenticated && !old(conn_state).user_state.authenticated ==> conn_ok(*final(conn_state), *final(state)) && subcommand is END, // @prop C03
            // a registered connection stays registered and linked to its user
            old(conn_state).user_state.authenticated ==> final(conn_state).user_state.authenticated && conn_ok(*final(conn_state), *final(state)), // @prop C02,C06
            sym(*final(state)), // @prop C04,C05
            chans_wf(*final(state)), // @prop C04,C08
            no_empty_chan(*final(state)), // @prop C16
            wallops_wf(*final(state)), // @prop C11,C06,C05
            counters_wf(*final(state)), // @prop C19
            senders_distinct(*final(state)), // @prop C02,C01
//@open
        broadcast use group_hash_axioms, bridge, ax_display_capstate;
        proof {
            assert forall|n: VolatileState| #![trigger state_wf(n)] #![trigger sym(n)] #![trigger chans_wf(n)] #![trigger no_empty_chan(n)] #![trigger wallops_wf(n)] #![trigger counters_wf(n)] #![trigger senders_distinct(n)]
                vs_same(n, *old(state)) implies state_wf(n) by { lemma_vs_same_wf(*old(state), n); }
        }
//@end
}
