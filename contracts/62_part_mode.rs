// ===== CONTRACTS: PART (C04) and the MODE dispatcher (C11, C08) =====
pub open spec fn listed_ch(cs: Seq<&str>, c: String) -> bool { exists|i: int| 0 <= i < cs.len() && sk(#[trigger] cs[i]) == c }
pub open spec fn parted(o: VolatileState, me: String, cs: Seq<&str>, c: String) -> bool { listed_ch(cs, c) && member(o, me, c) }
// the user leaves exactly the listed channels it is on (completely: roster and rank lists); nothing else moves
pub open spec fn part_post(o: VolatileState, n: VolatileState, me: String, cs: Seq<&str>) -> bool {
    &&& n.wallops_users == o.wallops_users && n.invisible_users_count == o.invisible_users_count && n.operators_count == o.operators_count
    &&& n.max_users_count == o.max_users_count && n.nick_histories == o.nick_histories && n.quit_sender == o.quit_sender && n.quit_receiver == o.quit_receiver
    &&& n.users@.dom() == o.users@.dom()
    &&& (forall|u: String| u != me && o.users@.contains_key(u) ==> #[trigger] n.users@[u] == o.users@[u])
    &&& n.users@[me].modes == o.users@[me].modes && n.users@[me].sender == o.users@[me].sender && n.users@[me].invited_to == o.users@[me].invited_to
            && n.users@[me].away == o.users@[me].away && n.users@[me].source == o.users@[me].source
    &&& (forall|c: String| #[trigger] n.users@[me].channels@.contains(c) <==> (o.users@[me].channels@.contains(c) && !parted(o, me, cs, c)))
    &&& (forall|c: String| !parted(o, me, cs, c) ==>
            ((#[trigger] n.channels@.contains_key(c)) <==> o.channels@.contains_key(c)) && (o.channels@.contains_key(c) ==> n.channels@[c] == o.channels@[c]))
    &&& (forall|c: String| #[trigger] parted(o, me, cs, c) ==> post_chan(o.channels@, n.channels@, c, me))
}
// ---- the announcement of a PART (C04: "announced to all members of the channel, the departing user included") ----
#[verifier::opaque]
pub open spec fn part_line(src: Seq<char>, channel: Seq<char>, reason: Option<&str>) -> Seq<char> {
    seq![':'] + src + seq![' '] + (if reason is Some { "PART "@ + channel + " :"@ + reason->0@ } else { "PART "@ + channel })
}
pub proof fn lemma_part_line(src: Seq<char>, channel: &&str, reason: Option<&str>, msg: &str)
    requires reason is Some ==> msg@ == "PART "@ + dv::<&&&str>(&channel) + " :"@ + dv::<&&str>(&(reason->0)),
             reason is None ==> msg@ == "PART "@ + dv::<&&&str>(&channel),
    ensures disp::<&str>(src, msg) == part_line(src, channel@, reason),
{
    broadcast use display_text;
    reveal(part_line);
    assert(dv::<&&&str>(&channel) == channel@);
    if reason is Some { assert(dv::<&&str>(&(reason->0)) == (reason->0)@); }
}
// step k of the channel list: if the user is (still) on that channel every member, the leaver included, gets the PART line once; else nobody gets anything
pub open spec fn part_announce_step(o: VolatileState, me: String, cs: Seq<&str>, k: int, src: Seq<char>, reason: Option<&str>,
        before: Seq<(int, Seq<char>)>, after: Seq<(int, Seq<char>)>) -> bool {
    let c = sk(cs[k]);
    if member(o, me, c) && !parted(o, me, cs.take(k), c) {
        delivered_to_members(before, after, o, o.channels@[c].users@.dom(), part_line(src, cs[k]@, reason))
    } else { after == before }
}
pub open spec fn part_announced(o: VolatileState, me: String, cs: Seq<&str>, n: int, src: Seq<char>, reason: Option<&str>, logs: Seq<Seq<(int, Seq<char>)>>) -> bool {
    &&& logs.len() == n + 1
    &&& forall|k: int| 0 <= k < n ==> #[trigger] part_announce_step(o, me, cs, k, src, reason, logs[k], logs[k + 1])
}
// leaving one channel keeps the state well formed (proved via the KICK lemma)
pub proof fn lemma_leave_wf(a: VolatileState, b: VolatileState, c: String, nick: String)
    requires state_wf(a), rufc_step(a, b, c, nick), member(a, nick, c), a.users@.contains_key(nick)
    ensures state_wf(b)
{
    let gone = |v: String| v == nick;
    let ac = a.channels@[c];
    assert(kick_post(a, b, c, gone)) by {
        assert(post_chan(a.channels@, b.channels@, c, nick));
        if ac.users@.remove(nick).len() == 0 && !ac.preconfigured {
            assert(!b.channels@.contains_key(c));
            assert forall|m: String| ac.users@.contains_key(m) implies gone(m) by {
                if m != nick { assert(ac.users@.remove(nick).contains_key(m)); assert(ac.users@.remove(nick).dom().contains(m));
                    assert(ac.users@.remove(nick).dom().len() == 0); assert(ac.users@.remove(nick).dom() =~= Set::<String>::empty()); }
            }
        } else {
            assert(b.channels@.contains_key(c) && chan_after_leave(ac, b.channels@[c], nick));
            assert(chan_minus(ac, b.channels@[c], gone));
            if (forall|m: String| ac.users@.contains_key(m) ==> gone(m)) && !ac.preconfigured {
                assert(ac.users@.remove(nick).dom() =~= Set::<String>::empty()) by {
                    assert forall|m: String| !ac.users@.remove(nick).dom().contains(m) by { if ac.users@.contains_key(m) && m != nick { assert(gone(m)); } }
                }
                assert(false);
            }
        }
    }
    assert forall|v: String| #[trigger] gone(v) implies member(a, v, c) by { }
    lemma_kick_wf(a, b, c, gone);
}
pub open spec fn chan_replaced(o: VolatileState, n: VolatileState, c: String) -> bool {
    &&& o.channels@.contains_key(c) && n.users@ == o.users@ && state_rest_same(o, n)
    &&& n.channels@.dom() =~= o.channels@.dom()
    &&& (forall|d: String| d != c && o.channels@.contains_key(d) ==> #[trigger] n.channels@[d] == o.channels@[d])
    &&& n.channels@[c].users@.dom() == o.channels@[c].users@.dom() && n.channels@[c].preconfigured == o.channels@[c].preconfigured
    &&& chan_wf(n.channels@[c])
}
// replacing one channel by one with the same member set and consistent rank lists keeps the state well formed (proved)
pub proof fn lemma_chan_replace_wf(o: VolatileState, n: VolatileState, c: String)
    requires state_wf(o), chan_replaced(o, n, c),
    ensures state_wf(n)
{
    assert forall|u: String, d: String| #![trigger n.users@[u].channels@.contains(d)] #![trigger member(n, u, d)]
        (n.users@.contains_key(u) && n.users@[u].channels@.contains(d)) <==> member(n, u, d) by {
        assert((o.users@.contains_key(u) && o.users@[u].channels@.contains(d)) <==> member(o, u, d));
        if d == c { assert(n.channels@[c].users@.dom().contains(u) == o.channels@[c].users@.dom().contains(u)); }
    }
    assert(sym(n));
    assert(chans_wf(n)) by {
        assert forall|d: String| n.channels@.contains_key(d) implies chan_wf(#[trigger] n.channels@[d]) by { assert(chan_wf(o.channels@[d])); }
    }
    assert(no_empty_chan(n)) by {
        assert forall|d: String| n.channels@.contains_key(d) && !(#[trigger] n.channels@[d]).preconfigured implies n.channels@[d].users@.len() > 0 by {
            assert(!o.channels@[d].preconfigured ==> o.channels@[d].users@.len() > 0);
            if d == c { assert(n.channels@[c].users@.dom().len() == o.channels@[c].users@.dom().len()); }
        }
    }
    assert(wallops_wf(n)) by {
        assert forall|u: String| #[trigger] n.wallops_users@.contains(u) <==> (n.users@.contains_key(u) && n.users@[u].modes.wallops) by {
            assert(o.wallops_users@.contains(u) <==> (o.users@.contains_key(u) && o.users@[u].modes.wallops));
        }
    }
}

pub proof fn lemma_vs_same_wf(o: VolatileState, n: VolatileState)
    requires state_wf(o), vs_same(n, o)
    ensures state_wf(n)
{
    assert forall|u: String, d: String| #![trigger n.users@[u].channels@.contains(d)] #![trigger member(n, u, d)]
        (n.users@.contains_key(u) && n.users@[u].channels@.contains(d)) <==> member(n, u, d) by {
        assert((o.users@.contains_key(u) && o.users@[u].channels@.contains(d)) <==> member(o, u, d));
    }
    assert(sym(n));
    assert(chans_wf(n)) by { assert forall|d: String| n.channels@.contains_key(d) implies chan_wf(#[trigger] n.channels@[d]) by { assert(chan_wf(o.channels@[d])); } }
    assert(no_empty_chan(n)) by {
        assert forall|d: String| n.channels@.contains_key(d) && !(#[trigger] n.channels@[d]).preconfigured implies n.channels@[d].users@.len() > 0 by {
            assert(!o.channels@[d].preconfigured ==> o.channels@[d].users@.len() > 0); }
    }
    assert(wallops_wf(n)) by {
        assert forall|u: String| #[trigger] n.wallops_users@.contains(u) <==> (n.users@.contains_key(u) && n.users@[u].modes.wallops) by {
            assert(o.wallops_users@.contains(u) <==> (o.users@.contains_key(u) && o.users@[u].modes.wallops)); }
    }
}

impl MainState {
//@fn state/srv_query_cmds.rs MainState::process_mode unit=partmode props=C11,C08,C05 rules=R1,R2
//@callargs process_mode_channel +Tracked(outbox)
//@sigadd Tracked(outbox): Tracked<&mut Outbox>
//@spec
        requires
            state_wf(*old(state)), conn_ok(*old(conn_state), *old(state)),
            // what Command::validate guarantees: the arguments of a CHANNEL mode request fit its letters (a user mode request takes none)
            is_channel_name(target@) ==> all_mode_args_ok(modes@),
        ensures
            conn_same_but_stream(*final(conn_state), *old(conn_state)), // @prop C11
            // no user can change another user's modes: a MODE on somebody else's nickname changes nothing
            !is_channel_name(target@) && sk(target) != my_nick(*old(conn_state)) ==> *final(state) == *old(state), // @prop C11
            // outsiders and unknown channels: 442 / 403 and nothing changes
            is_channel_name(target@) && !member(*old(state), my_nick(*old(conn_state)), sk(target)) ==> vs_same(*final(state), *old(state)), // @prop C08
            is_channel_name(target@) && !old(state).channels@.contains_key(sk(target)) ==> // @prop C08
                final(conn_state).stream.log() == old(conn_state).stream.log().push(fed(self.config.name@,
                    Reply::ErrNoSuchChannel403 { client: str_of(client_name_spec(old(conn_state).user_state)), channel: target })),
            is_channel_name(target@) && old(state).channels@.contains_key(sk(target)) && !member(*old(state), my_nick(*old(conn_state)), sk(target)) ==> // @prop C08
                final(conn_state).stream.log() == old(conn_state).stream.log().push(fed(self.config.name@,
                    Reply::ErrNotOnChannel442 { client: str_of(client_name_spec(old(conn_state).user_state)), channel: target })),
            // a member's MODE: only that channel can change, within the privilege matrix of the actor's rank
            is_channel_name(target@) && member(*old(state), my_nick(*old(conn_state)), sk(target)) ==> ({ // @prop C08
                let c = sk(target);
                &&& final(state).users == old(state).users && state_rest_same(*old(state), *final(state))
                &&& final(state).channels@.dom() == old(state).channels@.dom()
                &&& (forall|d: String| d != c && old(state).channels@.contains_key(d) ==> #[trigger] final(state).channels@[d] == old(state).channels@[d])
                &&& mode_frame(old(state).channels@[c], final(state).channels@[c], old(state).channels@[c].users@[my_nick(*old(conn_state))])
                &&& chan_wf(final(state).channels@[c])
            }),
            sym(*final(state)), // @prop C04,C05
            chans_wf(*final(state)), // @prop C04,C08
            no_empty_chan(*final(state)), // @prop C16
            wallops_wf(*final(state)), // @prop C11,C06,C05
            counters_wf(*final(state)), // @prop C19
            senders_distinct(*final(state)), // @prop C02,C01
            conn_ok(*final(conn_state), *final(state)), // @prop C02
//@open
        broadcast use group_hash_axioms, bridge, string_eq;
        let ghost o = *old(state);
        let ghost me = my_nick(*conn_state);
        proof {
            assert forall|n: VolatileState| #![trigger state_wf(n)] #![trigger sym(n)] #![trigger chans_wf(n)] #![trigger no_empty_chan(n)] #![trigger wallops_wf(n)] #![trigger counters_wf(n)] #![trigger senders_distinct(n)]
                chan_replaced(o, n, sk(target)) implies state_wf(n) by { lemma_chan_replace_wf(o, n, sk(target)); }
            assert forall|n: VolatileState| #![trigger state_wf(n)] #![trigger sym(n)] #![trigger chans_wf(n)] #![trigger no_empty_chan(n)] #![trigger wallops_wf(n)] #![trigger counters_wf(n)] #![trigger senders_distinct(n)]
                vs_same(n, o) implies state_wf(n) by { lemma_vs_same_wf(o, n); }
        }
//@before ~self\.process_mode_channel\(
                    proof {
                        assert(*chanobj == o.channels@[sk(target)]);
                        assert forall|n: String| chanobj.users@.contains_key(n) implies state.users@.contains_key(n) by {
                            assert(member(o, n, sk(target)));
                        }
                        assert(chan_wf(o.channels@[sk(target)]));
                    }
//@close
        proof {
            if o.channels@.contains_key(sk(target)) && state.channels@.contains_key(sk(target)) && state.channels@[sk(target)] == o.channels@[sk(target)] {
                assert(state.channels@ =~= o.channels@);
            }
            assert(state.channels@.dom() =~= o.channels@.dom());
        }
//@end
}

impl MainState {
//@fn state/channel_cmds.rs MainState::process_part unit=partmode props=C04,C05,C16 rules=R1,R2,R6,R14,R23
//@attr #[verifier::loop_isolation(false)]
//@ascribe removed_from Vec<bool>
//@spec
        requires state_wf(*old(state)), conn_ok(*old(conn_state), *old(state)),
        ensures
            conn_same_but_stream(*final(conn_state), *old(conn_state)), // @prop C04
            r is Ok ==> part_post(*old(state), *final(state), my_nick(*old(conn_state)), channels@), // @prop C04,C16
            // every departure is announced to all members of that channel, the leaver included, one copy each; nothing else is sent
            r is Ok ==> exists|logs: Seq<Seq<(int, Seq<char>)>>|
                #![trigger part_announced(*old(state), my_nick(*old(conn_state)), channels@, channels@.len() as int, old(conn_state).user_state.source@, reason, logs)]
                part_announced(*old(state), my_nick(*old(conn_state)), channels@, channels@.len() as int, old(conn_state).user_state.source@, reason, logs)
                && logs[0] == old(outbox).log && logs[channels@.len() as int] == final(outbox).log, // @prop C04
            sym(*final(state)), // @prop C04,C05
            chans_wf(*final(state)), // @prop C04,C08
            no_empty_chan(*final(state)), // @prop C16
            wallops_wf(*final(state)), // @prop C11,C06,C05
            counters_wf(*final(state)), // @prop C19
            senders_distinct(*final(state)), // @prop C02,C01
            conn_ok(*final(conn_state), *final(state)), // @prop C04
//@open
        broadcast use group_hash_axioms, bridge, string_eq, lemma_cover_is_exact;
        let ghost o = *old(state);
        let ghost me = my_nick(*conn_state);
        let ghost cs = channels@;
        let ghost src = conn_state.user_state.source@;
        let ghost mut logs: Seq<Seq<(int, Seq<char>)>> = seq![outbox.log];
//@loop ~for channel in channels\.iter\(\) iter=it1
                invariant
                    src == old(conn_state).user_state.source@,
                    part_announced(o, me, cs, it1.index@ as int, src, reason, logs), // @prop C04
                    logs[0] == old(outbox).log, logs[it1.index@ as int] == outbox.log, // @prop C04
                    conn_same_but_stream(*conn_state, *old(conn_state)), // @prop C04
                    it1.seq().len() == cs.len(),
                    forall|k: int| 0 <= k < it1.seq().len() ==> it1.seq()[k] == &cs[k],
                    user_nick == me,
                    state_wf(*state), // @prop C04
                    state.users@.contains_key(me),
                    part_post(o, *state, me, cs.take(it1.index@ as int)), // @prop C04,C16
//@after ~for channel in channels\.iter\(\)
                let ghost k = it1.index@ as int;
                let ghost pre = *state;
                let ghost ck = sk(cs[k]);
                let ghost log_a = outbox.log;
                let ghost mut order: Seq<String> = Seq::empty();
                proof {
                    assert(channel == &cs[k]);
                    assert forall|n: VolatileState| #![trigger state_wf(n)] #![trigger sym(n)] #![trigger chans_wf(n)] #![trigger no_empty_chan(n)] #![trigger wallops_wf(n)] #![trigger counters_wf(n)] #![trigger senders_distinct(n)]
                        vs_same(n, pre) implies state_wf(n) by { lemma_vs_same_wf(pre, n); }
                    assert forall|n: VolatileState| #![trigger state_wf(n)] #![trigger sym(n)] #![trigger chans_wf(n)] #![trigger no_empty_chan(n)] #![trigger wallops_wf(n)] #![trigger counters_wf(n)] #![trigger senders_distinct(n)]
                        pre.channels@.contains_key(ck) && n.channels@ == pre.channels@.insert(ck, pre.channels@[ck]) && n.users@ == pre.users@ && n.wallops_users@ == pre.wallops_users@
                        && n.invisible_users_count == pre.invisible_users_count && n.operators_count == pre.operators_count && n.max_users_count == pre.max_users_count
                        && n.nick_histories@ == pre.nick_histories@ && n.quit_sender == pre.quit_sender && n.quit_receiver == pre.quit_receiver
                        implies state_wf(n) by {
                        assert(n.channels@ =~= pre.channels@);
                        lemma_vs_same_wf(pre, n);
                    }
                }
//@endloop ~for channel in channels\.iter\(\)
                proof {
                    // the announcement step of this channel name
                    assert(part_announce_step(o, me, cs, k, src, reason, log_a, outbox.log)) by { // @prop C04
                        if !(pre.channels@.contains_key(ck) && pre.channels@[ck].users@.contains_key(me)) {
                            assert(outbox.log == log_a);
                            if member(o, me, ck) && !parted(o, me, cs.take(k), ck) { assert(pre.channels@[ck] == o.channels@[ck]); assert(false); }
                        }
                    }
                    let logs0 = logs;
                    logs = logs0.push(outbox.log);
                    assert forall|q: int| 0 <= q < k + 1 implies #[trigger] part_announce_step(o, me, cs, q, src, reason, logs[q], logs[q + 1]) by {
                        if q < k { assert(part_announce_step(o, me, cs, q, src, reason, logs0[q], logs0[q + 1])); }
                    }
                }
                proof {
                    let c0 = cs.take(k); let c1 = cs.take(k + 1);
                    assert forall|c: String| listed_ch(c1, c) <==> (listed_ch(c0, c) || c == ck) by {
                        if listed_ch(c0, c) { let i = choose|i: int| 0 <= i < c0.len() && sk(#[trigger] c0[i]) == c; assert(sk(c1[i]) == c); }
                        if c == ck { assert(sk(c1[k]) == c); }
                        if listed_ch(c1, c) { let i = choose|i: int| 0 <= i < c1.len() && sk(#[trigger] c1[i]) == c; if i < k { assert(sk(c0[i]) == c); } }
                    }
                    if pre.channels@.contains_key(ck) && pre.channels@[ck].users@.contains_key(me) {
                        // left now: ck was not parted before (the user was still a member of it)
                        assert(member(pre, me, ck));
                        assert(!parted(o, me, c0, ck)) by { if parted(o, me, c0, ck) { assert(post_chan(o.channels@, pre.channels@, ck, me)); } }
                        assert(member(o, me, ck));
                        assert(rufc_step(pre, *state, ck, me));
                        lemma_leave_wf(pre, *state, ck, me);
                        assert(pre.channels@[ck] == o.channels@[ck]);
                    } else {
                        assert(state.channels@ =~= pre.channels@);
                        assert(vs_same(*state, pre));
                        // not a member (any more): either never was, or already parted
                        if member(o, me, ck) && !parted(o, me, c0, ck) { assert(pre.channels@[ck] == o.channels@[ck]); assert(false); }
                    }
                    assert forall|c: String| #[trigger] parted(o, me, c1, c) implies post_chan(o.channels@, state.channels@, c, me) by {
                        if c == ck && !parted(o, me, c0, ck) {
                            // left in this step
                            assert(pre.channels@[ck] == o.channels@[ck]);
                            assert(post_chan(pre.channels@, state.channels@, ck, me));
                        } else {
                            assert(parted(o, me, c0, c));
                            assert(post_chan(o.channels@, pre.channels@, c, me));
                            if c != ck { assert(state.channels@.contains_key(c) <==> pre.channels@.contains_key(c)); if pre.channels@.contains_key(c) { assert(state.channels@[c] == pre.channels@[c]); } }
                        }
                    }
                    assert(part_post(o, *state, me, c1));
                }
//@before ~for nick in chanobj\.users\.keys\(\)
                    let ghost line = part_line(src, cs[k]@, reason);
                    proof {
                        assert(reason is Some ==> part_msg@ == "PART "@ + dv::<&&&str>(&channel) + " :"@ + dv::<&&str>(&(reason->0))) by { // @prop C04,C13
                            reveal(fmt2_text); reveal_strlit(""); assert(""@ =~= Seq::<char>::empty());
                            if reason is Some { assert(part_msg@ =~= "PART "@ + dv::<&&&str>(&channel) + " :"@ + dv::<&&str>(&(reason->0))); } // @prop C04,C13
                        }
                        assert(reason is None ==> part_msg@ == "PART "@ + dv::<&&&str>(&channel)) by { // @prop C04,C13
                            reveal(fmt1_text); reveal_strlit(""); assert(""@ =~= Seq::<char>::empty());
                            if reason is None { assert(part_msg@ =~= "PART "@ + dv::<&&&str>(&channel)); } // @prop C04,C13
                        }
                        lemma_part_line(src, channel, reason, str_of(part_msg@));
                        assert(channel@ == cs[k]@);
                    }
//@loop ~for nick in chanobj\.users\.keys\(\) iter=it2
                        invariant
                            state.users@ == pre.users@, state_wf(pre),
                            pre.channels@.contains_key(ck), chanobj.users@ == pre.channels@[ck].users@,
                            it2.seq().no_duplicates(), it2.seq().len() == chanobj.users@.dom().len(),
                            forall|q: String| chanobj.users@.dom().contains(q) ==> exists|i: int| 0 <= i < it2.seq().len() && *#[trigger] it2.seq()[i] == q,
                            order.len() == it2.index@,
                            order.no_duplicates(),
                            forall|a: int, l: int| #![trigger order[a], it2.seq()[l]] 0 <= a < order.len() && order.len() <= l < it2.seq().len() ==> order[a] != *it2.seq()[l],
                            forall|i: int| 0 <= i < order.len() ==> chanobj.users@.dom().contains(#[trigger] order[i]),
                            forall|a: int| 0 <= a < it2.index@ ==> order[a] == *#[trigger] it2.seq()[a],
                            line == disp::<&str>(src, str_of(part_msg@)),
                            outbox.log == log_a + order.map_values(|n: String| (pre.users@[n].sender.id(), line)), // @prop C04
//@after ~for nick in chanobj\.users\.keys\(\)
                        proof { assert(chanobj.users@.dom().contains(*nick)); assert(member(pre, *nick, ck)); }
//@endloop ~for nick in chanobj\.users\.keys\(\)
                        proof {
                            assert forall|a: int| 0 <= a < order.len() implies order[a] != *nick by { }
                            let f = |n: String| (pre.users@[n].sender.id(), line);
                            assert(order.push(*nick).map_values(f) =~= order.map_values(f).push(f(*nick)));
                            order = order.push(*nick);
                        }
//@afterloop ~for nick in chanobj\.users\.keys\(\)
                    proof {
                        assert(order.len() == chanobj.users@.dom().len());
                        lemma_nodup_subset_full(order, chanobj.users@.dom());
                        // same members and the same queues as in the state the command started from
                        assert(member(pre, me, ck));
                        assert(!parted(o, me, cs.take(k), ck)) by { if parted(o, me, cs.take(k), ck) { assert(post_chan(o.channels@, pre.channels@, ck, me)); } }
                        assert(pre.channels@[ck] == o.channels@[ck]);
                        let f_pre = |n: String| (pre.users@[n].sender.id(), line);
                        let f_o = |n: String| (o.users@[n].sender.id(), line);
                        assert(order.map_values(f_pre) =~= order.map_values(f_o)) by {
                            assert forall|i: int| 0 <= i < order.len() implies f_pre(order[i]) == f_o(order[i]) by {
                                assert(member(o, order[i], ck)); assert(o.users@.contains_key(order[i]));
                            }
                        }
                        assert(delivered_to_members(log_a, outbox.log, o, o.channels@[ck].users@.dom(), line));
                    }
//@afterloop ~for channel in channels\.iter\(\)
        let ghost aft = *state;
        proof { assert(cs.take(cs.len() as int) =~= cs); }
//@close
        proof {
            // the last statement only touches last_activity of the own user
            assert(state.users@ =~= aft.users@.insert(me, state.users@[me]));
            lemma_user_field_wf(aft, *state, me);
            assert(state.users@.dom() =~= o.users@.dom());
        }
//@end
}
