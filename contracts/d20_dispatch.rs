// ===== CONTRACT: the command arm of process_internal (C03 gate, C13 error mapping) =====
pub open spec fn ungated(c: Command) -> bool {
    c is CAP || c is AUTHENTICATE || c is PASS || c is NICK || c is USER || c is QUIT
}
impl MainState {
//@block state/mod.rs MainState::process_internal dispatch_command unit=dispatch props=C03,C13,C05 rules=R2,R6q from=~|let msg = match msg_str_res| to=~|self\.process_die\(conn_state, message\)\.await,| plus=1
//@head
    pub async fn dispatch_command(&self, conn_state: &mut ConnState, msg_str_res: Option<Result<String, LinesCodecError>>,
            Tracked(sig): Tracked<&mut Signals>) -> (r: Result<(), HErr>)
//@spec
        ensures
            // an over-long line: exactly ERR_INPUTTOOLONG, no part of it is executed
            msg_str_res == Some::<Result<String, LinesCodecError>>(Err(LinesCodecError::MaxLineLengthExceeded)) ==> // @prop C13
                r is Ok && conn_same_but_stream(*final(conn_state), *old(conn_state))
                && final(conn_state).stream.log() == old(conn_state).stream.log().push(fed(self.config.name@,
                    Reply::ErrInputTooLong417 { client: str_of(client_name_spec(old(conn_state).user_state)) })),
            // end of stream: the connection is flagged to close, nothing is executed
            msg_str_res is None ==> r is Err && final(sig).quit == 1 && *final(conn_state) == *old(conn_state), // @prop C06
            msg_str_res is Some && msg_str_res->0 is Ok ==> ({
                let line = msg_str_res->0->Ok_0;
                let tk = tokenize(line@);
                let cl = str_of(client_name_spec(old(conn_state).user_state));
                // empty lines are ignored
                &&& (tk == Err::<Message, MessageError>(MessageError::Empty) ==> r is Ok && *final(conn_state) == *old(conn_state)) // @prop C13
                &&& (tk is Err && !(tk->Err_0 is Empty) ==> r is Err && conn_same_but_stream(*final(conn_state), *old(conn_state))) // @prop C13
                &&& (tk is Ok ==> ({
                    let pc = parse_cmd(tk->Ok_0);
                    // parse errors: the specific numeric, and no handler runs (the connection is unchanged but for the reply)
                    &&& (pc is Err ==> r is Err && conn_same_but_stream(*final(conn_state), *old(conn_state))) // @prop C13
                    &&& (pc is Err && pc->Err_0 is UnknownCommand ==> final(conn_state).stream.log() == old(conn_state).stream.log().push(fed(self.config.name@, // @prop C13
                            Reply::ErrUnknownCommand421 { client: cl, command: str_of(pc->Err_0->UnknownCommand_0@) })))
                    &&& (pc is Err && pc->Err_0 is NeedMoreParams ==> final(conn_state).stream.log() == old(conn_state).stream.log().push(fed(self.config.name@, // @prop C13
                            Reply::ErrNeedMoreParams461 { client: cl, command: pc->Err_0->NeedMoreParams_0.name })))
                    &&& (pc is Err && pc->Err_0 is UnknownMode ==> final(conn_state).stream.log() == old(conn_state).stream.log().push(fed(self.config.name@, // @prop C13
                            Reply::ErrUnknownMode472 { client: cl, modechar: pc->Err_0->UnknownMode_1, channel: str_of(pc->Err_0->UnknownMode_2@) })))
                    &&& (pc is Err && pc->Err_0 is UnknownUModeFlag ==> final(conn_state).stream.log() == old(conn_state).stream.log().push(fed(self.config.name@, // @prop C13
                            Reply::ErrUmodeUnknownFlag501 { client: cl })))
                    &&& (pc is Err && pc->Err_0 is InvalidModeParam ==> final(conn_state).stream.log().len() == old(conn_state).stream.log().len() + 1) // @prop C13
                    // nothing works before registration: every gated command is answered 451 and changes nothing  (C03)
                    &&& (pc is Ok && !ungated(pc->Ok_0) && !old(conn_state).user_state.authenticated ==> r is Ok // @prop C03
                            && conn_same_but_stream(*final(conn_state), *old(conn_state))
                            && final(conn_state).stream.log() == old(conn_state).stream.log().push(fed(self.config.name@, Reply::ErrNotRegistered451 { client: cl })))
                }))
            }),
//@open
        broadcast use ax_display_commanderror, bridge;
//@end
}
