// ===== REAL TYPES, extracted mechanically (rule R7 strips derive/serde/validator attributes) =====
//@type config.rs struct UserModes derive=Clone,Copy
//@type config.rs struct ChannelModes
//@type state/structs.rs struct ChannelUserModes derive=Clone,Copy
//@type state/structs.rs struct ChannelTopic
//@type state/structs.rs struct BanInfo
//@type state/structs.rs struct ChannelDefaultModes
//@type state/structs.rs struct Channel
//@type state/structs.rs struct NickHistoryEntry
//@type state/structs.rs struct User
//@type state/structs.rs struct VolatileState
