// ===== TRUSTED: meaning of #[derive(Default)] on the extracted types (the derive attribute itself is stripped by rule R7) =====
impl Default for ChannelUserModes {
    #[verifier::external_body]
    fn default() -> (r: Self)
        ensures r == (ChannelUserModes { founder: false, protected: false, voice: false, operator: false, half_oper: false })
    { unimplemented!() }
}
impl Default for ChannelDefaultModes {
    #[verifier::external_body]
    fn default() -> (r: Self)
        ensures r.operators@ == Set::<String>::empty(), r.half_operators@ == Set::<String>::empty(), r.voices@ == Set::<String>::empty(),
            r.founders@ == Set::<String>::empty(), r.protecteds@ == Set::<String>::empty()
    { unimplemented!() }
}
impl Default for ChannelModes {
    #[verifier::external_body]
    fn default() -> (r: Self)
        ensures r.ban is None, r.exception is None, r.client_limit is None, r.invite_exception is None, r.key is None,
            r.operators is None, r.half_operators is None, r.voices is None, r.founders is None, r.protecteds is None,
            !r.invite_only, !r.moderated, !r.secret, !r.protected_topic, !r.no_external_messages
    { unimplemented!() }
}
impl Clone for NickHistoryEntry {
    #[verifier::external_body]
    fn clone(&self) -> (r: Self)
        ensures r == *self
    { unimplemented!() }
}
