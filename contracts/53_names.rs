// ===== CONTRACTS: NAMES (C12, C04) =====
// what was fed, when it was a Reply (FedItem is an abstract record of the fed value, so this is a definition, not a claim about text)
pub uninterp spec fn fed_reply<'a>(i: FedItem) -> Option<Reply<'a>>;
pub broadcast axiom fn ax_fed_reply<'a>(p: Seq<char>, r: Reply<'a>)
    ensures #[trigger] fed_reply::<'a>(fed::<Reply<'a>>(p, r)) == Some(r);

impl ChannelUserModes {
    // NOT VERIFIED (status N): builds the rank prefix text, e.g. "~@"
    #[verifier::external_body]
    pub fn to_string(self, caps: &CapState) -> String { unimplemented!() }
}

pub open spec fn chan_visible_to(ch: Channel, me: String) -> bool { !ch.modes.secret || ch.users@.contains_key(me) }
pub open spec fn name_visible(ch: Channel, users: Map<String, User>, me: String, n: Seq<char>) -> bool {
    ch.users@.contains_key(string_of(n)) && users.contains_key(string_of(n))
        && (!users[string_of(n)].modes.invisible || ch.users@.contains_key(me))
}
// every line appended by NAMES for one channel is either a 353 whose entries are all visible members, or the 366
pub open spec fn names_line_ok(item: FedItem, ch: Channel, users: Map<String, User>, me: String) -> bool {
    match fed_reply(item) {
        Some(Reply::RplNameReply353 { client, symbol, channel, replies }) =>
            forall|k: int| 0 <= k < replies@.len() ==> name_visible(ch, users, me, (#[trigger] replies@[k]).nick@),
        Some(Reply::RplEndOfNames366 { client, channel }) => true,
        _ => false,
    }
}

// what NAMES answers for a channel name that does not exist
pub open spec fn names_missing_answer(server: Seq<char>, k: ConnState, channel_name: &str, end: bool) -> Seq<FedItem> {
    if end { k.stream.log().push(fed(server, Reply::RplEndOfNames366 { client: str_of(client_name_spec(k.user_state)), channel: channel_name })) }
    else { k.stream.log() }
}

impl MainState {
//@fn state/channel_cmds.rs MainState::send_names_from_channel unit=names props=C12,C04,C05 rules=R2,R14
//@spec
        requires
            old(conn_state).user_state.nick is Some,
            forall|n: String| channel.users@.contains_key(n) ==> users@.contains_key(n),
        ensures
            conn_same_but_stream(*final(conn_state), *old(conn_state)), // @prop C12
            // existence clause: a hidden channel is answered exactly like a channel that does not exist
            !chan_visible_to(*channel, my_nick(*old(conn_state))) ==> final(conn_state).stream.log() == names_missing_answer(self.config.name@, *old(conn_state), channel_name, end), // @prop C12
            final(conn_state).stream.log().len() >= old(conn_state).stream.log().len(), // @prop C12
            forall|k: int| 0 <= k < old(conn_state).stream.log().len() ==> final(conn_state).stream.log()[k] == old(conn_state).stream.log()[k], // @prop C12
            forall|k: int| old(conn_state).stream.log().len() <= k < final(conn_state).stream.log().len() ==> // @prop C12,C04
                names_line_ok(#[trigger] final(conn_state).stream.log()[k], *channel, users@, my_nick(*old(conn_state))),
//@ascribe name_chunk Vec<NameReplyStruct<'_>>
//@open
        broadcast use group_hash_axioms, bridge, ax_fed_reply;
        let ghost me = my_nick(*conn_state);
        let ghost log0 = conn_state.stream.log();
//@loop ~for \(unick, chum\) in channel\.users\.iter\(\) iter=it
                invariant
                    conn_same_but_stream(*conn_state, *old(conn_state)),
                    me == my_nick(*old(conn_state)), log0 == old(conn_state).stream.log(),
                    in_channel == channel.users@.contains_key(me),
                    !channel.modes.secret || in_channel,
                    forall|n: String| channel.users@.contains_key(n) ==> users@.contains_key(n),
                    log0.len() <= conn_state.stream.log().len(),
                    forall|k: int| 0 <= k < log0.len() ==> conn_state.stream.log()[k] == log0[k],
                    forall|k: int| log0.len() <= k < conn_state.stream.log().len() ==> names_line_ok(#[trigger] conn_state.stream.log()[k], *channel, users@, me),
                    forall|k: int| 0 <= k < name_chunk@.len() ==> name_visible(*channel, users@, me, (#[trigger] name_chunk@[k]).nick@),
                    name_chunk@.len() < NAMES_COUNT,
                    forall|i: int| 0 <= i < it.seq().len() ==> channel.users@.contains_key(*(#[trigger] it.seq()[i]).0),
//@after ~for \(unick, chum\) in channel\.users\.iter\(\)
                broadcast use group_hash_axioms, bridge, ax_fed_reply;
                proof { assert(channel.users@.contains_key(*unick)); assert(string_of(unick@) == *unick); }
//@end
}

impl MainState {
//@fn state/channel_cmds.rs MainState::process_names unit=names props=C12,C05 rules=R1,R2
//@spec
        requires
            state_wf(*old(state)),
            conn_ok(*old(conn_state), *old(state)),
        ensures
            conn_same_but_stream(*final(conn_state), *old(conn_state)), // @prop C12
            *final(state) == *old(state), // @prop C12
            // one explicitly named channel: hidden and missing channels are answered identically
            channels@.len() == 1 && (!old(state).channels@.contains_key(sk(channels@[0])) // @prop C12
                    || !chan_visible_to(old(state).channels@[sk(channels@[0])], my_nick(*old(conn_state)))) ==>
                final(conn_state).stream.log() == names_missing_answer(self.config.name@, *old(conn_state), channels@[0], true),
//@open
        broadcast use group_hash_axioms, bridge;
        let ghost chs = channels@;
//@loop ~for c in channels iter=it
                invariant
                    conn_same_but_stream(*conn_state, *old(conn_state)),
                    state_wf(*state), *state == *old(state),
                    it.seq() == chs, conn_ok(*old(conn_state), *old(state)),
                    it.index@ == 0 ==> conn_state.stream.log() == old(conn_state).stream.log(),
                    it.index@ == 1 && (!state.channels@.contains_key(sk(chs[0])) || !chan_visible_to(state.channels@[sk(chs[0])], my_nick(*old(conn_state)))) ==>
                        conn_state.stream.log() == names_missing_answer(self.config.name@, *old(conn_state), chs[0], true),
//@after ~for c in channels
                broadcast use group_hash_axioms, bridge;
                proof { assert(c == chs[it.index@ as int]); }
//@after ~if let Some\(channel\) = state\.channels\.get\(c\)
                    proof {
                        assert forall|n: String| channel.users@.contains_key(n) implies state.users@.contains_key(n) by {
                            assert(member(*state, n, sk(c)));
                        }
                    }
//@loop ~for \(cn, c\) in state\.channels\.iter\(\) iter=it2
                invariant
                    conn_same_but_stream(*conn_state, *old(conn_state)),
                    state_wf(*state), *state == *old(state), conn_ok(*old(conn_state), *old(state)),
                    channels@.len() == 0,
                    forall|i: int| 0 <= i < it2.seq().len() ==> state.channels@.contains_key(*(#[trigger] it2.seq()[i]).0) && state.channels@[*it2.seq()[i].0] == *it2.seq()[i].1,
//@after ~for \(cn, c\) in state\.channels\.iter\(\)
                broadcast use group_hash_axioms, bridge;
                proof {
                    assert(state.channels@.contains_key(*cn) && state.channels@[*cn] == *c);
                    assert forall|n: String| c.users@.contains_key(n) implies state.users@.contains_key(n) by {
                        assert(member(*state, n, *cn));
                    }
                }
//@end
}
