//@type command.rs struct Message
//@type reply.rs struct WhoIsChannelStruct
//@type reply.rs struct NameReplyStruct
//@type reply.rs enum Reply
use Reply::*;
//@type state/structs.rs struct CapState derive=Clone,Copy
//@type state/structs.rs struct ConnUserState
//@type state/structs.rs struct ConnState
//@type config.rs struct TLSConfig
//@type config.rs struct OperatorConfig
//@type config.rs struct ChannelConfig
//@type config.rs struct UserConfig
//@type config.rs struct MainConfig drop=log_level
//@type state/mod.rs struct MainState drop=created_time,command_counts,state
// The `state: RwLock<VolatileState>` field is dropped by rule R1: the state is passed to each handler as `state: &mut VolatileState`.
