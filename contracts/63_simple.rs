// ===== CONTRACTS: the stateless handlers (C05: no panic; C03/C12: they neither change nor reveal state) =====
// None of them acquires the state lock (rule R1 is not applied: a use of self.state would be an extraction error),
// so by construction they cannot read or change the shared state; the contract pins the connection frame.
impl MainState {
//@fn state/conn_cmds.rs MainState::process_ping unit=simple props=C05 rules=R2
//@spec
        ensures conn_same_but_stream(*final(conn_state), *old(conn_state)), r is Ok, // @prop C05
            final(conn_state).stream.log().len() == old(conn_state).stream.log().len() + 1, // @prop C05
//@end
//@fn state/conn_cmds.rs MainState::process_authenticate unit=simple props=C05,C03 rules=R2
//@spec
        ensures conn_same_but_stream(*final(conn_state), *old(conn_state)), r is Ok, // @prop C03
            final(conn_state).stream.log() == old(conn_state).stream.log().push(fed(self.config.name@, // @prop C03
                Reply::ErrUnknownCommand421 { client: str_of(client_name_spec(old(conn_state).user_state)), command: "AUTHENTICATE" })),
//@open
        broadcast use bridge;
//@end
//@fn state/srv_query_cmds.rs MainState::process_version unit=simple props=C05 rules=R2
//@spec
        ensures conn_same_but_stream(*final(conn_state), *old(conn_state)), r is Ok, // @prop C05
//@end
//@fn state/srv_query_cmds.rs MainState::process_admin unit=simple props=C05 rules=R2
//@spec
        ensures conn_same_but_stream(*final(conn_state), *old(conn_state)), r is Ok, // @prop C05
//@end
//@fn state/srv_query_cmds.rs MainState::process_connect unit=simple props=C05 rules=R2,R11
//@spec
        ensures conn_same_but_stream(*final(conn_state), *old(conn_state)), r is Ok, // @prop C05
//@end
//@fn state/srv_query_cmds.rs MainState::process_links unit=simple props=C05 rules=R2
//@spec
        ensures conn_same_but_stream(*final(conn_state), *old(conn_state)), r is Ok, // @prop C05
//@end
//@fn state/srv_query_cmds.rs MainState::process_info unit=simple props=C05 rules=R2
//@spec
        ensures conn_same_but_stream(*final(conn_state), *old(conn_state)), r is Ok, // @prop C05
//@end
//@fn state/rest_cmds.rs MainState::process_rehash unit=simple props=C05 rules=R2
//@spec
        ensures conn_same_but_stream(*final(conn_state), *old(conn_state)), r is Ok, // @prop C05
//@end
//@fn state/rest_cmds.rs MainState::process_restart unit=simple props=C05 rules=R2
//@spec
        ensures conn_same_but_stream(*final(conn_state), *old(conn_state)), r is Ok, // @prop C05
//@end
}
