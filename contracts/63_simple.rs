// ===== CONTRACTS: the stateless handlers (C05: no panic; C03/C12: they neither change nor reveal state) =====
// None of them acquires the state lock (rule R1 is not applied: a use of self.state would be an extraction error),
// so by construction they cannot read or change the shared state; the contract pins the connection frame.
// ASSUMED stand-ins (HELP): the look-up in the static table HELP_TOPICS (`iter().find(|(t, _)| *t == subject)`; the table's content is
// not modelled) and `content.split_terminator('\n').collect()` (the pieces are opaque)
pub uninterp spec fn help_topic_of(subject: Seq<char>) -> Option<(&'static str, &'static str)>;
#[verifier::external_body]
pub fn verif_help_topic(subject: &str) -> (r: Option<&'static (&'static str, &'static str)>)
    ensures (r is Some) == (help_topic_of(subject@) is Some), r is Some ==> *r->0 == help_topic_of(subject@)->0,
{ unimplemented!() }
#[verifier::external_body]
pub fn verif_split_lines<'a>(content: &'a str) -> (r: Vec<&'a str>)
{ unimplemented!() }
impl MainState {
//@fn state/conn_cmds.rs MainState::process_ping unit=simple props=C05 rules=R2
//@spec
        ensures conn_same_but_stream(*final(conn_state), *old(conn_state)), r is Ok, // @prop C05
            final(conn_state).stream.log().len() == old(conn_state).stream.log().len() + 1, // @prop C05
//@end
//@fn state/conn_cmds.rs MainState::process_pong unit=simple props=C05 rules=R2
//@spec
        ensures conn_same_but_pong(*final(conn_state), *old(conn_state)), // @prop C05
            // PONG answers nothing: it only hands the token of the pending ping timer over
            final(conn_state).stream.log() == old(conn_state).stream.log(), // @prop C05
//@end
//@fn state/conn_cmds.rs MainState::process_authenticate unit=simple props=C05,C03 rules=R2
//@spec
        ensures conn_same_but_stream(*final(conn_state), *old(conn_state)), r is Ok, // @prop C03
            final(conn_state).stream.log() == old(conn_state).stream.log().push(fed(self.config.name@, // @prop C03
                Reply::ErrUnknownCommand421 { client: str_of(client_name_spec(old(conn_state).user_state)), command: "AUTHENTICATE" })),
//@open
        broadcast use bridge;
//@end
//@fn state/srv_query_cmds.rs MainState::process_time unit=simple props=C05 rules=R2
//@spec
        ensures conn_same_but_stream(*final(conn_state), *old(conn_state)), r is Ok, // @prop C05
            final(conn_state).stream.log().len() == old(conn_state).stream.log().len() + 1, // @prop C05
//@end
//@fn state/srv_query_cmds.rs MainState::process_version unit=simple props=C05 rules=R2
//@spec
        ensures conn_same_but_stream(*final(conn_state), *old(conn_state)), r is Ok, // @prop C05
//@end
//@fn state/srv_query_cmds.rs MainState::process_admin unit=simple props=C05 rules=R2
//@spec
        ensures conn_same_but_stream(*final(conn_state), *old(conn_state)), r is Ok, // @prop C05
//@end
//@fn state/srv_query_cmds.rs MainState::process_connect unit=simple props=C05 rules=R2,R11
//@spec
        ensures conn_same_but_stream(*final(conn_state), *old(conn_state)), r is Ok, // @prop C05
//@end
//@fn state/srv_query_cmds.rs MainState::process_links unit=simple props=C05 rules=R2
//@spec
        ensures conn_same_but_stream(*final(conn_state), *old(conn_state)), r is Ok, // @prop C05
//@end
//@fn state/srv_query_cmds.rs MainState::process_help unit=simple props=C05 rules=R4,R2
//@replace ~|HELP_TOPICS\.iter\(\)\.find\(\|\(t, _\)\| \*t == subject\)| => verif_help_topic(subject)
//@replace ~|content\.split_terminator\('\\n'\)\.collect::<Vec<_>>\(\)| => verif_split_lines(content)
//@spec
        ensures conn_same_but_stream(*final(conn_state), *old(conn_state)), r is Ok, // @prop C05
            // an unknown subject is answered with exactly one 524
            help_topic_of(match subject_opt { Some(x) => x@, None => "MAIN"@ }) is None ==> final(conn_state).stream.log() == old(conn_state).stream.log().push(fed(self.config.name@,
                Reply::ErrHelpNotFound524 { client: str_of(client_name_spec(old(conn_state).user_state)), subject: str_of(match subject_opt { Some(x) => x@, None => "MAIN"@ }) })), // @prop C05
//@open
        broadcast use bridge;
//@loop ~for line in lines\.iter\(\) iter=itl
                invariant conn_same_but_stream(*conn_state, *old(conn_state)), i__n == itl.index@, itl.seq().len() == lines@.len(),
//@end
//@fn state/srv_query_cmds.rs MainState::process_info unit=simple props=C05 rules=R2
//@spec
        ensures conn_same_but_stream(*final(conn_state), *old(conn_state)), r is Ok, // @prop C05
//@end
//@fn state/rest_cmds.rs MainState::process_rehash unit=simple props=C05 rules=R2
//@spec
        ensures conn_same_but_stream(*final(conn_state), *old(conn_state)), r is Ok, // @prop C05
//@end
//@fn state/rest_cmds.rs MainState::process_restart unit=simple props=C05 rules=R2
//@spec
        ensures conn_same_but_stream(*final(conn_state), *old(conn_state)), r is Ok, // @prop C05
//@end
}
