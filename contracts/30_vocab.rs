// ===== SPECIFICATION VOCABULARY (DESIGN.md §3) =====
pub open spec fn oset(o: Option<HashSet<String>>) -> Set<String> {
    match o { Some(s) => s@, None => Set::empty() }
}
pub open spec fn is_member(c: Channel, n: String) -> bool { c.users@.contains_key(n) }

// rank lists mirror the per-member rank flags
pub open spec fn chan_wf(c: Channel) -> bool {
    &&& (forall|n: String| #[trigger] oset(c.modes.founders).contains(n) <==> (c.users@.contains_key(n) && c.users@[n].founder))
    &&& (forall|n: String| #[trigger] oset(c.modes.protecteds).contains(n) <==> (c.users@.contains_key(n) && c.users@[n].protected))
    &&& (forall|n: String| #[trigger] oset(c.modes.operators).contains(n) <==> (c.users@.contains_key(n) && c.users@[n].operator))
    &&& (forall|n: String| #[trigger] oset(c.modes.half_operators).contains(n) <==> (c.users@.contains_key(n) && c.users@[n].half_oper))
    &&& (forall|n: String| #[trigger] oset(c.modes.voices).contains(n) <==> (c.users@.contains_key(n) && c.users@[n].voice))
}

// everything of a channel except membership / ranks
pub open spec fn chan_rest_eq(a: Channel, b: Channel) -> bool {
    &&& a.topic == b.topic
    &&& a.default_modes == b.default_modes
    &&& a.ban_info == b.ban_info
    &&& a.creation_time == b.creation_time
    &&& a.preconfigured == b.preconfigured
    &&& a.modes.ban == b.modes.ban
    &&& a.modes.exception == b.modes.exception
    &&& a.modes.client_limit == b.modes.client_limit
    &&& a.modes.invite_exception == b.modes.invite_exception
    &&& a.modes.key == b.modes.key
    &&& a.modes.invite_only == b.modes.invite_only
    &&& a.modes.moderated == b.modes.moderated
    &&& a.modes.secret == b.modes.secret
    &&& a.modes.protected_topic == b.modes.protected_topic
    &&& a.modes.no_external_messages == b.modes.no_external_messages
}
pub open spec fn rank_sets_eq_except(a: Channel, b: Channel, which: int) -> bool {
    &&& (which != 0 ==> oset(a.modes.founders) == oset(b.modes.founders))
    &&& (which != 1 ==> oset(a.modes.protecteds) == oset(b.modes.protecteds))
    &&& (which != 2 ==> oset(a.modes.operators) == oset(b.modes.operators))
    &&& (which != 3 ==> oset(a.modes.half_operators) == oset(b.modes.half_operators))
    &&& (which != 4 ==> oset(a.modes.voices) == oset(b.modes.voices))
}
pub open spec fn rank_set(c: Channel, which: int) -> Set<String> {
    if which == 0 { oset(c.modes.founders) } else if which == 1 { oset(c.modes.protecteds) }
    else if which == 2 { oset(c.modes.operators) } else if which == 3 { oset(c.modes.half_operators) }
    else { oset(c.modes.voices) }
}
pub open spec fn set_flag(m: ChannelUserModes, which: int, v: bool) -> ChannelUserModes {
    if which == 0 { ChannelUserModes { founder: v, ..m } } else if which == 1 { ChannelUserModes { protected: v, ..m } }
    else if which == 2 { ChannelUserModes { operator: v, ..m } } else if which == 3 { ChannelUserModes { half_oper: v, ..m } }
    else { ChannelUserModes { voice: v, ..m } }
}
// contract of the ten add_*/remove_* functions: exactly one rank of exactly one member changes
pub open spec fn rank_change(o: Channel, n: Channel, nick: String, which: int, v: bool) -> bool {
    &&& chan_rest_eq(o, n)
    &&& rank_sets_eq_except(o, n, which)
    &&& rank_set(n, which) == (if v { rank_set(o, which).insert(nick) } else { rank_set(o, which).remove(nick) })
    &&& n.users@ == o.users@.insert(nick, set_flag(o.users@[nick], which, v))
}

pub open spec fn half_op(m: ChannelUserModes) -> bool { m.founder || m.protected || m.operator || m.half_oper }
pub open spec fn is_op(m: ChannelUserModes) -> bool { m.founder || m.protected || m.operator }
pub open spec fn is_prot(m: ChannelUserModes) -> bool { m.founder || m.protected }
pub open spec fn only_half_op(m: ChannelUserModes) -> bool { !m.founder && !m.protected && !m.operator && m.half_oper }
pub open spec fn has_voice(m: ChannelUserModes) -> bool { m.founder || m.protected || m.operator || m.half_oper || m.voice }

// membership seen from the channel side
pub open spec fn member(s: VolatileState, n: String, c: String) -> bool {
    s.channels@.contains_key(c) && s.channels@[c].users@.contains_key(n)
}
// one relation, two sides
pub open spec fn sym(s: VolatileState) -> bool {
    forall|n: String, c: String| #![trigger s.users@[n].channels@.contains(c)] #![trigger member(s, n, c)]
        (s.users@.contains_key(n) && s.users@[n].channels@.contains(c)) <==> member(s, n, c)
}
pub open spec fn chans_wf(s: VolatileState) -> bool {
    forall|c: String| s.channels@.contains_key(c) ==> chan_wf(#[trigger] s.channels@[c])
}
pub open spec fn no_empty_chan(s: VolatileState) -> bool {
    forall|c: String| s.channels@.contains_key(c) && !(#[trigger] s.channels@[c]).preconfigured ==> s.channels@[c].users@.len() > 0
}
pub open spec fn wallops_wf(s: VolatileState) -> bool {
    forall|n: String| #[trigger] s.wallops_users@.contains(n) <==> (s.users@.contains_key(n) && s.users@[n].modes.wallops)
}
pub open spec fn local_oper(m: UserModes) -> bool { m.local_oper || m.oper }
pub open spec fn counters_wf(s: VolatileState) -> bool {
    &&& s.invisible_users_count == inv_set(s.users@).len()
    &&& s.operators_count == opr_set(s.users@).len()
    &&& s.max_users_count >= s.users@.len()
}
// one outgoing queue per registered user
pub open spec fn senders_distinct(s: VolatileState) -> bool {
    forall|a: String, b: String| #![trigger s.users@[a], s.users@[b]]
        s.users@.contains_key(a) && s.users@.contains_key(b) && a != b ==> s.users@[a].sender.id() != s.users@[b].sender.id()
}
pub open spec fn state_wf(s: VolatileState) -> bool {
    &&& sym(s)
    &&& chans_wf(s)
    &&& no_empty_chan(s)
    &&& wallops_wf(s)
    &&& counters_wf(s)
    &&& senders_distinct(s)
}

// frame vocabulary
pub open spec fn user_same_except_channels(a: User, b: User) -> bool {
    &&& a.hostname == b.hostname && a.sender == b.sender && a.quit_sender == b.quit_sender && a.name == b.name
    &&& a.realname == b.realname && a.source == b.source && a.modes == b.modes && a.away == b.away
    &&& a.invited_to == b.invited_to && a.last_activity == b.last_activity && a.signon == b.signon
    &&& a.history_entry == b.history_entry
}
// effect of removing `nick` from channel `c` on the channel map
pub open spec fn chan_after_leave(oc: Channel, nc: Channel, nick: String) -> bool {
    &&& chan_rest_eq(oc, nc)
    &&& nc.users@ == oc.users@.remove(nick)
    &&& oset(nc.modes.founders) == oset(oc.modes.founders).remove(nick)
    &&& oset(nc.modes.protecteds) == oset(oc.modes.protecteds).remove(nick)
    &&& oset(nc.modes.operators) == oset(oc.modes.operators).remove(nick)
    &&& oset(nc.modes.half_operators) == oset(oc.modes.half_operators).remove(nick)
    &&& oset(nc.modes.voices) == oset(oc.modes.voices).remove(nick)
}
pub open spec fn post_chan(oldc: Map<String, Channel>, newc: Map<String, Channel>, c: String, nick: String) -> bool {
    if oldc.contains_key(c) && oldc[c].users@.contains_key(nick) {
        if oldc[c].users@.remove(nick).len() == 0 && !oldc[c].preconfigured {
            !newc.contains_key(c)
        } else {
            newc.contains_key(c) && chan_after_leave(oldc[c], newc[c], nick)
        }
    } else {
        (newc.contains_key(c) <==> oldc.contains_key(c)) && (oldc.contains_key(c) ==> newc[c] == oldc[c])
    }
}

// ---- cardinality lemmas for the counters (proved) ----
pub open spec fn inv_set(m: Map<String, User>) -> Set<String> { m.dom().filter(|n: String| m[n].modes.invisible) }
pub open spec fn opr_set(m: Map<String, User>) -> Set<String> { m.dom().filter(|n: String| local_oper(m[n].modes)) }
pub proof fn lemma_inv_insert(m: Map<String, User>, k: String, u: User)
    requires !m.contains_key(k)
    ensures inv_set(m.insert(k, u)).len() == inv_set(m).len() + (if u.modes.invisible { 1int } else { 0int }),
        inv_set(m).len() <= m.dom().len(),
{
    m.dom().lemma_len_filter(|n: String| m[n].modes.invisible);
    if u.modes.invisible { assert(inv_set(m.insert(k, u)) =~= inv_set(m).insert(k)); }
    else { assert(inv_set(m.insert(k, u)) =~= inv_set(m)); }
}
pub proof fn lemma_inv_remove(m: Map<String, User>, k: String)
    requires m.contains_key(k)
    ensures inv_set(m.remove(k)).len() == inv_set(m).len() - (if m[k].modes.invisible { 1int } else { 0int }),
        m[k].modes.invisible ==> inv_set(m).len() >= 1,
{
    if m[k].modes.invisible { assert(inv_set(m.remove(k)) =~= inv_set(m).remove(k)); assert(inv_set(m).contains(k)); }
    else { assert(inv_set(m.remove(k)) =~= inv_set(m)); }
}
pub proof fn lemma_inv_update(m: Map<String, User>, k: String, u: User)
    requires m.contains_key(k)
    ensures inv_set(m.insert(k, u)).len() == inv_set(m).len() - (if m[k].modes.invisible { 1int } else { 0int }) + (if u.modes.invisible { 1int } else { 0int }),
{
    lemma_inv_remove(m, k);
    lemma_inv_insert(m.remove(k), k, u);
    assert(m.remove(k).insert(k, u) =~= m.insert(k, u));
}
pub proof fn lemma_opr_insert(m: Map<String, User>, k: String, u: User)
    requires !m.contains_key(k)
    ensures opr_set(m.insert(k, u)).len() == opr_set(m).len() + (if local_oper(u.modes) { 1int } else { 0int }),
        opr_set(m).len() <= m.dom().len(),
{
    m.dom().lemma_len_filter(|n: String| local_oper(m[n].modes));
    if local_oper(u.modes) { assert(opr_set(m.insert(k, u)) =~= opr_set(m).insert(k)); }
    else { assert(opr_set(m.insert(k, u)) =~= opr_set(m)); }
}
pub proof fn lemma_opr_remove(m: Map<String, User>, k: String)
    requires m.contains_key(k)
    ensures opr_set(m.remove(k)).len() == opr_set(m).len() - (if local_oper(m[k].modes) { 1int } else { 0int }),
        local_oper(m[k].modes) ==> opr_set(m).len() >= 1,
{
    if local_oper(m[k].modes) { assert(opr_set(m.remove(k)) =~= opr_set(m).remove(k)); assert(opr_set(m).contains(k)); }
    else { assert(opr_set(m.remove(k)) =~= opr_set(m)); }
}
pub proof fn lemma_opr_update(m: Map<String, User>, k: String, u: User)
    requires m.contains_key(k)
    ensures opr_set(m.insert(k, u)).len() == opr_set(m).len() - (if local_oper(m[k].modes) { 1int } else { 0int }) + (if local_oper(u.modes) { 1int } else { 0int }),
{
    lemma_opr_remove(m, k);
    lemma_opr_insert(m.remove(k), k, u);
    assert(m.remove(k).insert(k, u) =~= m.insert(k, u));
}
// counters depend only on the modes of the users
pub proof fn lemma_sets_same_modes(a: Map<String, User>, b: Map<String, User>)
    requires a.dom() == b.dom(), forall|n: String| a.contains_key(n) ==> (#[trigger] a[n]).modes == b[n].modes,
    ensures inv_set(a) == inv_set(b), opr_set(a) == opr_set(b)
{
    assert(inv_set(a) =~= inv_set(b));
    assert(opr_set(a) =~= opr_set(b));
}

pub open spec fn vs_same(a: VolatileState, b: VolatileState) -> bool {
    &&& a.users@ == b.users@ && a.channels@ == b.channels@ && a.wallops_users@ == b.wallops_users@
    &&& a.invisible_users_count == b.invisible_users_count && a.operators_count == b.operators_count
    &&& a.max_users_count == b.max_users_count && a.nick_histories@ == b.nick_histories@
    &&& a.quit_sender == b.quit_sender && a.quit_receiver == b.quit_receiver
}
// state_wf after the complete removal of user nk (proved)
pub proof fn lemma_remove_user_wf(o: VolatileState, n: VolatileState, nk: String)
    requires state_wf(o), o.users@.contains_key(nk),
        n.users@ == o.users@.remove(nk),
        forall|c: String| post_chan(o.channels@, n.channels@, c, nk),
        n.wallops_users@ == o.wallops_users@.remove(nk),
        n.invisible_users_count == o.invisible_users_count - (if o.users@[nk].modes.invisible { 1int } else { 0int }),
        n.operators_count == o.operators_count - (if local_oper(o.users@[nk].modes) { 1int } else { 0int }),
        n.max_users_count == o.max_users_count,
        chans_wf(n),
    ensures state_wf(n)
{
    lemma_inv_remove(o.users@, nk);
    lemma_opr_remove(o.users@, nk);
    assert forall|u: String, c: String| #![trigger n.users@[u].channels@.contains(c)] #![trigger member(n, u, c)]
        (n.users@.contains_key(u) && n.users@[u].channels@.contains(c)) <==> member(n, u, c) by {
        assert(post_chan(o.channels@, n.channels@, c, nk));
        assert((o.users@.contains_key(u) && o.users@[u].channels@.contains(c)) <==> member(o, u, c));
        if u != nk {
            assert(n.users@.contains_key(u) == o.users@.contains_key(u));
            if o.users@.contains_key(u) { assert(n.users@[u] == o.users@[u]); }
            if member(o, u, c) {
                if o.channels@[c].users@.contains_key(nk) {
                    assert(o.channels@[c].users@.remove(nk).contains_key(u));
                    if o.channels@[c].users@.remove(nk).len() == 0 {
                        assert(o.channels@[c].users@.remove(nk).dom().len() == 0);
                        assert(o.channels@[c].users@.remove(nk).dom() =~= Set::<String>::empty());
                        assert(false);
                    }
                    assert(member(n, u, c));
                } else {
                    assert(member(n, u, c));
                }
            } else {
                assert(!member(n, u, c));
            }
        } else {
            assert(!n.users@.contains_key(u));
            assert(!member(n, u, c));
        }
    }
    assert(sym(n));
    assert(no_empty_chan(n)) by {
        assert forall|c: String| n.channels@.contains_key(c) && !(#[trigger] n.channels@[c]).preconfigured implies n.channels@[c].users@.len() > 0 by {
            assert(post_chan(o.channels@, n.channels@, c, nk));
            assert(o.channels@.contains_key(c));
            assert(!o.channels@[c].preconfigured ==> o.channels@[c].users@.len() > 0);
        }
    }
    assert(wallops_wf(n)) by {
        assert forall|u: String| #[trigger] n.wallops_users@.contains(u) <==> (n.users@.contains_key(u) && n.users@[u].modes.wallops) by {
            assert(o.wallops_users@.contains(u) <==> (o.users@.contains_key(u) && o.users@[u].modes.wallops));
        }
    }
    assert(n.users@.len() <= o.users@.len());
    assert(senders_distinct(n));
}

pub proof fn lemma_inv_bound(m: Map<String, User>, k: String)
    requires m.contains_key(k), !m[k].modes.invisible
    ensures inv_set(m).len() < m.dom().len()
{
    lemma_inv_insert(m.remove(k), k, m[k]);
    assert(m.remove(k).insert(k, m[k]) =~= m);
    assert(m.remove(k).dom().len() == m.dom().len() - 1);
}
pub proof fn lemma_opr_bound(m: Map<String, User>, k: String)
    requires m.contains_key(k), !local_oper(m[k].modes)
    ensures opr_set(m).len() < m.dom().len()
{
    lemma_opr_insert(m.remove(k), k, m[k]);
    assert(m.remove(k).insert(k, m[k]) =~= m);
    assert(m.remove(k).dom().len() == m.dom().len() - 1);
}
