// ===== dispatcher world: command types (real enums) and assumed parser contracts =====
#[derive(Clone, Copy)]
pub struct CommandId { pub name: &'static str }   // stand-in for the const_table macro type (only `.name` is used)
//@type command.rs enum MessageError derive=Clone,Copy
//@type command.rs enum CommandError
//@type command.rs enum CapCommand
//@type command.rs enum Command

// stand-in for std::io (only Error::new(ErrorKind::UnexpectedEof, ..) is used)
pub mod io {
    pub enum ErrorKind { UnexpectedEof }
    pub struct Error { pub k: u8 }
    impl Error {
        #[verifier::external_body]
        pub fn new(kind: ErrorKind, msg: &str) -> Error { unimplemented!() }
    }
}
impl From<io::Error> for HErr { #[verifier::external_body] fn from(e: io::Error) -> HErr { HErr { k: 0 } } }
impl From<MessageError> for HErr { #[verifier::external_body] fn from(e: MessageError) -> HErr { HErr { k: 0 } } }
impl From<CommandError> for HErr { #[verifier::external_body] fn from(e: CommandError) -> HErr { HErr { k: 0 } } }
pub broadcast axiom fn ax_display_commanderror(e: CommandError, f: &std::fmt::Formatter<'_>)
    ensures #[trigger] <CommandError as DisplaySpec>::fmt_req(&e, f);

// the assumed contracts below are tied to the text of the functions they speak about (see tools/extract.py check_assumed)
//@assumed command.rs Message::from_shared_str sha=fcede3cbabfd units=dispatch
//@assumed command.rs Command::from_message sha=2cb92377f575 units=dispatch
//@assumed command.rs Command::parse_from_message sha=e25ce81201ea units=dispatch
//@assumed command.rs Command::validate sha=360ec9b03856 units=dispatch
//@assumed utils.rs validate_channelmodes sha=0c59764eb236 units=dispatch
//@assumed reply.rs fmt::Display+for+Reply::fmt sha=46c83b6ae681 units=dispatch
//@assumed state/mod.rs MainState::feed_msg sha=e6c54daa707d units=dispatch
//@assumed utils.rs validate_usermodes sha=6ae352202f19 units=dispatch
//@assumed utils.rs validate_prefixed_channel sha=7f5a9269a5ec units=dispatch
//@assumed utils.rs validate_source sha=c0e8c5a0359e units=dispatch
// what the (unverified) tokenizer and per-verb parser return: uninterpreted, so that the dispatcher's reaction can be specified
pub uninterp spec fn tokenize<'a>(input: Seq<char>) -> Result<Message<'a>, MessageError>;
pub uninterp spec fn parse_cmd<'a>(m: Message<'a>) -> Result<Command<'a>, CommandError>;
impl<'a> Message<'a> {
    // ASSUMED (status A): the tokenizer (trim_start / split_once / split_ascii_whitespace / collect)
    #[verifier::external_body]
    pub fn from_shared_str(input: &'a str) -> (r: Result<Self, MessageError>)
        ensures r == tokenize(input@)
    { unimplemented!() }
}
impl<'a> Command<'a> {
    // ASSUMED (status A): per-verb parser + validators (split(',').collect(), closure chains)
    #[verifier::external_body]
    pub fn from_message(message: &Message<'a>) -> (r: Result<Self, CommandError>)
        ensures r == parse_cmd(*message)
    { unimplemented!() }
}
impl MainState {
    #[verifier::external_body]
    pub fn count_command(&self, cmd: &Command) { unimplemented!() }
//@handlerstubs files=state/conn_cmds.rs,state/channel_cmds.rs,state/rest_cmds.rs,state/srv_query_cmds.rs ungated=process_cap,process_authenticate,process_pass,process_nick,process_user,process_quit skip=process_mode_channel,process_mode_user,process_privmsg_notice
}
