// ===== CONTRACTS: ISON and USERHOST (C19: exactly the queried nicknames that are registered, with correct operator and away flags) =====
// ASSUMED stand-in for `<[T]>::chunks(n)` where the pieces must add up to the slice: their concatenation is the slice, each at most n long
pub open spec fn concat_views<T>(r: Seq<&[T]>, n: int) -> Seq<T>
    decreases n
{
    if n <= 0 { Seq::empty() } else { concat_views(r, n - 1) + r[n - 1]@ }
}
#[verifier::external_body]
pub fn verif_chunks_all<'b, T>(v: &'b Vec<T>, n: usize) -> (r: Vec<&'b [T]>)
    ensures concat_views(r@, r@.len() as int) == v@,
{ unimplemented!() }

// the registered ones among `nicks`, in order
pub open spec fn registered_of(s: VolatileState, nicks: Seq<&str>, n: int) -> Seq<&str>
    decreases n
{
    if n <= 0 { Seq::empty() } else {
        let p = registered_of(s, nicks, n - 1);
        if s.users@.contains_key(sk(nicks[n - 1])) { p.push(nicks[n - 1]) } else { p }
    }
}
// the USERHOST entry of a registered nickname: nick[*]=(+|-)~user@host, * for (local) operators, - when away
pub open spec fn userhost_entry(nick: Seq<char>, u: User) -> Seq<char> {
    nick + (if local_oper(u.modes) { "*"@ } else { ""@ }) + "="@ + seq![if u.away is Some { '-' } else { '+' }] + "~"@ + u.name@ + "@"@ + u.hostname@
}
pub open spec fn userhost_of(s: VolatileState, nicks: Seq<&str>, n: int) -> Seq<Seq<char>>
    decreases n
{
    if n <= 0 { Seq::empty() } else {
        let p = userhost_of(s, nicks, n - 1);
        if s.users@.contains_key(sk(nicks[n - 1])) { p.push(userhost_entry(nicks[n - 1]@, s.users@[sk(nicks[n - 1])])) } else { p }
    }
}
pub open spec fn ison_line_ok(item: FedItem, s: VolatileState, chunk: Seq<&str>) -> bool {
    match fed_reply(item) {
        Some(Reply::RplIson303 { client, nicknames }) => nicknames@ == registered_of(s, chunk, chunk.len() as int),
        _ => false,
    }
}
pub open spec fn userhost_line_ok(item: FedItem, s: VolatileState, chunk: Seq<&str>) -> bool {
    match fed_reply(item) {
        Some(Reply::RplUserHost302 { client, replies }) => replies@.map_values(|r: String| r@) == userhost_of(s, chunk, chunk.len() as int),
        _ => false,
    }
}

// one line per piece of the nickname list (`which` = 0: ISON, 1: USERHOST)
pub open spec fn pieces_answered(s: VolatileState, nicknames: Seq<&str>, which: int, log0: Seq<FedItem>, log1: Seq<FedItem>) -> bool {
    exists|pieces: Seq<&[&str]>|
        #![trigger concat_views(pieces, pieces.len() as int)]
        concat_views(pieces, pieces.len() as int) == nicknames
        && log1.len() == log0.len() + pieces.len()
        && (forall|k: int| 0 <= k < log0.len() ==> log1[k] == log0[k])
        && (forall|k: int| 0 <= k < pieces.len() ==> if which == 0 { ison_line_ok(#[trigger] log1[log0.len() + k], s, pieces[k]@) } else { userhost_line_ok(#[trigger] log1[log0.len() + k], s, pieces[k]@) })
}

impl MainState {
//@fn state/rest_cmds.rs MainState::process_ison unit=ison props=C19,C05 rules=R0,R26,R1,R2
//@replace ~|nicknames\.chunks\(20\)| => verif_chunks_all(&nicknames, 20)
//@ascribe outs Vec<&str>
//@spec
        requires state_wf(*old(state)), conn_ok(*old(conn_state), *old(state)),
        ensures
            *final(state) == *old(state), conn_same_but_stream(*final(conn_state), *old(conn_state)), // @prop C19
            // one 303 per piece of the nickname list; it names exactly the queried nicknames of that piece that are registered, in order
            r is Ok ==> pieces_answered(*old(state), nicknames@, 0, old(conn_state).stream.log(), final(conn_state).stream.log()), // @prop C19
//@open
        broadcast use group_hash_axioms, bridge, string_eq, ax_fed_reply;
        let ghost s0 = *old(state);
        let ghost log0 = conn_state.stream.log();
//@loop ~for nicks in verif_chunks_all iter=itp
            invariant
                *state == s0, state_wf(s0), conn_same_but_stream(*conn_state, *old(conn_state)), log0 == old(conn_state).stream.log(),
                concat_views(itp.seq(), itp.seq().len() as int) == nicknames@,
                conn_state.stream.log().len() == log0.len() + itp.index@,
                forall|k: int| 0 <= k < log0.len() ==> conn_state.stream.log()[k] == log0[k],
                forall|k: int| 0 <= k < itp.index@ ==> ison_line_ok(#[trigger] conn_state.stream.log()[log0.len() + k], s0, itp.seq()[k]@), // @prop C19
                itp.index@ == itp.seq().len() ==> pieces_answered(s0, nicknames@, 0, log0, conn_state.stream.log()), // @prop C19
//@after ~for nicks in verif_chunks_all
            broadcast use group_hash_axioms, bridge, string_eq, ax_fed_reply;
            let ghost log_a = conn_state.stream.log();
            let ghost chunk = nicks@;
            proof { assert(registered_of(s0, chunk, 0) =~= Seq::<&str>::empty()) by { reveal_with_fuel(registered_of, 1); } }
//@loop ~for nick in nicks\.iter\(\) iter=iti
                invariant
                    *state == s0, chunk == nicks@,
                    iti.seq().len() == chunk.len(),
                    forall|k: int| 0 <= k < iti.seq().len() ==> iti.seq()[k] == &chunk[k],
                    outs@ == registered_of(s0, chunk, iti.index@ as int), // @prop C19
//@after ~for nick in nicks\.iter\(\)
                broadcast use group_hash_axioms, bridge, string_eq;
                let ghost j = iti.index@ as int;
                proof {
                    assert(nick == &chunk[j]);
                    assert forall|x: String| (#[trigger] x@) == chunk[j]@ implies x == sk(chunk[j]) by { assert(string_of(x@) == x); }
                    assert(registered_of(s0, chunk, j + 1) == (if s0.users@.contains_key(sk(chunk[j])) { registered_of(s0, chunk, j).push(chunk[j]) } else { registered_of(s0, chunk, j) })) by { reveal_with_fuel(registered_of, 2); }
                }
//@endloop ~for nicks in verif_chunks_all
            proof {
                assert(conn_state.stream.log().len() == log_a.len() + 1);
                assert(ison_line_ok(conn_state.stream.log()[log_a.len() as int], s0, chunk)); // @prop C19
                assert forall|k: int| 0 <= k < log_a.len() implies conn_state.stream.log()[k] == log_a[k] by { }
            }
            assert(itp.index@ + 1 == itp.seq().len() ==> pieces_answered(s0, nicknames@, 0, log0, conn_state.stream.log())) by { // @prop C19
                if itp.index@ + 1 == itp.seq().len() {
                    let pieces = itp.seq();
                    assert forall|k: int| 0 <= k < pieces.len() implies ison_line_ok(#[trigger] conn_state.stream.log()[log0.len() + k], s0, pieces[k]@) by {
                        if k < itp.index@ { assert(conn_state.stream.log()[log0.len() + k] == log_a[log0.len() + k]); }
                    }
                }
            }
//@end
//@fn state/rest_cmds.rs MainState::process_userhost unit=ison props=C19,C05 rules=R0,R26,R23,R1,R2
//@replace ~|nicknames\.chunks\(20\)| => verif_chunks_all(&nicknames, 20)
//@ascribe replies Vec<String>
//@spec
        requires state_wf(*old(state)), conn_ok(*old(conn_state), *old(state)),
        ensures
            *final(state) == *old(state), conn_same_but_stream(*final(conn_state), *old(conn_state)), // @prop C19
            // one 302 per piece of the nickname list: an entry nick[*]=(+|-)~user@host for exactly the queried nicknames of that piece that are registered
            r is Ok ==> pieces_answered(*old(state), nicknames@, 1, old(conn_state).stream.log(), final(conn_state).stream.log()), // @prop C19
//@open
        broadcast use group_hash_axioms, bridge, string_eq, ax_fed_reply;
        let ghost s0 = *old(state);
        let ghost log0 = conn_state.stream.log();
//@loop ~for nicks in verif_chunks_all iter=itp
            invariant
                *state == s0, state_wf(s0), conn_same_but_stream(*conn_state, *old(conn_state)), log0 == old(conn_state).stream.log(),
                concat_views(itp.seq(), itp.seq().len() as int) == nicknames@,
                conn_state.stream.log().len() == log0.len() + itp.index@,
                forall|k: int| 0 <= k < log0.len() ==> conn_state.stream.log()[k] == log0[k],
                forall|k: int| 0 <= k < itp.index@ ==> userhost_line_ok(#[trigger] conn_state.stream.log()[log0.len() + k], s0, itp.seq()[k]@), // @prop C19
                itp.index@ == itp.seq().len() ==> pieces_answered(s0, nicknames@, 1, log0, conn_state.stream.log()), // @prop C19
//@after ~for nicks in verif_chunks_all
            broadcast use group_hash_axioms, bridge, string_eq, ax_fed_reply;
            let ghost log_a = conn_state.stream.log();
            let ghost chunk = nicks@;
            proof { assert(userhost_of(s0, chunk, 0) =~= Seq::<Seq<char>>::empty()) by { reveal_with_fuel(userhost_of, 1); } }
//@loop ~for nick in nicks\.iter\(\) iter=iti
                invariant
                    *state == s0, chunk == nicks@,
                    iti.seq().len() == chunk.len(),
                    forall|k: int| 0 <= k < iti.seq().len() ==> iti.seq()[k] == &chunk[k],
                    replies@.map_values(|r: String| r@) == userhost_of(s0, chunk, iti.index@ as int), // @prop C19
//@after ~for nick in nicks\.iter\(\)
                broadcast use group_hash_axioms, bridge, string_eq;
                let ghost j = iti.index@ as int;
                let ghost reps0 = replies@;
                proof {
                    assert(nick == &chunk[j]);
                    assert forall|x: String| (#[trigger] x@) == chunk[j]@ implies x == sk(chunk[j]) by { assert(string_of(x@) == x); }
                    assert(userhost_of(s0, chunk, j + 1) == (if s0.users@.contains_key(sk(chunk[j])) { userhost_of(s0, chunk, j).push(userhost_entry(chunk[j]@, s0.users@[sk(chunk[j])])) } else { userhost_of(s0, chunk, j) })) by { reveal_with_fuel(userhost_of, 2); }
                }
//@before ~replies\.push\(m__\);
                        proof {
                            // the entry built by format!("{}{}={}~{}@{}", nick, asterisk, away, user.name, user.hostname)
                            assert(m__@ =~= userhost_entry(chunk[j]@, s0.users@[sk(chunk[j])])) by { // @prop C19
                                broadcast use display_text;
                                reveal(fmt5_text); reveal_strlit(""); reveal_strlit("="); reveal_strlit("~"); reveal_strlit("@");
                                assert(""@ =~= Seq::<char>::empty());
                                assert(dv::<&&&str>(&nick) == chunk[j]@);
                                reveal_strlit("*");
                                assert(dv::<&String>(&user.name) == user.name@);
                                assert(dv::<&String>(&user.hostname) == user.hostname@);
                            }
                        }
//@endloop ~for nick in nicks\.iter\(\)
                proof {
                    let f = |r: String| r@;
                    if s0.users@.contains_key(sk(chunk[j])) {
                        assert(replies@ == reps0.push(replies@[reps0.len() as int]));
                        assert(replies@.map_values(f) =~= reps0.map_values(f).push(f(replies@[reps0.len() as int])));
                    }
                }
//@endloop ~for nicks in verif_chunks_all
            proof {
                assert(conn_state.stream.log().len() == log_a.len() + 1);
                assert(userhost_line_ok(conn_state.stream.log()[log_a.len() as int], s0, chunk)); // @prop C19
                assert forall|k: int| 0 <= k < log_a.len() implies conn_state.stream.log()[k] == log_a[k] by { }
            }
            assert(itp.index@ + 1 == itp.seq().len() ==> pieces_answered(s0, nicknames@, 1, log0, conn_state.stream.log())) by { // @prop C19
                if itp.index@ + 1 == itp.seq().len() {
                    let pieces = itp.seq();
                    assert forall|k: int| 0 <= k < pieces.len() implies userhost_line_ok(#[trigger] conn_state.stream.log()[log0.len() + k], s0, pieces[k]@) by {
                        if k < itp.index@ { assert(conn_state.stream.log()[log0.len() + k] == log_a[log0.len() + k]); }
                    }
                }
            }
//@end
}

// ===== CONTRACT: WHOWAS (C05: no count makes the handler abort; C06: the record kept at session end can be read back) =====
// ASSUMED stand-in for `format!("Logged in at {}", DateTime::<Utc>::from_utc(NaiveDateTime::from_timestamp(signon as i64, 0), Utc))` (chrono)
#[verifier::external_body]
pub fn verif_logged_in_at(signon: u64) -> (r: String) { unimplemented!() }
impl MainState {
//@fn state/rest_cmds.rs MainState::process_whowas unit=ison props=C05,C06 rules=R29,R1,R2
//@replace ~|(?s)&format!\(\s*"Logged in at \{\}",\s*DateTime::<Utc>::from_utc\(.*?Utc\s*\)\s*\)| => &verif_logged_in_at(entry.signon)
//@spec
        requires state_wf(*old(state)), conn_ok(*old(conn_state), *old(state)),
        ensures
            // whatever the count: the handler completes, changes nothing and answers
            *final(state) == *old(state), conn_same_but_stream(*final(conn_state), *old(conn_state)), // @prop C05
            r is Ok ==> final(conn_state).stream.log().len() > old(conn_state).stream.log().len(), // @prop C05
            // a nickname with a record: one 314 (+312) pair per entry shown, at most `count` of them, never more than there are
            r is Ok && server is None && old(state).nick_histories@.contains_key(sk(nickname)) ==> ({
                let h = old(state).nick_histories@[sk(nickname)]@.len();
                let shown = if count is Some && count->0 > 0 && count->0 < h { count->0 as int } else { h as int };
                final(conn_state).stream.log().len() == old(conn_state).stream.log().len() + 2 * shown + 1
            }), // @prop C06
            r is Ok && server is None && !old(state).nick_histories@.contains_key(sk(nickname)) ==>
                final(conn_state).stream.log().len() == old(conn_state).stream.log().len() + 2, // @prop C06
//@open
        broadcast use group_hash_axioms, bridge;
        let ghost l0 = conn_state.stream.log().len();
//@loop ~while i__ < n__
                    invariant
                        *state == *old(state), conn_same_but_stream(*conn_state, *old(conn_state)),
                        n__ <= hist@.len(), i__ <= n__,
                        conn_state.stream.log().len() == l0 + 2 * i__,
                    decreases n__ - i__,
//@end
}
