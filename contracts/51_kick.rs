// ===== CONTRACTS: KICK (C09, C05, C04) =====
pub open spec fn kick_ok(s: VolatileState, actor: String, c: String, victim: String) -> bool {
    &&& s.channels@.contains_key(c)
    &&& s.channels@[c].users@.contains_key(actor)
    &&& half_op(s.channels@[c].users@[actor])
    &&& s.channels@[c].users@.contains_key(victim)
    &&& !is_prot(s.channels@[c].users@[victim])
    &&& !(only_half_op(s.channels@[c].users@[actor]) && half_op(s.channels@[c].users@[victim]))
}
pub open spec fn listed(ks: Seq<&str>, v: String) -> bool {
    exists|i: int| 0 <= i < ks.len() && sk(#[trigger] ks[i]) == v
}
// the users removed by KICK: listed and permitted
pub open spec fn kicked_p(s: VolatileState, actor: String, c: String, ks: Seq<&str>, v: String) -> bool {
    kick_ok(s, actor, c, v) && listed(ks, v)
}
// channel `nc` is `oc` with exactly the users satisfying `gone` removed (members and all five rank lists)
pub open spec fn chan_minus(oc: Channel, nc: Channel, gone: spec_fn(String) -> bool) -> bool {
    &&& chan_rest_eq(oc, nc)
    &&& (forall|n: String| #[trigger] nc.users@.contains_key(n) <==> (oc.users@.contains_key(n) && !gone(n)))
    &&& (forall|n: String| nc.users@.contains_key(n) ==> #[trigger] nc.users@[n] == oc.users@[n])
    &&& (forall|n: String| #[trigger] oset(nc.modes.founders).contains(n) <==> (oset(oc.modes.founders).contains(n) && !gone(n)))
    &&& (forall|n: String| #[trigger] oset(nc.modes.protecteds).contains(n) <==> (oset(oc.modes.protecteds).contains(n) && !gone(n)))
    &&& (forall|n: String| #[trigger] oset(nc.modes.operators).contains(n) <==> (oset(oc.modes.operators).contains(n) && !gone(n)))
    &&& (forall|n: String| #[trigger] oset(nc.modes.half_operators).contains(n) <==> (oset(oc.modes.half_operators).contains(n) && !gone(n)))
    &&& (forall|n: String| #[trigger] oset(nc.modes.voices).contains(n) <==> (oset(oc.modes.voices).contains(n) && !gone(n)))
}
pub open spec fn kick_post(o: VolatileState, n: VolatileState, c: String, gone: spec_fn(String) -> bool) -> bool {
    &&& state_rest_same(o, n)
    &&& n.users@.dom() == o.users@.dom()
    &&& (forall|u: String| o.users@.contains_key(u) && !gone(u) ==> #[trigger] n.users@[u] == o.users@[u])
    &&& (forall|u: String| o.users@.contains_key(u) && gone(u) ==>
            (#[trigger] n.users@[u]).channels@ == o.users@[u].channels@.remove(c) && user_same_except_channels(n.users@[u], o.users@[u]))
    &&& (forall|d: String| d != c ==> (#[trigger] n.channels@.contains_key(d) <==> o.channels@.contains_key(d)))
    &&& (forall|d: String| d != c && o.channels@.contains_key(d) ==> #[trigger] n.channels@[d] == o.channels@[d])
    &&& (o.channels@.contains_key(c) ==> {
            let oc = o.channels@[c];
            if (forall|m: String| oc.users@.contains_key(m) ==> gone(m)) && (exists|m: String| oc.users@.contains_key(m) && gone(m)) && !oc.preconfigured {
                !n.channels@.contains_key(c)
            } else {
                n.channels@.contains_key(c) && chan_minus(oc, n.channels@[c], gone)
            }
        })
    &&& (!o.channels@.contains_key(c) ==> !n.channels@.contains_key(c))
}

// ---- the announcement of a KICK (C09: "announced to the remaining members and to the victim"; C04) ----
// the relayed line `:<kicker nick!user@host> KICK <channel> <victim> :<comment or "Kicked">`
#[verifier::opaque]
pub open spec fn kick_line(src: Seq<char>, channel: Seq<char>, victim: Seq<char>, comment: Option<&str>) -> Seq<char> {
    seq![':'] + src + seq![' '] + ("KICK "@ + channel + " "@ + victim + " :"@ + (if comment is Some { comment->0@ } else { "Kicked"@ }))
}
pub proof fn lemma_kick_line(src: Seq<char>, channel: &str, ku: &&&str, comment: Option<&str>, msg: String)
    requires msg@ == "KICK "@ + dv::<&&str>(&channel) + " "@ + dv::<&&&&str>(&ku) + " :"@ + dv::<&&str>(&(if comment is Some { comment->0 } else { "Kicked" })),
    ensures disp::<String>(src, msg) == kick_line(src, channel@, (***ku)@, comment),
{
    broadcast use display_text;
    reveal(kick_line);
    assert(dv::<&&str>(&channel) == channel@);
    assert(dv::<&&&&str>(&ku) == (***ku)@);
}
// one victim: every member of the channel as it is after all removals (if it still exists) and the victim get the line, one copy each,
// nobody else gets anything (the order among the recipients is not part of the statement)
pub open spec fn kick_audience(s: VolatileState, c: String, victim: String) -> Set<String> {
    (if s.channels@.contains_key(c) { s.channels@[c].users@.dom() } else { Set::<String>::empty() }).insert(victim)
}
pub open spec fn kick_announce_step(s: VolatileState, c: String, victim: String, line: Seq<char>, before: Seq<(int, Seq<char>)>, after: Seq<(int, Seq<char>)>) -> bool {
    delivered_to_members(before, after, s, kick_audience(s, c, victim), line)
}
// the two ways the code may go about it: members first and then the victim, or the victim first
pub proof fn lemma_kick_step_either(s: VolatileState, c: String, victim: String, line: Seq<char>, a: Seq<(int, Seq<char>)>, ls: Seq<(int, Seq<char>)>, le: Seq<(int, Seq<char>)>, z: Seq<(int, Seq<char>)>)
    requires
        s.channels@.contains_key(c) ==> !s.channels@[c].users@.contains_key(victim),
        if s.channels@.contains_key(c) { delivered_to_members(ls, le, s, s.channels@[c].users@.dom(), line) } else { le == ls },
        (ls == a && z == le.push((s.users@[victim].sender.id(), line))) || (ls == a.push((s.users@[victim].sender.id(), line)) && z == le),
    ensures kick_announce_step(s, c, victim, line, a, z)
{
    let f = |n: String| (s.users@[n].sender.id(), line);
    let members = if s.channels@.contains_key(c) { s.channels@[c].users@.dom() } else { Set::<String>::empty() };
    let o1: Seq<String> = if s.channels@.contains_key(c) {
        choose|order: Seq<String>| #![trigger order.no_duplicates()] order.no_duplicates() && (forall|n: String| order.contains(n) <==> members.contains(n)) && le == ls + order.map_values(f)
    } else { Seq::<String>::empty() };
    assert(o1.no_duplicates() && (forall|n: String| o1.contains(n) <==> members.contains(n)) && le =~= ls + o1.map_values(f));
    assert(!o1.contains(victim));
    if ls == a {
        let o2 = o1.push(victim);
        assert(o2.map_values(f) =~= o1.map_values(f).push(f(victim)));
        assert(z =~= a + o2.map_values(f));
        assert forall|n: String| o2.contains(n) <==> kick_audience(s, c, victim).contains(n) by {
            if o2.contains(n) { let i = choose|i: int| 0 <= i < o2.len() && o2[i] == n; if i < o1.len() { assert(o1[i] == n); assert(o1.contains(n)); } }
            if members.contains(n) { assert(o1.contains(n)); let i = choose|i: int| 0 <= i < o1.len() && o1[i] == n; assert(o2[i] == n); }
            if n == victim { assert(o2[o1.len() as int] == n); }
        }
        assert(o2.no_duplicates());
        assert(delivered_to_members(a, z, s, kick_audience(s, c, victim), line));
    } else {
        let o2 = seq![victim] + o1;
        assert(o2.map_values(f) =~= seq![f(victim)] + o1.map_values(f));
        assert(z =~= a + o2.map_values(f));
        assert forall|n: String| o2.contains(n) <==> kick_audience(s, c, victim).contains(n) by {
            if o2.contains(n) { let i = choose|i: int| 0 <= i < o2.len() && o2[i] == n; if i > 0 { assert(o1[i - 1] == n); assert(o1.contains(n)); } }
            if members.contains(n) { assert(o1.contains(n)); let i = choose|i: int| 0 <= i < o1.len() && o1[i] == n; assert(o2[i + 1] == n); }
            if n == victim { assert(o2[0] == n); }
        }
        assert(o2.no_duplicates()) by {
            assert forall|i: int, j: int| 0 <= i < j < o2.len() implies o2[i] != o2[j] by {
                if i == 0 { assert(o1[j - 1] == o2[j]); assert(o1.contains(o2[j])); } else { assert(o1[i - 1] == o2[i] && o1[j - 1] == o2[j]); }
            }
        }
        assert(delivered_to_members(a, z, s, kick_audience(s, c, victim), line));
    }
}
// the victims in the order they were kicked: logs[i] -> logs[i+1] is the announcement of victims[i]
pub open spec fn kick_announced(s: VolatileState, c: String, src: Seq<char>, channel: Seq<char>, comment: Option<&str>, victims: Seq<Seq<char>>, logs: Seq<Seq<(int, Seq<char>)>>) -> bool {
    &&& logs.len() == victims.len() + 1
    &&& forall|i: int| 0 <= i < victims.len() ==> #[trigger] kick_announce_step(s, c, string_of(victims[i]), kick_line(src, channel, victims[i], comment), logs[i], logs[i + 1])
}

pub open spec fn in_kicked(kicked: Seq<&&str>, v: Seq<char>) -> bool {
    exists|j: int| 0 <= j < kicked.len() && (#[trigger] kicked[j])@ == v
}
pub open spec fn conn_same_but_stream(a: ConnState, b: ConnState) -> bool {
    a.user_state == b.user_state && a.receiver == b.receiver && a.sender == b.sender && a.caps == b.caps
    && a.caps_negotation == b.caps_negotation && a.quit == b.quit && a.quit_sender == b.quit_sender
    && a.ping_sender == b.ping_sender && a.ping_receiver == b.ping_receiver && a.timeout_sender == b.timeout_sender
    && a.timeout_receiver == b.timeout_receiver && a.pong_notifier == b.pong_notifier && a.quit_receiver == b.quit_receiver
    && a.dns_lookup_receiver == b.dns_lookup_receiver && a.conns_count == b.conns_count
}
// everything of the connection but the pending pong notifier (and the reply stream) is as before
pub open spec fn conn_same_but_pong(a: ConnState, b: ConnState) -> bool {
    a.user_state == b.user_state && a.receiver == b.receiver && a.sender == b.sender && a.caps == b.caps
    && a.caps_negotation == b.caps_negotation && a.quit == b.quit && a.quit_sender == b.quit_sender
    && a.ping_sender == b.ping_sender && a.ping_receiver == b.ping_receiver && a.timeout_sender == b.timeout_sender
    && a.timeout_receiver == b.timeout_receiver && a.quit_receiver == b.quit_receiver
    && a.dns_lookup_receiver == b.dns_lookup_receiver && a.conns_count == b.conns_count
}
// effect of one remove_user_from_channel(c, nick) step, as its contract states it
pub open spec fn rufc_step(a: VolatileState, b: VolatileState, c: String, nick: String) -> bool {
    &&& (forall|d: String| d != c ==> (b.channels@.contains_key(d) <==> a.channels@.contains_key(d)))
    &&& (forall|d: String| d != c && a.channels@.contains_key(d) ==> b.channels@[d] == a.channels@[d])
    &&& post_chan(a.channels@, b.channels@, c, nick)
    &&& b.users@.dom() == a.users@.dom()
    &&& (forall|n: String| n != nick && a.users@.contains_key(n) ==> b.users@[n] == a.users@[n])
    &&& (a.users@.contains_key(nick) ==> b.users@[nick].channels@ == a.users@[nick].channels@.remove(c)
            && user_same_except_channels(b.users@[nick], a.users@[nick]))
    &&& state_rest_same(a, b)
}
pub proof fn lemma_kick_step(o: VolatileState, a: VolatileState, b: VolatileState, c: String, nick: String,
        ga: spec_fn(String) -> bool, gb: spec_fn(String) -> bool)
    requires kick_post(o, a, c, ga), rufc_step(a, b, c, nick),
        forall|v: String| #[trigger] gb(v) <==> (ga(v) || v == nick),
        !ga(nick), o.channels@.contains_key(c), o.channels@[c].users@.contains_key(nick), o.users@.contains_key(nick),
    ensures kick_post(o, b, c, gb)
{
    let oc = o.channels@[c];
    assert(a.channels@.contains_key(c)) by {
        // nick is still there, so the channel cannot have been emptied
        if !a.channels@.contains_key(c) { assert(ga(nick)); }
    }
    let ac = a.channels@[c];
    assert(ac.users@.contains_key(nick));
    if (forall|m: String| oc.users@.contains_key(m) ==> gb(m)) && !oc.preconfigured {
        assert(ac.users@.remove(nick).dom() =~= Set::<String>::empty()) by {
            assert forall|m: String| !ac.users@.remove(nick).dom().contains(m) by {
                if ac.users@.contains_key(m) && m != nick { assert(oc.users@.contains_key(m) && !ga(m)); assert(gb(m)); }
            }
        }
        assert(ac.users@.remove(nick).len() == 0);
        assert(!b.channels@.contains_key(c));
        assert(gb(nick));
    } else {
        assert(b.channels@.contains_key(c)) by {
            if oc.preconfigured { assert(ac.preconfigured); }
            else {
                let m = choose|m: String| oc.users@.contains_key(m) && !gb(m);
                assert(ac.users@.contains_key(m));
                assert(ac.users@.remove(nick).contains_key(m));
                if ac.users@.remove(nick).len() == 0 { assert(ac.users@.remove(nick).dom() =~= Set::<String>::empty()); assert(false); }
            }
        }
        let bc = b.channels@[c];
        assert(chan_after_leave(ac, bc, nick));
        assert(chan_minus(oc, bc, gb));
    }
    assert(b.users@.dom() == o.users@.dom());
}
// KICK keeps the state well formed (proved)
pub proof fn lemma_kick_wf(o: VolatileState, n: VolatileState, c: String, gone: spec_fn(String) -> bool)
    requires state_wf(o), kick_post(o, n, c, gone),
        forall|v: String| #[trigger] gone(v) ==> member(o, v, c),
    ensures state_wf(n)
{
    assert forall|u: String, d: String| #![trigger n.users@[u].channels@.contains(d)] #![trigger member(n, u, d)]
        (n.users@.contains_key(u) && n.users@[u].channels@.contains(d)) <==> member(n, u, d) by {
        assert((o.users@.contains_key(u) && o.users@[u].channels@.contains(d)) <==> member(o, u, d));
        if d != c {
            if o.users@.contains_key(u) && gone(u) { assert(n.users@[u].channels@.contains(d) == o.users@[u].channels@.contains(d)); }
        } else {
            if gone(u) { assert(member(o, u, c)); assert(o.users@.contains_key(u)); }
        }
    }
    assert(sym(n));
    assert(chans_wf(n)) by {
        assert forall|d: String| n.channels@.contains_key(d) implies chan_wf(#[trigger] n.channels@[d]) by {
            assert(chan_wf(o.channels@[d]));
            if d == c {
                let oc = o.channels@[c]; let nc = n.channels@[c];
                assert(chan_minus(oc, nc, gone));
                assert forall|m: String| #[trigger] oset(nc.modes.founders).contains(m) <==> (nc.users@.contains_key(m) && nc.users@[m].founder) by {
                    assert(oset(oc.modes.founders).contains(m) <==> (oc.users@.contains_key(m) && oc.users@[m].founder)); }
                assert forall|m: String| #[trigger] oset(nc.modes.protecteds).contains(m) <==> (nc.users@.contains_key(m) && nc.users@[m].protected) by {
                    assert(oset(oc.modes.protecteds).contains(m) <==> (oc.users@.contains_key(m) && oc.users@[m].protected)); }
                assert forall|m: String| #[trigger] oset(nc.modes.operators).contains(m) <==> (nc.users@.contains_key(m) && nc.users@[m].operator) by {
                    assert(oset(oc.modes.operators).contains(m) <==> (oc.users@.contains_key(m) && oc.users@[m].operator)); }
                assert forall|m: String| #[trigger] oset(nc.modes.half_operators).contains(m) <==> (nc.users@.contains_key(m) && nc.users@[m].half_oper) by {
                    assert(oset(oc.modes.half_operators).contains(m) <==> (oc.users@.contains_key(m) && oc.users@[m].half_oper)); }
                assert forall|m: String| #[trigger] oset(nc.modes.voices).contains(m) <==> (nc.users@.contains_key(m) && nc.users@[m].voice) by {
                    assert(oset(oc.modes.voices).contains(m) <==> (oc.users@.contains_key(m) && oc.users@[m].voice)); }
            }
        }
    }
    assert(no_empty_chan(n)) by {
        assert forall|d: String| n.channels@.contains_key(d) && !(#[trigger] n.channels@[d]).preconfigured implies n.channels@[d].users@.len() > 0 by {
            assert(!o.channels@[d].preconfigured ==> o.channels@[d].users@.len() > 0);
            if d == c {
                let oc = o.channels@[c]; let nc = n.channels@[c];
                if exists|m: String| oc.users@.contains_key(m) && !gone(m) {
                    let m = choose|m: String| oc.users@.contains_key(m) && !gone(m);
                    assert(nc.users@.contains_key(m));
                    if nc.users@.len() == 0 { assert(nc.users@.dom() =~= Set::<String>::empty()); assert(false); }
                } else {
                    // nobody stays: then either nobody was removed (channel unchanged) or the channel is gone
                    if exists|m: String| oc.users@.contains_key(m) && gone(m) { assert(false); }
                    else {
                        assert(oc.users@.dom() =~= Set::<String>::empty()) by {
                            assert forall|m: String| !oc.users@.dom().contains(m) by { }
                        }
                        assert(false);
                    }
                }
            }
        }
    }
    assert(wallops_wf(n)) by {
        assert forall|u: String| #[trigger] n.wallops_users@.contains(u) <==> (n.users@.contains_key(u) && n.users@[u].modes.wallops) by {
            assert(o.wallops_users@.contains(u) <==> (o.users@.contains_key(u) && o.users@[u].modes.wallops));
        }
    }
    assert(counters_wf(n)) by {
        assert forall|u: String| o.users@.contains_key(u) implies (#[trigger] o.users@[u]).modes == n.users@[u].modes by { }
        lemma_sets_same_modes(o.users@, n.users@);
    }
    assert(senders_distinct(n));
}

impl MainState {
//@fn state/channel_cmds.rs MainState::process_kick unit=kick props=C09,C05,C04,C16 rules=R1,R2,R6,R23
//@attr #[verifier::loop_isolation(false)]
//@spec
        requires
            state_wf(*old(state)),
            conn_ok(*old(conn_state), *old(state)),
        ensures
            conn_same_but_stream(*final(conn_state), *old(conn_state)), // @prop C09
            sym(*final(state)), // @prop C04,C05
            chans_wf(*final(state)), // @prop C04,C08
            no_empty_chan(*final(state)), // @prop C16
            wallops_wf(*final(state)), // @prop C11,C06,C05
            counters_wf(*final(state)), // @prop C19
            senders_distinct(*final(state)), // @prop C02,C01
            conn_ok(*final(conn_state), *final(state)), // @prop C09
            kick_post(*old(state), *final(state), sk(channel), // @prop C09,C04,C16
                |v: String| kicked_p(*old(state), my_nick(*old(conn_state)), sk(channel), kick_users@, v)),
            // every kick is announced: to the members that remain and to the victim, one copy each, nobody else
            r is Ok ==> exists|victims: Seq<Seq<char>>, logs: Seq<Seq<(int, Seq<char>)>>|
                #![trigger kick_announced(*final(state), sk(channel), old(conn_state).user_state.source@, channel@, comment, victims, logs)]
                victims.no_duplicates()
                && (forall|v: String| victims.contains(v@) <==> kicked_p(*old(state), my_nick(*old(conn_state)), sk(channel), kick_users@, v))
                && kick_announced(*final(state), sk(channel), old(conn_state).user_state.source@, channel@, comment, victims, logs)
                && logs[0] == old(outbox).log && logs[victims.len() as int] == final(outbox).log, // @prop C09,C04
//@ascribe kicked Vec<&&'a str>
//@open
        broadcast use group_hash_axioms, bridge, string_eq, lemma_cover_is_exact;
        let ghost me = my_nick(*conn_state);
        let ghost ck = sk(channel);
        let ghost ks = kick_users@;
        let ghost gone = |v: String| kicked_p(*old(state), me, ck, ks, v);
        let ghost mut idxs: Seq<int> = Seq::empty();
//@loop ~for kick_user in &kick_users iter=it1
                        invariant
                            conn_same_but_stream(*conn_state, *old(conn_state)),
                            it1.seq().len() == ks.len(),
                            forall|i: int| 0 <= i < it1.seq().len() ==> it1.seq()[i] == &ks[i],
                            kicked@.len() == idxs.len(),
                            forall|j: int| 0 <= j < kicked@.len() ==> 0 <= #[trigger] idxs[j] < it1.index@ && kicked@[j] == &ks[idxs[j]]
                                && kick_ok(*old(state), me, ck, sk(ks[idxs[j]])),
                            forall|j1: int, j2: int| 0 <= j1 < j2 < kicked@.len() ==> (#[trigger] kicked@[j1])@ != (#[trigger] kicked@[j2])@,
                            forall|i: int| 0 <= i < it1.index@ && kick_ok(*old(state), me, ck, sk(#[trigger] ks[i])) ==> in_kicked(kicked@, ks[i]@),
//@after ~for kick_user in &kick_users
                        let ghost kicked0 = kicked@;
                        let ghost idx0 = it1.index@ as int;
                        assert(kick_user == &ks[idx0]);
//@before ~if let Some\(chum\) = chanobj\.users\.get\(&ku\)
                        assert(ku == sk(ks[idx0]));
//@after ~kicked\.push\(kick_user\);
                                    proof {
                                        idxs = idxs.push(idx0);
                                        assert forall|i: int| 0 <= i < idx0 + 1 && kick_ok(*old(state), me, ck, sk(#[trigger] ks[i])) implies in_kicked(kicked@, ks[i]@) by {
                                            if i < idx0 { let j = choose|j: int| 0 <= j < kicked0.len() && (#[trigger] kicked0[j])@ == ks[i]@; assert(kicked@[j]@ == ks[i]@); }
                                            else { assert(kicked@[kicked0.len() as int]@ == ks[i]@); }
                                        }
                                    }
//@before ~// kick users
        proof {
            // summary of the selection phase
            assert forall|j: int| 0 <= j < kicked@.len() implies gone(sk(*#[trigger] kicked@[j])) by {
                assert(kicked@[j] == &ks[idxs[j]]);
                assert(sk(ks[idxs[j]]) == sk(*kicked@[j]));
            }
            assert forall|v: String| gone(v) implies in_kicked(kicked@, v@) by {
                let i = choose|i: int| 0 <= i < ks.len() && sk(#[trigger] ks[i]) == v;
                assert(kick_ok(*old(state), me, ck, sk(ks[i])));
                assert(in_kicked(kicked@, ks[i]@));
            }
            assert(*state == *old(state));
        }
        let ghost kk = kicked@;
//@loop ~for ku in &kicked iter=it2
                invariant
                    it2.seq().len() == kk.len(),
                    forall|i: int| 0 <= i < it2.seq().len() ==> it2.seq()[i] == &kk[i],
                    kicked@ == kk,
                    kick_post(*old(state), *state, ck, |v: String| in_kicked(kk.take(it2.index@ as int), v@)),
//@after ~for ku in &kicked
                let ghost j = it2.index@ as int;
                let ghost pre = *state;
                let ghost ga = |v: String| in_kicked(kk.take(j), v@);
                let ghost gb = |v: String| in_kicked(kk.take(j + 1), v@);
                proof {
                    assert(ku == &kk[j]);
                    assert(gone(sk(*kk[j])));
                    assert(member(*old(state), sk(*kk[j]), ck));
                    assert(!ga(sk(*kk[j]))) by {
                        if ga(sk(*kk[j])) { let t = choose|t: int| 0 <= t < kk.take(j).len() && (#[trigger] kk.take(j)[t])@ == sk(*kk[j])@; assert(kk[t]@ == kk[j]@); }
                    }
                    if state.channels@.contains_key(ck) { assert(state.channels@[ck].users@.contains_key(sk(*kk[j]))); }
                }
//@after ~state\.remove_user_from_channel\(channel, ku\);
                proof {
                    assert forall|v: String| #[trigger] gb(v) <==> (ga(v) || v == sk(*kk[j])) by {
                        if ga(v) { let t = choose|t: int| 0 <= t < kk.take(j).len() && (#[trigger] kk.take(j)[t])@ == v@; assert(kk.take(j + 1)[t]@ == v@); }
                        if v == sk(*kk[j]) { assert(kk.take(j + 1)[j]@ == v@); }
                        if gb(v) { let t = choose|t: int| 0 <= t < kk.take(j + 1).len() && (#[trigger] kk.take(j + 1)[t])@ == v@;
                            if t < j { assert(kk.take(j)[t]@ == v@); } else { assert(v@ == kk[j]@); assert(string_of(v@) == v); } }
                    }
                    assert(rufc_step(pre, *state, ck, sk(*kk[j])));
                    lemma_kick_step(*old(state), pre, *state, ck, sk(*kk[j]), ga, gb);
                }
//@afterloop ~for ku in &kicked
            proof {
                assert(kk.take(kk.len() as int) =~= kk);
                let gl = |v: String| in_kicked(kk, v@);
                assert(kick_post(*old(state), *state, ck, gl));
                assert forall|v: String| #[trigger] gl(v) <==> gone(v) by {
                    if gl(v) { let t = choose|t: int| 0 <= t < kk.len() && (#[trigger] kk[t])@ == v@; assert(gone(sk(*kk[t]))); assert(string_of(v@) == v); }
                }
                lemma_kick_post_ext(*old(state), *state, ck, gl, gone);
                assert forall|v: String| #[trigger] gone(v) implies member(*old(state), v, ck) by { }
                lemma_kick_wf(*old(state), *state, ck, gone);
            }
            let ghost fin = *state;
            let ghost src = conn_state.user_state.source@;
            let ghost mut vs: Seq<Seq<char>> = Seq::empty();
            let ghost mut logs: Seq<Seq<(int, Seq<char>)>> = seq![outbox.log];
            proof { assert(outbox.log == old(outbox).log); }
//@loop ~for ku in &kicked #2 iter=it3
                invariant
                    *state == fin, state_wf(fin), kicked@ == kk,
                    it3.seq().len() == kk.len(),
                    forall|i: int| 0 <= i < it3.seq().len() ==> it3.seq()[i] == &kk[i],
                    conn_same_but_stream(*conn_state, *old(conn_state)), src == old(conn_state).user_state.source@,
                    vs.len() == it3.index@,
                    forall|i: int| 0 <= i < vs.len() ==> #[trigger] vs[i] == (**kk[i])@,
                    kick_announced(fin, ck, src, channel@, comment, vs, logs), // @prop C09,C04
                    logs[0] == old(outbox).log, logs[vs.len() as int] == outbox.log, // @prop C09,C04
//@after ~for ku in &kicked #2
                let ghost j3 = it3.index@ as int;
                let ghost log_a = outbox.log;
                let ghost mut order: Seq<String> = Seq::empty();
                proof { assert(ku == &kk[j3]); }
//@after ~let kick_msg = verif_fmt3
                let ghost line = kick_line(src, channel@, (***ku)@, comment);
                proof {
                    assert(kick_msg@ == "KICK "@ + dv::<&&str>(&channel) + " "@ + dv::<&&&&str>(&ku) + " :"@ + dv::<&&str>(&(if comment is Some { comment->0 } else { "Kicked" }))) by { // @prop C09,C13
                        reveal(fmt3_text); reveal_strlit("");
                        assert(""@ =~= Seq::<char>::empty());
                        assert(kick_msg@ =~= "KICK "@ + dv::<&&str>(&channel) + " "@ + dv::<&&&&str>(&ku) + " :"@ + dv::<&&str>(&(if comment is Some { comment->0 } else { "Kicked" }))); // @prop C09,C13
                    }
                    lemma_kick_line(src, channel, ku, comment, kick_msg);
                }
//@before ~if let Some\(chanobj\) = state\.channels\.get\(channel\) \{ #2
                // the log when the fan-out to the remaining members starts (wherever the copy for the victim is sent: before or after)
                let ghost log_s = outbox.log;
//@loop ~for nick in chanobj\.users\.keys\(\) iter=it4
                        invariant
                            *state == fin, state_wf(fin),
                            fin.channels@.contains_key(ck), chanobj.users@ == fin.channels@[ck].users@,
                            it4.seq().no_duplicates(),
                            it4.seq().len() == chanobj.users@.dom().len(),
                            forall|k: String| chanobj.users@.dom().contains(k) ==> exists|i: int| 0 <= i < it4.seq().len() && *#[trigger] it4.seq()[i] == k,
                            order.len() == it4.index@,
                            order.no_duplicates(),
                            forall|a: int, l: int| #![trigger order[a], it4.seq()[l]] 0 <= a < order.len() && order.len() <= l < it4.seq().len() ==> order[a] != *it4.seq()[l],
                            forall|i: int| 0 <= i < order.len() ==> chanobj.users@.dom().contains(#[trigger] order[i]),
                            forall|a: int| 0 <= a < it4.index@ ==> order[a] == *#[trigger] it4.seq()[a],
                            line == disp::<String>(src, kick_msg),
                            outbox.log == log_s + order.map_values(|n: String| (fin.users@[n].sender.id(), line)), // @prop C09,C04
//@after ~for nick in chanobj\.users\.keys\(\)
                        proof {
                            assert(chanobj.users@.dom().contains(*nick));
                            assert(member(fin, *nick, ck));
                        }
//@endloop ~for nick in chanobj\.users\.keys\(\)
                        proof {
                            assert forall|a: int| 0 <= a < order.len() implies order[a] != *nick by { }
                            let f = |n: String| (fin.users@[n].sender.id(), line);
                            assert(order.push(*nick).map_values(f) =~= order.map_values(f).push(f(*nick)));
                            order = order.push(*nick);
                        }
//@afterloop ~for nick in chanobj\.users\.keys\(\)
                    proof {
                        assert(order.len() == chanobj.users@.dom().len());
                        lemma_nodup_subset_full(order, chanobj.users@.dom());
                        assert(delivered_to_members(log_s, outbox.log, fin, fin.channels@[ck].users@.dom(), line));
                    }
//@afterblock ~if let Some\(chanobj\) = state\.channels\.get\(channel\) \{ #2
                let ghost log_e = outbox.log;
                proof {
                    assert(gone(sk(*kk[j3])));
                    assert(member(*old(state), sk(*kk[j3]), ck));
                    assert(old(state).users@.contains_key(sk(*kk[j3])));
                    assert(if fin.channels@.contains_key(ck) { delivered_to_members(log_s, log_e, fin, fin.channels@[ck].users@.dom(), line) } else { log_e == log_s });
                }
//@endloop ~for ku in &kicked #2
                proof {
                    let v = (***ku)@;
                    assert(string_of(v) == sk(*kk[j3]));
                    let x = (fin.users@[string_of(v)].sender.id(), line);
                    // members first and then the victim, or the other way round
                    assert((log_s == log_a && outbox.log == log_e.push(x)) || (log_s == log_a.push(x) && outbox.log == log_e)); // @prop C09,C04
                    assert(fin.channels@.contains_key(ck) ==> !fin.channels@[ck].users@.contains_key(string_of(v))) by {
                        if fin.channels@.contains_key(ck) && fin.channels@[ck].users@.contains_key(string_of(v)) { assert(member(fin, string_of(v), ck)); }
                    }
                    lemma_kick_step_either(fin, ck, string_of(v), line, log_a, log_s, log_e, outbox.log);
                    assert(kick_announce_step(fin, ck, string_of(v), line, log_a, outbox.log)); // @prop C09,C04
                    let vs0 = vs; let logs0 = logs;
                    vs = vs0.push(v);
                    logs = logs0.push(outbox.log);
                    assert forall|i: int| 0 <= i < vs.len() implies #[trigger] kick_announce_step(fin, ck, string_of(vs[i]), kick_line(src, channel@, vs[i], comment), logs[i], logs[i + 1]) by {
                        if i < vs0.len() { assert(kick_announce_step(fin, ck, string_of(vs0[i]), kick_line(src, channel@, vs0[i], comment), logs0[i], logs0[i + 1])); }
                    }
                }
//@afterloop ~for ku in &kicked #2
        proof {
            // the victims announced are exactly the users removed, each once
            assert(vs.len() == kk.len());
            assert forall|a: int, b: int| 0 <= a < b < vs.len() implies vs[a] != vs[b] by { assert(kk[a]@ != kk[b]@); }
            assert forall|v: String| vs.contains(v@) <==> gone(v) by {
                if vs.contains(v@) { let t = choose|t: int| 0 <= t < vs.len() && vs[t] == v@; assert(gone(sk(*kk[t]))); assert(string_of(v@) == v); }
                if gone(v) { assert(in_kicked(kk, v@)); let t = choose|t: int| 0 <= t < kk.len() && (#[trigger] kk[t])@ == v@; assert(vs[t] == v@); }
            }
        }
//@end
}
// kick_post depends on `gone` only through its extension (proved)
pub proof fn lemma_kick_post_ext(o: VolatileState, n: VolatileState, c: String, g1: spec_fn(String) -> bool, g2: spec_fn(String) -> bool)
    requires kick_post(o, n, c, g1), forall|v: String| #[trigger] g1(v) <==> g2(v),
    ensures kick_post(o, n, c, g2)
{
    if o.channels@.contains_key(c) && n.channels@.contains_key(c) {
        assert(chan_minus(o.channels@[c], n.channels@[c], g2));
    }
}
