// ===== CONTRACTS: NICK (C15, C02) =====
pub open spec fn chan_renamed(oc: Channel, nc: Channel, a: String, b: String) -> bool {
    &&& chan_rest_eq(oc, nc)
    &&& nc.users@ == oc.users@.remove(a).insert(b, oc.users@[a])
    &&& oset(nc.modes.operators) == orekey(oc.modes.operators, a, b)
    &&& oset(nc.modes.half_operators) == orekey(oc.modes.half_operators, a, b)
    &&& oset(nc.modes.voices) == orekey(oc.modes.voices, a, b)
    &&& oset(nc.modes.founders) == orekey(oc.modes.founders, a, b)
    &&& oset(nc.modes.protecteds) == orekey(oc.modes.protecteds, a, b)
    &&& chan_wf(nc)
}
// whole-view effect of an accepted nick change a -> b
pub open spec fn nick_post(o: VolatileState, n: VolatileState, a: String, b: String, new_source: String) -> bool {
    &&& n.users@ == o.users@.remove(a).insert(b, User { source: new_source, ..o.users@[a] })
    &&& n.channels@.dom() == o.channels@.dom()
    &&& (forall|c: String| o.channels@.contains_key(c) ==>
            if o.users@[a].channels@.contains(c) { chan_renamed(o.channels@[c], #[trigger] n.channels@[c], a, b) } else { n.channels@[c] == o.channels@[c] })
    &&& n.wallops_users@ == rekey(o.wallops_users@, a, b)
    &&& n.nick_histories@.dom() == o.nick_histories@.dom().insert(a)
    &&& n.nick_histories@[a]@ == (if o.nick_histories@.contains_key(a) { o.nick_histories@[a]@ } else { Seq::empty() }).push(o.users@[a].history_entry)
    &&& (forall|k: String| k != a && o.nick_histories@.contains_key(k) ==> n.nick_histories@[k] == o.nick_histories@[k])
    &&& n.invisible_users_count == o.invisible_users_count && n.operators_count == o.operators_count && n.max_users_count == o.max_users_count
    &&& n.quit_sender == o.quit_sender && n.quit_receiver == o.quit_receiver
}
pub proof fn lemma_nick_wf(o: VolatileState, n: VolatileState, a: String, b: String, new_source: String)
    requires state_wf(o), o.users@.contains_key(a), !o.users@.contains_key(b), a != b, nick_post(o, n, a, b, new_source)
    ensures state_wf(n)
{
    let ua = o.users@[a];
    let ub = User { source: new_source, ..ua };
    assert forall|u: String, d: String| #![trigger n.users@[u].channels@.contains(d)] #![trigger member(n, u, d)]
        (n.users@.contains_key(u) && n.users@[u].channels@.contains(d)) <==> member(n, u, d) by {
        assert((o.users@.contains_key(u) && o.users@[u].channels@.contains(d)) <==> member(o, u, d));
        assert((o.users@.contains_key(a) && o.users@[a].channels@.contains(d)) <==> member(o, a, d));
        assert((o.users@.contains_key(b) && o.users@[b].channels@.contains(d)) <==> member(o, b, d));
        if o.channels@.contains_key(d) {
            if ua.channels@.contains(d) { assert(chan_renamed(o.channels@[d], n.channels@[d], a, b)); }
            else { assert(n.channels@[d] == o.channels@[d]); }
        }
    }
    assert(sym(n));
    assert(chans_wf(n)) by {
        assert forall|d: String| n.channels@.contains_key(d) implies chan_wf(#[trigger] n.channels@[d]) by {
            assert(o.channels@.contains_key(d));
            assert(chan_wf(o.channels@[d]));
            if ua.channels@.contains(d) { assert(chan_renamed(o.channels@[d], n.channels@[d], a, b)); }
        }
    }
    assert(no_empty_chan(n)) by {
        assert forall|d: String| n.channels@.contains_key(d) && !(#[trigger] n.channels@[d]).preconfigured implies n.channels@[d].users@.len() > 0 by {
            assert(o.channels@.contains_key(d));
            assert(!o.channels@[d].preconfigured ==> o.channels@[d].users@.len() > 0);
            if ua.channels@.contains(d) {
                assert(chan_renamed(o.channels@[d], n.channels@[d], a, b));
                assert(n.channels@[d].users@.contains_key(b));
                if n.channels@[d].users@.len() == 0 { assert(n.channels@[d].users@.dom() =~= Set::<String>::empty()); assert(false); }
            }
        }
    }
    assert(wallops_wf(n)) by {
        assert forall|u: String| #[trigger] n.wallops_users@.contains(u) <==> (n.users@.contains_key(u) && n.users@[u].modes.wallops) by {
            assert(o.wallops_users@.contains(u) <==> (o.users@.contains_key(u) && o.users@[u].modes.wallops));
            assert(o.wallops_users@.contains(a) <==> (o.users@.contains_key(a) && o.users@[a].modes.wallops));
            assert(o.wallops_users@.contains(b) <==> (o.users@.contains_key(b) && o.users@[b].modes.wallops));
        }
    }
    assert(counters_wf(n)) by {
        lemma_inv_remove(o.users@, a);
        lemma_opr_remove(o.users@, a);
        lemma_inv_insert(o.users@.remove(a), b, ub);
        lemma_opr_insert(o.users@.remove(a), b, ub);
        assert(o.users@.remove(a).len() == o.users@.len() - 1);
    }
    assert(senders_distinct(n)) by {
        assert forall|x: String, y: String| #![trigger n.users@[x], n.users@[y]]
            n.users@.contains_key(x) && n.users@.contains_key(y) && x != y implies n.users@[x].sender.id() != n.users@[y].sender.id() by {
            let ox = if x == b { a } else { x };
            let oy = if y == b { a } else { y };
            assert(n.users@[x].sender == o.users@[ox].sender);
            assert(n.users@[y].sender == o.users@[oy].sender);
            assert(o.users@.contains_key(ox) && o.users@.contains_key(oy) && ox != oy);
        }
    }
}

// ---- the announcement of a nick change (C15: "announced to the user itself and to everyone sharing a channel with it") ----
pub open spec fn on_common_channel(s: VolatileState, n: String, b: String) -> bool { exists|c: String| #[trigger] member(s, n, c) && member(s, b, c) }
// the users in `vals` get one copy each; they are pairwise different registered users and include the renamed user and all its channel peers
pub open spec fn nick_announced(before: Seq<(int, Seq<char>)>, after: Seq<(int, Seq<char>)>, fin: VolatileState, b: String, line: Seq<char>) -> bool {
    exists|vals: Seq<User>|
        #![trigger vals.no_duplicates()]
        vals.no_duplicates()
        && (forall|i: int| 0 <= i < vals.len() ==> fin.users@.values().contains(#[trigger] vals[i]))
        && (forall|n: String| fin.users@.contains_key(n) && (n == b || on_common_channel(fin, n, b)) ==> vals.contains(#[trigger] fin.users@[n]))
        && after == before + vals.map_values(|u: User| (u.sender.id(), line))
}

impl MainState {
//@fn state/conn_cmds.rs MainState::process_nick unit=nick props=C15,C02,C03,C05,C11,C06,C04,C19,C01 rules=R1,R2,R6,R6q,R14
//@callargs authenticate state,+Tracked(sig)
//@spec
        requires
            mainstate_wf(*self), state_wf(*old(state)),
            !old(conn_state).user_state.authenticated ==> conn_pre(*old(conn_state), *old(state)),
            old(conn_state).user_state.authenticated ==> conn_ok(*old(conn_state), *old(state)),
        ensures
            // --- not yet registered (C02/C03): NICK only records the nickname and tries to complete registration
            !old(conn_state).user_state.authenticated && !final(conn_state).user_state.authenticated ==> // @prop C02
                vs_same(*final(state), *old(state)) && conn_pre(*final(conn_state), *final(state)),
            !old(conn_state).user_state.authenticated && final(conn_state).user_state.authenticated ==> // @prop C02,C03
                conn_ok(*final(conn_state), *final(state)) && !old(state).users@.contains_key(sk(nick)) && final(conn_state).user_state.nick == Some(sk(nick)),
            // --- registered (C15)
            old(conn_state).user_state.authenticated ==> final(conn_state).user_state.authenticated && conn_ok(*final(conn_state), *final(state)), // @prop C15,C02
            // refused: the nickname belongs to another user, or it is the present one -> nothing changes
            old(conn_state).user_state.authenticated && (sk(nick) == my_nick(*old(conn_state)) || old(state).users@.contains_key(sk(nick))) ==> // @prop C15
                *final(state) == *old(state) && conn_same_but_stream(*final(conn_state), *old(conn_state)) && final(outbox).log == old(outbox).log,
            old(conn_state).user_state.authenticated && sk(nick) != my_nick(*old(conn_state)) && old(state).users@.contains_key(sk(nick)) ==> // @prop C15
                final(conn_state).stream.log() == old(conn_state).stream.log().push(fed(self.config.name@,
                    Reply::ErrNicknameInUse433 { client: str_of(client_name_spec(old(conn_state).user_state)), nick })),
            // accepted: the whole identity moves, nothing else does
            // (the connection's stored prefix is rebuilt too: it is what every later PRIVMSG / NOTICE copy is attributed with - C01)
            old(conn_state).user_state.authenticated && sk(nick) != my_nick(*old(conn_state)) && !old(state).users@.contains_key(sk(nick)) ==> // @prop C15,C01
                nick_post(*old(state), *final(state), my_nick(*old(conn_state)), sk(nick), final(conn_state).user_state.source)
                && final(conn_state).user_state.nick == Some(sk(nick))
                && final(conn_state).user_state.source@ == source_spec(ConnUserState { nick: Some(sk(nick)), ..old(conn_state).user_state }),
            // ... and is announced, under the OLD prefix, once to the user itself and to everyone sharing a channel with it
            r is Ok && old(conn_state).user_state.authenticated && sk(nick) != my_nick(*old(conn_state)) && !old(state).users@.contains_key(sk(nick)) ==> // @prop C15,C04
                nick_announced(old(outbox).log, final(outbox).log, *final(state), sk(nick), render(*msg, old(conn_state).user_state.source@)),
            sym(*final(state)), // @prop C04,C05
            chans_wf(*final(state)), // @prop C04,C08
            no_empty_chan(*final(state)), // @prop C16
            wallops_wf(*final(state)), // @prop C11,C06,C05
            counters_wf(*final(state)), // @prop C19
            senders_distinct(*final(state)), // @prop C02,C01
//@attr #[verifier::loop_isolation(false)]
//@open
        broadcast use group_hash_axioms, bridge, string_eq, string_eq2, lemma_cover_is_exact;
        let ghost a = my_nick(*conn_state);
        let ghost b = sk(nick);
        let ghost o = *old(state);
//@before ~for ch in user\.channels\.iter\(\)
                    let ghost chans = user.channels@;
                    let ghost mut done: Set<String> = Set::empty();
                    let ghost new_src = conn_state.user_state.source;
                    // the loop only renames inside the channels: everything else is as it was when the loop started (whatever the
                    // statements before it already did - the invariant does not depend on their order)
                    let ghost pre = *state;
                    proof {
                        assert(old_nick == a && nick_str == b);
                        assert(user == (User { source: new_src, ..o.users@[a] }));
                    }
//@loop ~for ch in user\.channels\.iter\(\) iter=it1
                        invariant
                            state.users@ == pre.users@,
                            state.channels@.dom() == o.channels@.dom(),
                            state_rest_same(pre, *state),
                            it1.seq().no_duplicates(),
                            it1.seq().len() == chans.len(),
                            forall|k: String| chans.contains(k) ==> exists|i: int| 0 <= i < it1.seq().len() && *#[trigger] it1.seq()[i] == k,
                            forall|i: int| 0 <= i < it1.seq().len() ==> chans.contains(*#[trigger] it1.seq()[i]),
                            forall|c: String| done.contains(c) <==> (exists|j: int| 0 <= j < it1.index@ && *#[trigger] it1.seq()[j] == c),
                            forall|c: String| done.contains(c) ==> o.channels@.contains_key(c) && chan_renamed(o.channels@[c], #[trigger] state.channels@[c], a, b),
                            forall|c: String| !done.contains(c) && o.channels@.contains_key(c) ==> #[trigger] state.channels@[c] == o.channels@[c],
//@after ~for ch in user\.channels\.iter\(\)
                        proof {
                            assert(chans.contains(*ch));
                            assert(member(o, a, *ch));
                            assert(!done.contains(*ch));
                            assert(state.channels@[*ch] == o.channels@[*ch]);
                            assert(chan_wf(o.channels@[*ch]));
                            assert(!o.channels@[*ch].users@.contains_key(b)) by { if o.channels@[*ch].users@.contains_key(b) { assert(member(o, b, *ch)); } }
                        }
                        let ghost pre_ch = state.channels@;
//@endloop ~for ch in user\.channels\.iter\(\)
                        proof {
                            done = done.insert(*ch);
                            assert(state.channels@.dom() =~= o.channels@.dom());
                            assert forall|c: String| c != *ch && pre_ch.contains_key(c) implies state.channels@[c] == pre_ch[c] by { }
                        }
//@before ~for u in state\.users\.values\(\)
                    proof {
                        assert(state.users@ =~= o.users@.remove(a).insert(b, User { source: new_src, ..o.users@[a] })); // @prop C15
                        assert forall|c: String| o.channels@.contains_key(c) implies // @prop C15,C04
                            (if o.users@[a].channels@.contains(c) { chan_renamed(o.channels@[c], #[trigger] state.channels@[c], a, b) } else { state.channels@[c] == o.channels@[c] }) by {
                            if chans.contains(c) { assert(done.contains(c)); } else { assert(!done.contains(c)); }
                        }
                        assert(state.wallops_users@ =~= rekey(o.wallops_users@, a, b)); // @prop C15,C11,C06,C05
                        assert(nick_post(o, *state, a, b, new_src)); // @prop C15
                        lemma_nick_wf(o, *state, a, b, new_src);
                    }
                    let ghost fin = *state;
                    let ghost log0 = outbox.log;
                    let ghost line = render(*msg, old_source@);
                    let ghost mut vals: Seq<User> = Seq::empty();
                    proof {
                        assert(old_source@ == old(conn_state).user_state.source@);
                        // different users have different queues, hence are different values: as many values as nicknames
                        assert forall|k1: String, k2: String| fin.users@.contains_key(k1) && fin.users@.contains_key(k2) && k1 != k2 implies fin.users@[k1] != fin.users@[k2] by {
                            assert(fin.users@[k1].sender.id() != fin.users@[k2].sender.id());
                        }
                        lemma_inj_values_len(fin.users@);
                    }
//@loop ~for u in state\.users\.values\(\) iter=it2
                        invariant *state == fin, state_wf(fin), line == render(*msg, old_source@), log0 == old(outbox).log, b == sk(nick),
                            fin.users@.values().len() == fin.users@.dom().len(),
                            it2.seq().len() == fin.users@.dom().len(),
                            forall|v: User| fin.users@.values().contains(v) ==> exists|i: int| 0 <= i < it2.seq().len() && *#[trigger] it2.seq()[i] == v,
                            vals.len() == it2.index@,
                            forall|j: int| 0 <= j < it2.index@ ==> vals[j] == *#[trigger] it2.seq()[j],
                            outbox.log == log0 + vals.map_values(|u: User| (u.sender.id(), line)), // @prop C15,C04
                            it2.index@ == it2.seq().len() ==> nick_announced(log0, outbox.log, fin, b, line), // @prop C15,C04
//@endloop ~for u in state\.users\.values\(\)
                        proof {
                            let f = |u: User| (u.sender.id(), line);
                            let vals0 = vals;
                            assert(vals0.push(*u).map_values(f) =~= vals0.map_values(f).push(f(*u)));
                            vals = vals0.push(*u);
                        }
                        assert(it2.index@ + 1 == it2.seq().len() ==> nick_announced(log0, outbox.log, fin, b, line)) by { // @prop C15,C04
                            if it2.index@ + 1 == it2.seq().len() {
                                // the whole table has been walked: by counting, every user exactly once
                                assert forall|v: User| fin.users@.values().contains(v) implies vals.contains(v) by {
                                    let i = choose|i: int| 0 <= i < it2.seq().len() && *#[trigger] it2.seq()[i] == v;
                                    assert(vals[i] == v);
                                }
                                lemma_pigeon(vals, fin.users@.values());
                                assert forall|n: String| fin.users@.contains_key(n) implies vals.contains(#[trigger] fin.users@[n]) by {
                                    assert(fin.users@.values().contains(fin.users@[n]));
                                }
                                assert(nick_announced(log0, outbox.log, fin, b, line));
                            }
                        }
//@end
}
