// ===== CONTRACT: the JOIN list the parser hands to the handler names no channel twice (C07, C16, C04) =====
// (found with the witness c07_join_list_repeated_name.json: before the repair a repeated name was counted against max_joins and
// announced once per repetition; the handler's contract had ASSUMED distinct names - an assumption about the parser that was false)
pub open spec fn first_occ(chans: Seq<&str>, i: int) -> bool {
    forall|j: int| 0 <= j < i ==> (#[trigger] chans[j])@ != chans[i]@
}
pub open spec fn has_name(chans: Seq<&str>, name: Seq<char>) -> bool {
    exists|k: int| 0 <= k < chans.len() && (#[trigger] chans[k])@ == name
}
// entry `name` (with key `key`, when keys are given) of the result comes from the first position of that name in the list
pub open spec fn kept_from(cs: Seq<&str>, keys: Option<Vec<&str>>, name: &str, key: &str) -> bool {
    exists|i: int| 0 <= i < cs.len() && first_occ(cs, i) && (#[trigger] cs[i])@ == name@ && (keys is Some ==> key == keys->0@[i])
}
// ASSUMED stand-in for `v.contains(x)` on a vector of string slices (definition of <[T]>::contains with str equality)
#[verifier::external_body]
pub fn verif_vec_has_str(v: &Vec<&str>, x: &&str) -> (r: bool)
    ensures r == has_name(v@, (**x)@)
{ unimplemented!() }

//@fn utils.rs dedup_join_list unit=joinlist props=C07,C05,C16 rules=R4
//@replace ~|out_channels\.contains\(channel\)| => verif_vec_has_str(&out_channels, channel)
//@ascribe out_channels Vec<&'a str>
//@ascribe out_keys Vec<&'a str>
//@spec
        requires keys is Some ==> keys->0@.len() == channels@.len(),
        ensures
            // no name twice
            distinct_names(r.0@), // @prop C07,C16
            // nothing invented, nothing lost: the names of the result are the names of the list
            forall|name: Seq<char>| has_name(r.0@, name) <==> has_name(channels@, name), // @prop C07
            // the keys stay aligned, and a name keeps the key given at its first position
            (r.1 is Some) == (keys is Some), // @prop C07
            r.1 is Some ==> r.1->0@.len() == r.0@.len(), // @prop C07,C05
            forall|k: int| 0 <= k < r.0@.len() ==> kept_from(channels@, keys, #[trigger] r.0@[k], if keys is Some { r.1->0@[k] } else { "" }), // @prop C07
            // a list without repetitions is left as it is
            distinct_names(channels@) ==> r.0@ == channels@ && (keys is Some ==> r.1->0@ == keys->0@), // @prop C07
//@open
        let ghost cs = channels@;
//@before ~for channel in channels\.iter\(\)
        proof {
            assert(cs.take(0) =~= out_channels@);
            if keys is Some { assert(keys->0@.take(0) =~= out_keys@); }
        }
//@loop ~for channel in channels\.iter\(\) iter=itc
            invariant
                cs == channels@, itc.seq().len() == cs.len(), i__n == itc.index@,
                forall|j: int| 0 <= j < itc.seq().len() ==> itc.seq()[j] == &cs[j],
                keys is Some ==> keys->0@.len() == cs.len(),
                distinct_names(out_channels@),
                keys is Some ==> out_keys@.len() == out_channels@.len(),
                forall|name: Seq<char>| has_name(out_channels@, name) <==> has_name(cs.take(itc.index@ as int), name),
                forall|k: int| 0 <= k < out_channels@.len() ==> kept_from(cs, keys, #[trigger] out_channels@[k], if keys is Some { out_keys@[k] } else { "" }),
                distinct_names(cs) ==> out_channels@ == cs.take(itc.index@ as int) && (keys is Some ==> out_keys@ == keys->0@.take(itc.index@ as int)),
//@after ~for channel in channels\.iter\(\)
            let ghost i0 = itc.index@ as int;
            let ghost oc0 = out_channels@;
            let ghost ok0 = out_keys@;
            proof {
                assert(channel == &cs[i0]);
                assert(cs.take(i0 + 1) =~= cs.take(i0).push(cs[i0]));
            }
//@endloop ~for channel in channels\.iter\(\)
            proof {
                let t0 = cs.take(i0); let t1 = cs.take(i0 + 1);
                assert forall|name: Seq<char>| has_name(out_channels@, name) <==> has_name(t1, name) by {
                    if has_name(t1, name) {
                        let k = choose|k: int| 0 <= k < t1.len() && (#[trigger] t1[k])@ == name;
                        if k < i0 { assert(t0[k]@ == name); assert(has_name(t0, name)); assert(has_name(oc0, name));
                            let q = choose|q: int| 0 <= q < oc0.len() && (#[trigger] oc0[q])@ == name; assert(out_channels@[q]@ == name); }
                        else { if has_name(oc0, cs[i0]@) { let q = choose|q: int| 0 <= q < oc0.len() && (#[trigger] oc0[q])@ == cs[i0]@; assert(out_channels@[q]@ == name); }
                               else { assert(out_channels@[oc0.len() as int]@ == name); } }
                    }
                    if has_name(out_channels@, name) {
                        let q = choose|q: int| 0 <= q < out_channels@.len() && (#[trigger] out_channels@[q])@ == name;
                        if q < oc0.len() { assert(oc0[q]@ == name); assert(has_name(oc0, name)); let k = choose|k: int| 0 <= k < t0.len() && (#[trigger] t0[k])@ == name; assert(t1[k]@ == name); }
                        else { assert(t1[i0]@ == name); }
                    }
                }
                if !has_name(oc0, cs[i0]@) {
                    // the new name: first occurrence
                    assert(first_occ(cs, i0)) by {
                        assert forall|j: int| 0 <= j < i0 implies (#[trigger] cs[j])@ != cs[i0]@ by {
                            if cs[j]@ == cs[i0]@ { assert(t0[j]@ == cs[i0]@); assert(has_name(t0, cs[i0]@)); }
                        }
                    }
                    assert forall|a: int, b: int| 0 <= a < b < out_channels@.len() implies (#[trigger] out_channels@[a])@ != (#[trigger] out_channels@[b])@ by {
                        if b == oc0.len() { assert(oc0[a]@ == out_channels@[a]@); if oc0[a]@ == cs[i0]@ { assert(has_name(oc0, cs[i0]@)); } }
                        else { assert(oc0[a]@ != oc0[b]@); }
                    }
                }
                assert forall|k: int| 0 <= k < out_channels@.len() implies kept_from(cs, keys, #[trigger] out_channels@[k], if keys is Some { out_keys@[k] } else { "" }) by {
                    if k < oc0.len() {
                        assert(kept_from(cs, keys, oc0[k], if keys is Some { ok0[k] } else { "" }));
                        assert(out_channels@[k] == oc0[k]);
                        if keys is Some { assert(out_keys@[k] == ok0[k]); }
                    } else {
                        assert(!has_name(oc0, cs[i0]@));
                        assert(first_occ(cs, i0) && cs[i0]@ == out_channels@[k]@);
                    }
                }
                if distinct_names(cs) {
                    assert(!has_name(oc0, cs[i0]@)) by {
                        if has_name(oc0, cs[i0]@) { let q = choose|q: int| 0 <= q < oc0.len() && (#[trigger] oc0[q])@ == cs[i0]@; assert(cs[q]@ == cs[i0]@); }
                    }
                    assert(out_channels@ =~= t1);
                    if keys is Some { assert(keys->0@.take(i0 + 1) =~= keys->0@.take(i0).push(keys->0@[i0])); assert(out_keys@ =~= keys->0@.take(i0 + 1)); }
                }
            }
//@afterloop ~for channel in channels\.iter\(\)
        proof {
            assert(cs.take(cs.len() as int) =~= cs);
            if keys is Some { assert(keys->0@.take(cs.len() as int) =~= keys->0@); }
        }
//@before ~\(out_channels, out_keys_opt\)
        proof {
            if keys is Some { assert(out_keys_opt is Some && out_keys_opt->0@ == out_keys@); }
        }
//@end
