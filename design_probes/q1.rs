#![feature(allocator_api)]
use vstd::prelude::*;
use std::collections::{HashMap, HashSet};
verus! {
use vstd::std_specs::hash::*;

// ---------- prelude (trusted) ----------
pub uninterp spec fn string_of(s: Seq<char>) -> String;
pub broadcast axiom fn ax_string_of_view(s: Seq<char>)
    ensures #[trigger] string_of(s)@ == s;
pub broadcast axiom fn ax_string_ext(x: String)
    ensures #[trigger] string_of(x@) == x;
pub open spec fn S(q: &str) -> String { string_of(q@) }

pub broadcast axiom fn ax_contains_str_key<V>(m: Map<String, V>, q: &str)
    ensures #[trigger] contains_borrowed_key::<String, V, str>(m, q) <==> m.contains_key(S(q));
pub broadcast axiom fn ax_maps_str_key<V>(m: Map<String, V>, q: &str, v: V)
    ensures #[trigger] maps_borrowed_key_to_value::<String, V, str>(m, q, v) <==> (m.contains_key(S(q)) && m[S(q)] == v);
pub broadcast axiom fn ax_str_key_removed<V>(o: Map<String, V>, n: Map<String, V>, q: &str)
    ensures #[trigger] borrowed_key_removed::<String, V, str>(o, n, q) <==> n == o.remove(S(q));
pub broadcast axiom fn ax_set_contains_str(m: Set<String>, q: &str)
    ensures #[trigger] set_contains_borrowed_key::<String, str>(m, q) <==> m.contains(S(q));
pub broadcast axiom fn ax_sets_differ_str(o: Set<String>, n: Set<String>, q: &str)
    ensures #[trigger] sets_differ_by_borrowed_key::<String, str>(o, n, q) <==> (n == o.remove(S(q)) );
pub broadcast axiom fn ax_key_model()
    ensures #[trigger] obeys_key_model::<String>();


pub uninterp spec fn bkey<K, Q: ?Sized>(q: &Q) -> K;
pub uninterp spec fn bridge_ok<K, Q: ?Sized>() -> bool;
pub broadcast axiom fn ax_bkey_str(q: &str)
    ensures #[trigger] bkey::<String, str>(q) == S(q);
pub broadcast axiom fn ax_bkey_string(q: &String)
    ensures #[trigger] bkey::<String, String>(q) == *q;
pub broadcast axiom fn ax_bridge_ok()
    ensures #[trigger] bridge_ok::<String, str>(), bridge_ok::<String, String>();

pub assume_specification<'a, K, V, S, A, Q> [std::collections::HashMap::<K, V, S, A>::get_mut] (m: &'a mut std::collections::HashMap<K, V, S, A>, k: &Q) -> (r: std::option::Option<&'a mut V>)
           where
           A: std::alloc::Allocator,
           K: std::cmp::Eq + std::hash::Hash + std::borrow::Borrow<Q>,
           Q: std::marker::MetaSized + std::hash::Hash + std::cmp::Eq + ?Sized,
           S: std::hash::BuildHasher,
    ensures
        bridge_ok::<K, Q>() ==> match r {
            Some(v) => old(m)@.contains_key(bkey::<K, Q>(k)) && *v == old(m)@[bkey::<K, Q>(k)]
                && final(m)@ == old(m)@.insert(bkey::<K, Q>(k), *final(v)),
            None => !old(m)@.contains_key(bkey::<K, Q>(k)) && final(m)@ == old(m)@,
        },
;

pub broadcast group bridge { ax_set_contains_str, ax_sets_differ_str, ax_bridge_ok, ax_bkey_str, ax_bkey_string, ax_string_of_view, ax_string_ext, ax_contains_str_key, ax_maps_str_key, ax_str_key_removed, ax_key_model }
// ---------- real code ----------
#[derive(Copy, Clone, Default, Debug, PartialEq, Eq)]
pub struct ChannelUserModes {
    pub founder: bool,
    pub protected: bool,
    pub voice: bool,
    pub operator: bool,
    pub half_oper: bool,
}

pub struct ChannelModes {
    pub operators: Option<HashSet<String>>,
    pub voices: Option<HashSet<String>>,
}

pub struct Channel {
    pub modes: ChannelModes,
    pub users: HashMap<String, ChannelUserModes>,
}

pub open spec fn oset(o: Option<HashSet<String>>) -> Set<String> {
    match o { Some(s) => s@, None => Set::empty() }
}
pub open spec fn chan_wf(c: Channel) -> bool {
    &&& forall|n: String| #[trigger] oset(c.modes.operators).contains(n) <==> (c.users@.contains_key(n) && c.users@[n].operator)
    &&& forall|n: String| #[trigger] oset(c.modes.voices).contains(n) <==> (c.users@.contains_key(n) && c.users@[n].voice)
}

impl Channel {
    pub fn add_operator(&mut self, nick: &str)
        requires chan_wf(*old(self)), old(self).users@.contains_key(S(nick)),
        ensures chan_wf(*final(self)),
            final(self).users@ == old(self).users@.insert(S(nick), ChannelUserModes { operator: true, ..old(self).users@[S(nick)] }),
            oset(final(self).modes.operators) == oset(old(self).modes.operators).insert(S(nick)),
            final(self).modes.voices == old(self).modes.voices,
    {
        broadcast use group_hash_axioms, bridge;
        let mut ops = self.modes.operators.take().unwrap_or_default();
        assert(ops@ == oset(old(self).modes.operators));
        ops.insert(nick.to_string());
        assert(ops@ == oset(old(self).modes.operators).insert(S(nick)));
        self.modes.operators = Some(ops);
        self.users.get_mut(nick).unwrap().operator = true;
    }
    pub fn remove_operator(&mut self, nick: &str)
        requires chan_wf(*old(self)), old(self).users@.contains_key(S(nick)),
        ensures chan_wf(*final(self)),
            final(self).users@ == old(self).users@.insert(S(nick), ChannelUserModes { operator: false, ..old(self).users@[S(nick)] }),
            oset(final(self).modes.operators) == oset(old(self).modes.operators).remove(S(nick)),
            final(self).modes.voices == old(self).modes.voices,
    {
        broadcast use group_hash_axioms, bridge;
        let mut ops = self.modes.operators.take().unwrap_or_default();
        ops.remove(nick);
        assert(ops@ == oset(old(self).modes.operators).remove(S(nick)));
        self.modes.operators = Some(ops);
        self.users.get_mut(nick).unwrap().operator = false;
    }
}
}
fn main() {}
