use vstd::prelude::*;
verus! {
fn c(mchars: &str, margs: Vec<&str>) -> usize {
    let mut n = 0usize;
    let mut margs_it = margs.iter();
    let mut mode_set = false;
    for mchar in mchars.chars() {
        match mchar {
            '+' => mode_set = true,
            '-' => mode_set = false,
            'b' => { if let Some(x) = margs_it.next() { if n < 10 { n += 1; } } }
            _ => (),
        }
    }
    n
}
}
fn main() {}
