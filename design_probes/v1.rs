use vstd::prelude::*;
verus! {

pub struct ValidationError { pub code: u8 }
impl ValidationError {
    #[verifier::external_body]
    pub fn to_string(&self) -> String { unimplemented!() }
}
#[verifier::external_body]
pub fn validate_username(username: &str) -> Result<(), ValidationError> { unimplemented!() }

pub enum CommandId { MODEId }
use CommandId::*;
pub enum CommandError {
    UnknownMode(usize, char, String),
    WrongParameter(CommandId, usize),
    InvalidModeParam {
        target: String,
        modechar: char,
        param: String,
        description: String,
    },
}
use CommandError::*;

#[verifier::external_body]
pub fn parse_usize_err(arg: &str) -> (r: Option<String>) { unimplemented!() }

// rule R5' applied by hand: tail-position try_for_each -> for loops, `return Err` kept, closing Ok(()) dropped
pub fn validate_channelmodes<'a>(
    target: &'a str,
    modes: &[(&'a str, Vec<&'a str>)],
) -> Result<(), CommandError> {
    let mut param_idx = 1;
    for (ms, margs) in modes.iter() {
        if !ms.is_empty() {
            let mut mode_set = false;
            let mut arg_param_idx = param_idx + 1;

            let mut margs_it = margs.iter();

            for c in ms.chars() {
                match c {
                    '+' => {
                        mode_set = true;
                    }
                    '-' => {
                        mode_set = false;
                    }
                    'b' | 'e' | 'I' => {
                        margs_it.next(); // consume argument
                        arg_param_idx += 1;
                    }
                    'o' | 'v' | 'h' | 'q' | 'a' => {
                        if let Some(arg) = margs_it.next() {
                            arg_param_idx += 1;
                        } else {
                            return Err(InvalidModeParam {
                                target: target.to_string(),
                                modechar: c,
                                param: "".to_string(),
                                description: "No argument".to_string(),
                            });
                        }
                    }
                    'i' | 'm' | 't' | 'n' | 's' => {}
                    c => {
                        return Err(UnknownMode(param_idx, c, target.to_string()));
                    }
                }
            }

            param_idx += margs.len() + 1;
        } else {
            // if empty
            return Err(WrongParameter(MODEId, param_idx));
        }
    }
    Ok(())
}
}
fn main() {}
