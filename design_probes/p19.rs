use vstd::prelude::*;
use std::collections::{HashMap, HashSet};
verus! {
use vstd::std_specs::hash::*;
pub struct E { pub e: u8 }
pub struct User { pub id: u8 }
pub ghost struct Delivery { pub to: String, pub line: String }
pub ghost struct Outbox { pub log: Seq<Delivery> }

pub uninterp spec fn string_of(s: Seq<char>) -> String;

impl User {
    #[verifier::external_body]
    fn send_msg_display(&self, source: &str, t: String, Ghost(me): Ghost<String>, Tracked(ob): Tracked<&mut Outbox>) -> (r: Result<(), E>)
        ensures final(ob).log == old(ob).log.push(Delivery{ to: me, line: t })
    { Ok(()) }
}

fn fanout(users: &HashMap<String, User>, members: &HashSet<String>, sender: &String, line: &String, Tracked(ob): Tracked<&mut Outbox>) -> (r: Result<(), E>)
    requires obeys_key_model::<String>(), builds_valid_hashers::<std::collections::hash_map::RandomState>(),
        forall|n: String| members@.contains(n) ==> users@.contains_key(n),
    ensures r is Ok ==> final(ob).log.len() >= old(ob).log.len(),
{
    broadcast use vstd::std_specs::hash::group_hash_axioms;
    for u in it: members.iter()
        invariant 
            forall|n: String| members@.contains(n) ==> users@.contains_key(n),
            ob.log.len() >= old(ob).log.len(),
    {
        if u != sender {
            users.get(u).unwrap().send_msg_display("src", line.clone(), Ghost(*u), Tracked(ob))?;
        }
    }
    Ok(())
}
}
fn main() {}
