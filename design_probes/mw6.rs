#![feature(pattern)]
use vstd::prelude::*;
verus! {
use vstd::std_specs::core::*;
use vstd::string::*;

// ---------------- trusted byte-level str prelude (std facts) ----------------
pub open spec fn is_cont(b: u8) -> bool { 0x80u8 <= b < 0xC0u8 }
pub open spec fn boundary(s: &str, i: int) -> bool {
    0 <= i <= s.spec_bytes().len() && (i == s.spec_bytes().len() || !is_cont(s.spec_bytes()[i]))
}
pub broadcast axiom fn ax_str_len(s: &str)
    ensures #[trigger] s.len() == s.spec_bytes().len();
pub broadcast axiom fn ax_bytes_len_bound(s: &str)
    ensures #[trigger] s.spec_bytes().len() <= usize::MAX;
pub broadcast axiom fn ax_utf8_first(s: &str)
    ensures #[trigger] s.spec_bytes().len() > 0 ==> !is_cont(s.spec_bytes()[0]);
pub axiom fn ax_utf8_after_ascii(s: &str, i: int)
    ensures 0 <= i && i + 1 < s.spec_bytes().len() && s.spec_bytes()[i] < 0x80u8 ==> !is_cont(s.spec_bytes()[i + 1]);

#[verifier::external_trait_specification]
pub trait ExPattern: Sized { type ExternalTraitSpecificationFor: std::str::pattern::Pattern; }
pub uninterp spec fn pat_byte<P>(p: P) -> u8;
pub uninterp spec fn pat_is_ascii_char<P>(p: P) -> bool;
pub broadcast axiom fn ax_char_pattern(c: char)
    ensures #[trigger] pat_is_ascii_char(c) == ((c as u32) < 128), (c as u32) < 128 ==> pat_byte(c) == (c as u8);

pub assume_specification<P> [str::find] (s: &str, p: P) -> (r: std::option::Option<usize>)
          where P: std::str::pattern::Pattern,
    ensures
        pat_is_ascii_char(p) ==> match r {
            Some(i) => i < s.spec_bytes().len() && s.spec_bytes()[i as int] == pat_byte(p)
                && forall|j: int| 0 <= j < i ==> s.spec_bytes()[j] != pat_byte(p),
            None => forall|j: int| 0 <= j < s.spec_bytes().len() ==> s.spec_bytes()[j] != pat_byte(p),
        };

pub uninterp spec fn slice_lo<I>(i: I) -> int;
pub uninterp spec fn slice_hi<I>(i: I, len: int) -> int;
pub uninterp spec fn out_bytes<O: ?Sized>(o: &O) -> Seq<u8>;
pub broadcast axiom fn ax_out_bytes_str(o: &str) ensures #[trigger] out_bytes::<str>(o) == o.spec_bytes();
pub broadcast axiom fn ax_bounds_from(r: std::ops::RangeFrom<usize>, len: int)
    ensures #[trigger] slice_hi(r, len) == len, slice_lo(r) == r.start;
pub broadcast axiom fn ax_bounds_to(r: std::ops::RangeTo<usize>, len: int)
    ensures #[trigger] slice_hi(r, len) == r.end, slice_lo(r) == 0;
pub broadcast axiom fn ax_bounds_range(r: std::ops::Range<usize>, len: int)
    ensures #[trigger] slice_hi(r, len) == r.end, slice_lo(r) == r.start;

pub assume_specification<I: std::slice::SliceIndex<str>> [<str as std::ops::Index<I>>::index] (s: &str, i: I) -> (r: &I::Output)
    ensures out_bytes(r) == s.spec_bytes().subrange(slice_lo(i), slice_hi(i, s.spec_bytes().len() as int));

pub broadcast axiom fn ax_idx_from_req(s: &str, r: std::ops::RangeFrom<usize>)
    ensures #[trigger] <str as IndexSpec<std::ops::RangeFrom<usize>>>::index_req(s, &r) <==> boundary(s, r.start as int);
pub broadcast axiom fn ax_idx_to_req(s: &str, r: std::ops::RangeTo<usize>)
    ensures #[trigger] <str as IndexSpec<std::ops::RangeTo<usize>>>::index_req(s, &r) <==> boundary(s, r.end as int);
pub broadcast axiom fn ax_idx_range_req(s: &str, r: std::ops::Range<usize>)
    ensures #[trigger] <str as IndexSpec<std::ops::Range<usize>>>::index_req(s, &r) <==> (boundary(s, r.start as int) && boundary(s, r.end as int) && r.start <= r.end);
pub broadcast group strp { ax_bytes_len_bound, ax_str_len, ax_utf8_first, ax_char_pattern, ax_out_bytes_str, ax_bounds_from, ax_bounds_to, ax_bounds_range, ax_idx_from_req, ax_idx_to_req, ax_idx_range_req }

#[verifier::opaque]
pub open spec fn glob_b(p: Seq<u8>, t: Seq<u8>) -> bool
    decreases p.len() + t.len()
{
    if p.len() == 0 {
        t.len() == 0
    } else if p[0] == 42u8 {
        glob_b(p.skip(1), t) || (t.len() > 0 && glob_b(p, t.skip(1)))
    } else {
        t.len() > 0 && (p[0] == 63u8 || p[0] == t[0]) && glob_b(p.skip(1), t.skip(1))
    }
}

pub open spec fn starts(m: Seq<u8>, t: Seq<u8>) -> bool {
    m.len() <= t.len() && forall|i: int| 0 <= i < m.len() ==> (m[i] == 63u8 || m[i] == t[i])
}
pub open spec fn star_free(m: Seq<u8>) -> bool {
    forall|i: int| 0 <= i < m.len() ==> m[i] != 42u8
}
pub open spec fn star() -> Seq<u8> { Seq::<u8>::empty().push(42u8) }

// L1: a star-free prefix is matched position by position
pub proof fn lemma_prefix(m: Seq<u8>, rest: Seq<u8>, t: Seq<u8>)
    requires star_free(m)
    ensures glob_b(m + rest, t) == (starts(m, t) && glob_b(rest, t.skip(m.len() as int)))
    decreases m.len()
{
    reveal_with_fuel(glob_b, 2);
    if m.len() == 0 {
        assert(m + rest =~= rest);
        assert(t.skip(0) =~= t);
    } else {
        let p = m + rest;
        assert(p[0] == m[0]);
        assert(p.skip(1) =~= m.skip(1) + rest);
        if t.len() > 0 {
            lemma_prefix(m.skip(1), rest, t.skip(1));
            if m.len() <= t.len() { assert(t.skip(1).skip(m.len() - 1) =~= t.skip(m.len() as int)); }
            if starts(m, t) {
                assert(starts(m.skip(1), t.skip(1))) by {
                    assert forall|i: int| 0 <= i < m.skip(1).len() implies (m.skip(1)[i] == 63u8 || m.skip(1)[i] == t.skip(1)[i]) by {
                        assert(m.skip(1)[i] == m[i + 1]);
                        assert(t.skip(1)[i] == t[i + 1]);
                    }
                }
                assert(m[0] == 63u8 || m[0] == t[0]);
            }
            if (m[0] == 63u8 || m[0] == t[0]) && starts(m.skip(1), t.skip(1)) {
                assert(starts(m, t)) by {
                    assert forall|i: int| 0 <= i < m.len() implies (m[i] == 63u8 || m[i] == t[i]) by {
                        if i > 0 {
                            assert(m.skip(1)[i - 1] == m[i]);
                            assert(t.skip(1)[i - 1] == t[i]);
                        }
                    }
                }
            }
        }
    }
}

// L6: a leading star may swallow any k bytes
pub proof fn lemma_star_unfold(q: Seq<u8>, t: Seq<u8>)
    ensures glob_b(star() + q, t) == (exists|k: int| 0 <= k <= t.len() && glob_b(q, #[trigger] t.skip(k)))
    decreases t.len()
{
    reveal_with_fuel(glob_b, 2);
    let p = star() + q;
    assert(p[0] == 42u8);
    assert(p.skip(1) =~= q);
    assert(t.skip(0) =~= t);
    if t.len() > 0 {
        lemma_star_unfold(q, t.skip(1));
        if glob_b(p, t.skip(1)) {
            let k = choose|k: int| 0 <= k <= t.skip(1).len() && glob_b(q, #[trigger] t.skip(1).skip(k));
            assert(t.skip(1).skip(k) =~= t.skip(k + 1));
            assert(glob_b(q, t.skip(k + 1)));
        }
        if exists|k: int| 0 <= k <= t.len() && glob_b(q, #[trigger] t.skip(k)) {
            let k = choose|k: int| 0 <= k <= t.len() && glob_b(q, #[trigger] t.skip(k));
            if k > 0 {
                assert(t.skip(1).skip(k - 1) =~= t.skip(k));
                assert(glob_b(q, t.skip(1).skip(k - 1)));
            }
        }
    } else {
        if exists|k: int| 0 <= k <= t.len() && glob_b(q, #[trigger] t.skip(k)) {
            let k = choose|k: int| 0 <= k <= t.len() && glob_b(q, #[trigger] t.skip(k));
            assert(k == 0);
        }
    }
}

// L3: star + q matching a suffix also matches any longer text ending with it
pub proof fn lemma_star_absorbs(q: Seq<u8>, v: Seq<u8>, k: int)
    requires 0 <= k <= v.len(), glob_b(star() + q, v.skip(k))
    ensures glob_b(star() + q, v)
{
    lemma_star_unfold(q, v.skip(k));
    let j = choose|j: int| 0 <= j <= v.skip(k).len() && glob_b(q, #[trigger] v.skip(k).skip(j));
    assert(v.skip(k).skip(j) =~= v.skip(k + j));
    lemma_star_unfold(q, v);
    assert(glob_b(q, v.skip(k + j)));
}

// (a) middle segment, leftmost occurrence k0 is as good as any
pub proof fn lemma_mid_found(m: Seq<u8>, np: Seq<u8>, t: Seq<u8>, k0: int)
    requires
        star_free(m),
        0 <= k0, k0 + m.len() <= t.len(),
        starts(m, t.skip(k0)),
        forall|j: int| 0 <= j < k0 ==> !starts(m, #[trigger] t.skip(j)),
    ensures
        glob_b(star() + (m + (star() + np)), t) == glob_b(star() + np, t.skip(k0 + m.len())),
{
    let q = m + (star() + np);
    lemma_star_unfold(q, t);
    lemma_prefix(m, star() + np, t.skip(k0));
    assert(t.skip(k0).skip(m.len() as int) =~= t.skip(k0 + m.len()));
    if glob_b(star() + np, t.skip(k0 + m.len())) {
        assert(glob_b(q, t.skip(k0)));
    }
    if glob_b(star() + q, t) {
        let k = choose|k: int| 0 <= k <= t.len() && glob_b(q, #[trigger] t.skip(k));
        lemma_prefix(m, star() + np, t.skip(k));
        assert(starts(m, t.skip(k)));
        assert(k >= k0);
        assert(k + m.len() <= t.len());
        assert(t.skip(k).skip(m.len() as int) =~= t.skip(k + m.len()));
        assert(t.skip(k0 + m.len()).skip(k - k0) =~= t.skip(k + m.len()));
        lemma_star_absorbs(np, t.skip(k0 + m.len()), k - k0);
    }
}

// (b) no occurrence at all: no match whatever follows
pub proof fn lemma_mid_missing(m: Seq<u8>, rest: Seq<u8>, t: Seq<u8>)
    requires
        star_free(m),
        forall|j: int| 0 <= j && j + m.len() <= t.len() ==> !starts(m, #[trigger] t.skip(j)),
    ensures
        !glob_b(star() + (m + rest), t),
{
    let q = m + rest;
    lemma_star_unfold(q, t);
    if glob_b(star() + q, t) {
        let k = choose|k: int| 0 <= k <= t.len() && glob_b(q, #[trigger] t.skip(k));
        lemma_prefix(m, rest, t.skip(k));
        assert(starts(m, t.skip(k)));
        assert(k + m.len() <= t.len());
    }
}

// last segment after a star: anchored at the end
pub proof fn lemma_last(m: Seq<u8>, t: Seq<u8>)
    requires star_free(m)
    ensures glob_b(star() + m, t) == (m.len() <= t.len() && starts(m, t.skip(t.len() - m.len())))
{
    reveal_with_fuel(glob_b, 2);
    lemma_star_unfold(m, t);
    let e = Seq::<u8>::empty();
    assert(m + e =~= m);
    if glob_b(star() + m, t) {
        let k = choose|k: int| 0 <= k <= t.len() && glob_b(m, #[trigger] t.skip(k));
        lemma_prefix(m, e, t.skip(k));
        assert(glob_b(e, t.skip(k).skip(m.len() as int)));
        assert(t.skip(k).skip(m.len() as int).len() == 0);
        assert(k == t.len() - m.len());
    }
    if m.len() <= t.len() && starts(m, t.skip(t.len() - m.len())) {
        let k = t.len() - m.len();
        lemma_prefix(m, e, t.skip(k));
        assert(t.skip(k).skip(m.len() as int).len() == 0);
        assert(glob_b(e, t.skip(k).skip(m.len() as int)));
        assert(glob_b(m, t.skip(k)));
    }
}

// star star q == star q
pub proof fn lemma_star_star(q: Seq<u8>, t: Seq<u8>)
    ensures glob_b(star() + (star() + q), t) == glob_b(star() + q, t)
{
    lemma_star_unfold(star() + q, t);
    lemma_star_unfold(q, t);
    if glob_b(star() + (star() + q), t) {
        let k = choose|k: int| 0 <= k <= t.len() && glob_b(star() + q, #[trigger] t.skip(k));
        lemma_star_absorbs(q, t, k);
    }
    if glob_b(star() + q, t) {
        assert(t.skip(0) =~= t);
    }
}


pub open spec fn all_ascii(b: Seq<u8>) -> bool { forall|i: int| 0 <= i < b.len() ==> b[i] < 0x80u8 }

#[verifier::external_body]
fn starts_single_wilcards<'a>(pattern: &'a str, text: &'a str) -> (r: bool)
    ensures r == starts(pattern.spec_bytes(), text.spec_bytes())
{ unimplemented!() }

pub proof fn lemma_star_any(t: Seq<u8>)
    ensures glob_b(star() + Seq::<u8>::empty(), t)
{
    reveal_with_fuel(glob_b, 2);
    lemma_star_unfold(Seq::<u8>::empty(), t);
    assert(t.skip(t.len() as int).len() == 0);
    assert(glob_b(Seq::<u8>::empty(), t.skip(t.len() as int)));
}


pub proof fn lemma_empty(t: Seq<u8>)
    ensures glob_b(Seq::<u8>::empty(), t) == (t.len() == 0)
{
    reveal_with_fuel(glob_b, 2);
}

pub proof fn lemma_advance(pb: Seq<u8>, k: int, patb: Seq<u8>, mb: Seq<u8>, npb: Seq<u8>, cur_ast: bool)
    requires
        0 <= k <= pb.len(), patb == pb.skip(k), patb.len() > 0, star_free(mb),
        cur_ast ==> patb == mb + (star() + npb),
        !cur_ast ==> patb == mb && npb.len() == 0,
    ensures
        ({ let k2 = k + mb.len() + (if cur_ast { 1int } else { 0int });
           &&& 0 <= k2 <= pb.len() && k2 > 0
           &&& pb.skip(k2) =~= npb
           &&& (cur_ast ==> pb[k2 - 1] == 42u8)
           &&& (!cur_ast ==> pb[k2 - 1] != 42u8)
           &&& npb.len() < patb.len() })
{
    assert(forall|j: int| 0 <= j < patb.len() ==> patb[j] == pb[k + j]);
    if cur_ast {
        assert(patb.len() == mb.len() + 1 + npb.len());
        assert(patb[mb.len() as int] == 42u8);
        let k2 = k + mb.len() + 1;
        assert(pb[k2 - 1] == patb[mb.len() as int]);
        assert forall|j: int| 0 <= j < npb.len() implies pb.skip(k2)[j] == npb[j] by {
            assert(pb.skip(k2)[j] == patb[mb.len() + 1 + j]);
        }
    } else {
        let k2 = k + mb.len();
        assert(mb.len() >= 1);
        assert(pb[k2 - 1] == mb[mb.len() - 1]);
    }
}

pub fn match_wildcard<'a>(pattern: &'a str, text: &'a str) -> (res: bool)
    requires all_ascii(text.spec_bytes()),      // probe only: keeps text slicing on boundaries
    ensures res == glob_b(pattern.spec_bytes(), text.spec_bytes()),
{
    broadcast use strp;
    let ghost pb = pattern.spec_bytes();
    let ghost tb = text.spec_bytes();
    let ghost mut k: int = 0;
    let ghost mut star_before: bool = false;
    let mut pat = pattern;
    let mut t = text;
    let mut asterisk = false;
    proof { assert(pb.skip(0) =~= pb); }
    while !pat.is_empty()
        invariant
            0 <= k <= pb.len(),
            pb == pattern.spec_bytes(),
            tb == text.spec_bytes(),
            pat.spec_bytes() == pb.skip(k),
            asterisk <==> k > 0,
            star_before == (k > 0 && pb[k - 1] == 42u8),
            asterisk && pat.spec_bytes().len() > 0 ==> star_before,
            all_ascii(t.spec_bytes()),
            glob_b(pb, tb) == (if star_before { glob_b(star() + pat.spec_bytes(), t.spec_bytes()) } else { glob_b(pat.spec_bytes(), t.spec_bytes()) }),
        decreases pat.spec_bytes().len()
    {
        broadcast use strp;
        let ghost patb = pat.spec_bytes();
        let ghost t0 = t.spec_bytes();
        let ghost goal = glob_b(pb, tb);
        proof { assert(pat_is_ascii_char('*')); assert(pat_byte('*') == 42u8); }
        let (newpat, m, cur_ast) = if let Some(i) = pat.find('*') {
            proof { ax_utf8_after_ascii(pat, i as int);
                assert(pat_is_ascii_char('*'));
                assert(i < pat.spec_bytes().len());
                assert(pat.spec_bytes()[i as int] == 42u8);
                assert(boundary(pat, i as int));
                assert(boundary(pat, i + 1));
            }
            (&pat[i + 1..], &pat[..i], true)
        } else {
            (&pat[pat.len()..pat.len()], pat, false)
        };
        let ghost mb = m.spec_bytes();
        let ghost npb = newpat.spec_bytes();
        proof {
            assert(star_free(mb)) by { assert forall|j: int| 0 <= j < mb.len() implies mb[j] != 42u8 by { assert(mb[j] == patb[j]); } }
            if cur_ast {
                assert(patb =~= mb + (star() + npb));
            } else {
                assert(npb.len() == 0);
                assert(patb =~= mb + npb);
            }
        }

        if !m.is_empty() {
            if !asterisk {
                // if first match
                proof {
                    assert(!star_before);
                    if cur_ast { lemma_prefix(mb, star() + npb, t0); } else { lemma_prefix(mb, npb, t0); }
                }
                if !starts_single_wilcards(m, t) {
                    return false;
                }
                t = &t[m.len()..];
                proof { assert(t.spec_bytes() =~= t0.skip(mb.len() as int)); assert(goal == (if cur_ast { glob_b(star() + npb, t.spec_bytes()) } else { glob_b(npb, t.spec_bytes()) })); }
            } else if cur_ast || !newpat.is_empty() {
                proof { assert(star_before); assert(cur_ast); }
                if m.len() > t.len() {           // hypothetical repair of the underflow
                    proof { lemma_mid_missing(mb, star() + npb, t0); }
                    return false;
                }
                let mut i = 0;
                // find first single wildcards occurrence.
                while i <= t.len() - m.len() && !starts_single_wilcards(m, &t[i..])
                    invariant
                        t.spec_bytes() == t0, m.spec_bytes() == mb, mb.len() <= t0.len(),
                        t.len() == t0.len(), m.len() == mb.len(), mb.len() >= 1,
                        all_ascii(t0),
                        forall|r: std::ops::RangeFrom<usize>| r.start <= t0.len() ==> #[trigger] <str as IndexSpec<std::ops::RangeFrom<usize>>>::index_req(t, &r),
                        0 <= i <= t0.len() - mb.len() + 1,
                        forall|j: int| 0 <= j < i ==> !starts(mb, #[trigger] t0.skip(j)),
                    decreases t0.len() - i
                {
                    broadcast use strp;
                    i += 1;
                }
                if i <= t.len() - m.len() {
                    // if found
                    proof {
                        lemma_mid_found(mb, npb, t0, i as int);
                    }
                    t = &t[i + m.len()..];
                    proof { assert(t.spec_bytes() =~= t0.skip(i + mb.len())); assert(goal == (if cur_ast { glob_b(star() + npb, t.spec_bytes()) } else { glob_b(npb, t.spec_bytes()) })); }
                } else {
                    proof { lemma_mid_missing(mb, star() + npb, t0); }
                    return false;
                }
            } else {
                // if last pattern is not asterisk
                proof { assert(star_before); assert(!cur_ast); assert(patb =~= mb); lemma_last(mb, t0); }
                if m.len() > t.len() {           // hypothetical repair of the underflow
                    return false;
                }
                if !starts_single_wilcards(m, &t[t.len() - m.len()..]) {
                    return false;
                }
                t = &t[t.len()..t.len()];
                proof { assert(t.spec_bytes() =~= Seq::<u8>::empty()); lemma_empty(t.spec_bytes()); assert(goal == (if cur_ast { glob_b(star() + npb, t.spec_bytes()) } else { glob_b(npb, t.spec_bytes()) })); }
            }
        } else {
            proof {
                assert(mb =~= Seq::<u8>::empty());
                assert(cur_ast);
                assert(patb =~= star() + npb);
                if star_before { lemma_star_star(npb, t0); }
                assert(goal == (if cur_ast { glob_b(star() + npb, t.spec_bytes()) } else { glob_b(npb, t.spec_bytes()) }));
            }
        }

        proof {
            lemma_advance(pb, k, patb, mb, npb, cur_ast);
            k = k + mb.len() + (if cur_ast { 1int } else { 0int });
            star_before = cur_ast;
        }
        asterisk = true;
        pat = newpat;
    }
    // if last character in pattern is '*' or text has been fully consumed
    proof {
        assert(pat.spec_bytes() =~= Seq::<u8>::empty());
        lemma_star_any(t.spec_bytes());
        lemma_empty(t.spec_bytes());
    }
    (!pattern.is_empty() && pattern.as_bytes()[pattern.len() - 1] == b'*') || t.is_empty()
}

}
fn main() {}
