from irc import *
a=C(); a.reg("alice"); b=C(); b.reg("bob")
a.send("JOIN #c"); a.recv()
a.send("MODE #c +b *!*@*" + "x"*40); print(a.recv())
print("bob joins with long-literal ban mask:"); b.send("JOIN #c"); print(b.recv())
b.send("PING y"); print("bob alive?", b.recv())
a.send("PING x"); print("alice alive?", a.recv())
