#!/bin/bash
if [ -f /tmp/recon/pid ]; then kill $(cat /tmp/recon/pid) 2>/dev/null; sleep 0.2; fi
RUST_BACKTRACE=0 /tmp/scratch/target/debug/simple-irc-server -c /tmp/recon/cfg.toml > /tmp/recon/server.log 2>&1 &
echo $! > /tmp/recon/pid
sleep 0.5
python3 "$1"
sleep 0.3
echo "--- server panics:"; grep -a -A2 "panicked" /tmp/recon/server.log | head -12
kill $(cat /tmp/recon/pid) 2>/dev/null
