from irc import *
a=C(); a.reg("alice"); b=C(); b.reg("bob")
a.send("JOIN #c"); a.recv()
print("KICK nonexistent channel:"); a.send("KICK #nosuch bob"); print(a.recv())
a.send("PING x"); print("alice alive?", a.recv())
c=C(); c.reg("carol"); c.send("WHOIS alice"); print("whois alice after:", short(c.recv()))
c.send("NAMES #c"); print(c.recv())
