from irc import *
a=C(); a.reg("alice"); b=C(); b.reg("bob")
a.send("JOIN #c"); a.recv()
# D3b duplicate kick
b.send("JOIN #c"); b.recv(); a.recv()
print("KICK dup:"); a.send("KICK #c bob,bob"); print(a.recv())
a.send("PING x"); print("alice alive?", a.recv())
