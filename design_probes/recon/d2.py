from irc import *
a=C(); a.reg("alice"); b=C(); print(short(b.reg("élan", user="u"))[:1])
a.send("JOIN #c"); a.recv()
a.send("MODE #c +b ?*"); print(a.recv())
print("élan joins:"); b.send("JOIN #c"); print(b.recv())
b.send("PING y"); print("élan alive?", b.recv())
