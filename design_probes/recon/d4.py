from irc import *
# D4: unregistered connection claims nick then disconnects after someone else registered it
a=C(); a.send("NICK bob"); print("A nick:", a.recv())
b=C(); print("B reg:", short(b.reg("bob"))[:2])
c=C(); c.reg("carol")
c.send("ISON bob"); print("before A closes:", c.recv())
a.close(); time.sleep(0.5)
c.send("ISON bob"); print("after A closes:", c.recv())
b.send("PING z"); print("B alive?", b.recv())
b.send("PRIVMSG carol :hi"); print("B privmsg:", b.recv()); print("carol got:", c.recv())
