from irc import *
a=C(); a.send("JOIN #x"); a.send("PRIVMSG bob :x"); a.send("WHO *"); a.send("LUSERS"); print("unreg:", a.recv())
a.reg("alice"); 
a.send("NICK :al ice"); print("nick with space:", a.recv())
a.send("JOIN #c"); print(a.recv())
b=C(); b.reg("bob"); b.send("JOIN #c"); print("bob sees names:", [l for l in b.recv() if " 353 " in l]); 
b.send("PART #c,#c"); print("double part:", b.recv())
b.send("JOIN #c,#c"); r=b.recv(); print("double join:", [l for l in r if "JOIN" in l]); print("alice sees:", a.recv())
