from irc import *
a=C(); a.reg("alice"); b=C(); b.reg("bob")
a.send("JOIN #sec"); a.recv(); a.send("MODE #sec +s"); a.recv()
for q in ["WHO #sec","NAMES #sec","LIST","LIST #sec","WHOIS alice","NAMES"]:
    b.send(q); print(q, "->", b.recv())
print("D8 colon in middle param:"); a.send("PRIVMSG bob:x hello there"); print("alice:", a.recv()); print("bob:", b.recv())
# D9: authenticate 433 then acting as other
x=C(); x.send("NICK zed"); x.recv(0.2)
y=C(); y.reg("zed")
x.send("USER xx 8 * :X"); print("x after USER:", short(x.recv()))
x.send("PRIVMSG alice :i am not zed"); print("x privmsg:", x.recv()); print("alice got:", a.recv())
x.send("NICK stolen"); print("x nick:", x.recv()); print("y sees:", y.recv())
y.send("PING q"); print("y alive:", y.recv()); y.send("PRIVMSG alice :still me?"); print(y.recv()); print("alice got:", a.recv())
