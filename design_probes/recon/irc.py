import socket, time, sys
class C:
    def __init__(s, port=16667):
        s.s = socket.create_connection(("127.0.0.1", port)); s.s.settimeout(0.5); s.buf=b""
    def send(s, line): s.s.sendall(line.encode()+b"\r\n")
    def recv(s, wait=0.4):
        time.sleep(wait); out=[]
        try:
            while True:
                d=s.s.recv(65536)
                if not d: out.append("<EOF>"); break
                s.buf+=d
                if len(d)<65536: break
        except socket.timeout: pass
        except ConnectionResetError: out.append("<RESET>")
        lines=s.buf.split(b"\r\n"); s.buf=lines[-1]
        return [l.decode(errors="replace") for l in lines[:-1]]+out
    def reg(s, nick, user=None, real="Real"):
        s.send(f"NICK {nick}"); s.send(f"USER {user or nick} 8 * :{real}"); return s.recv(0.6)
    def close(s): s.s.close()
def short(ls): return [l for l in ls if not any(x in l for x in (" 00"," 25"," 26"," 37"," 005"))]
