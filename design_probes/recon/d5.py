from irc import *
a=C(); a.reg("opnick")
a.send("MODE opnick +o"); print("MODE +o:", a.recv())
a.send("MODE opnick"); print("modes:", a.recv())
a.send("LUSERS"); print([l for l in a.recv() if " 252 " in l])
b=C(); b.reg("bob")
a.send("KILL bob :bye"); print("kill:", a.recv()); print("bob sees:", b.recv())
# D6 OPER twice
c=C(); c.reg("carol"); c.send("OPER opnick operpass"); print("oper1:", c.recv(1.0)); c.send("OPER opnick operpass"); print("oper2:", c.recv(1.0))
c.send("LUSERS"); print([l for l in c.recv() if " 252 " in l])
c.send("MODE carol -O"); print("-O:", c.recv()); c.send("MODE carol"); print(c.recv())
c.send("LUSERS"); print([l for l in c.recv() if " 252 " in l])
