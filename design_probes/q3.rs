#![feature(pattern)]
use vstd::prelude::*;
verus! {
use vstd::std_specs::core::*;

pub uninterp spec fn bytes_of(s: &str) -> Seq<u8>;
pub uninterp spec fn pat_char<P>(p: P) -> u8;   // the ASCII char a Pattern denotes
pub uninterp spec fn pat_is_ascii_char<P>(p: P) -> bool;

#[verifier::external_trait_specification]
pub trait ExPattern: Sized { type ExternalTraitSpecificationFor: std::str::pattern::Pattern; }

pub assume_specification<P> [str::find] (s: &str, p: P) -> (r: std::option::Option<usize>)
          where
          P: std::str::pattern::Pattern,
    ensures
        pat_is_ascii_char(p) ==> match r {
            Some(i) => i < bytes_of(s).len() && bytes_of(s)[i as int] == pat_char(p)
                && forall|j: int| 0 <= j < i ==> bytes_of(s)[j] != pat_char(p),
            None => forall|j: int| 0 <= j < bytes_of(s).len() ==> bytes_of(s)[j] != pat_char(p),
        };

#[verifier::external_body]
fn starts_single_wilcards<'a>(pattern: &'a str, text: &'a str) -> bool {
    unimplemented!()
}

pub fn match_wildcard<'a>(pattern: &'a str, text: &'a str) -> bool {
    let mut pat = pattern;
    let mut t = text;
    let mut asterisk = false;
    while !pat.is_empty()
        decreases bytes_of(pat).len()
    {
        let (newpat, m, cur_ast) = if let Some(i) = pat.find('*') {
            (&pat[i + 1..], &pat[..i], true)
        } else {
            (&pat[pat.len()..pat.len()], pat, false)
        };

        if !m.is_empty() {
            if !asterisk {
                // if first match
                if !starts_single_wilcards(m, t) {
                    return false;
                }
                t = &t[m.len()..];
            } else if cur_ast || !newpat.is_empty() {
                // after asterisk. only if some rest in pattern and
                // if last current character is asterisk
                let mut i = 0;
                // find first single wildcards occurrence.
                while i <= t.len() - m.len() && !starts_single_wilcards(m, &t[i..])
                    decreases bytes_of(t).len() - i
                {
                    i += 1;
                }
                if i <= t.len() - m.len() {
                    // if found
                    t = &t[i + m.len()..];
                } else {
                    return false;
                }
            } else {
                // if last pattern is not asterisk
                if !starts_single_wilcards(m, &t[t.len() - m.len()..]) {
                    return false;
                }
                t = &t[t.len()..t.len()];
            }
        }

        asterisk = true;
        pat = newpat;
    }
    // if last character in pattern is '*' or text has been fully consumed
    (!pattern.is_empty() && pattern.as_bytes()[pattern.len() - 1] == b'*') || t.is_empty()
}
}
fn main() {}
