use vstd::prelude::*;
use vstd::set_lib::*;
verus! {
pub proof fn lemma_filter_insert(d: Set<String>, k: String, p: spec_fn(String) -> bool)
    requires d.finite(), !d.contains(k)
    ensures d.insert(k).filter(p).len() == d.filter(p).len() + (if p(k) { 1int } else { 0int }),
            d.insert(k).filter(p).finite(),
{
    d.lemma_len_filter(p);
    assert(d.filter(p).finite());
    if p(k) {
        assert(d.insert(k).filter(p) =~= d.filter(p).insert(k));
    } else {
        assert(d.insert(k).filter(p) =~= d.filter(p));
    }
}
pub proof fn lemma_filter_remove(d: Set<String>, k: String, p: spec_fn(String) -> bool)
    requires d.finite(), d.contains(k)
    ensures d.remove(k).filter(p).len() == d.filter(p).len() - (if p(k) { 1int } else { 0int }),
{
    d.lemma_len_filter(p);
    assert(d.filter(p).finite());
    if p(k) {
        assert(d.remove(k).filter(p) =~= d.filter(p).remove(k));
    } else {
        assert(d.remove(k).filter(p) =~= d.filter(p));
    }
}
}
fn main() {}
