#![feature(allocator_api)]
use vstd::prelude::*;
use std::collections::{HashMap, HashSet};
verus! {
use vstd::std_specs::hash::*;

// ---------- prelude (trusted) ----------
pub uninterp spec fn string_of(s: Seq<char>) -> String;
pub broadcast axiom fn ax_string_of_view(s: Seq<char>)
    ensures (#[trigger] string_of(s))@ == s;
pub broadcast axiom fn ax_string_ext(x: String)
    ensures (#[trigger] string_of(x@)) == x;
pub open spec fn sk(q: &str) -> String { string_of(q@) }

pub broadcast axiom fn ax_contains_str_key<V>(m: Map<String, V>, q: &str)
    ensures #[trigger] contains_borrowed_key::<String, V, str>(m, q) <==> m.contains_key(sk(q));
pub broadcast axiom fn ax_maps_str_key<V>(m: Map<String, V>, q: &str, v: V)
    ensures #[trigger] maps_borrowed_key_to_value::<String, V, str>(m, q, v) <==> (m.contains_key(sk(q)) && m[sk(q)] == v);
pub broadcast axiom fn ax_str_key_removed<V>(o: Map<String, V>, n: Map<String, V>, q: &str)
    ensures #[trigger] borrowed_key_removed::<String, V, str>(o, n, q) <==> n == o.remove(sk(q));
pub broadcast axiom fn ax_set_contains_str(m: Set<String>, q: &str)
    ensures #[trigger] set_contains_borrowed_key::<String, str>(m, q) <==> m.contains(sk(q));
pub broadcast axiom fn ax_sets_differ_str(o: Set<String>, n: Set<String>, q: &str)
    ensures #[trigger] sets_differ_by_borrowed_key::<String, str>(o, n, q) <==> (n == o.remove(sk(q)) );
pub broadcast axiom fn ax_key_model()
    ensures #[trigger] obeys_key_model::<String>();
pub uninterp spec fn bkey<K, Q: ?Sized>(q: &Q) -> K;
pub uninterp spec fn bridge_ok<K, Q: ?Sized>() -> bool;
pub broadcast axiom fn ax_bkey_str(q: &str)
    ensures #[trigger] bkey::<String, str>(q) == sk(q);
pub broadcast axiom fn ax_bridge_ok()
    ensures #[trigger] bridge_ok::<String, str>();
pub broadcast group bridge { ax_set_contains_str, ax_sets_differ_str, ax_bridge_ok, ax_bkey_str, ax_string_of_view, ax_string_ext, ax_contains_str_key, ax_maps_str_key, ax_str_key_removed, ax_key_model }

pub assume_specification<'a, K, V, S, A, Q> [std::collections::HashMap::<K, V, S, A>::get_mut] (m: &'a mut std::collections::HashMap<K, V, S, A>, k: &Q) -> (r: std::option::Option<&'a mut V>)
           where
           A: std::alloc::Allocator,
           K: std::cmp::Eq + std::hash::Hash + std::borrow::Borrow<Q>,
           Q: std::marker::MetaSized + std::hash::Hash + std::cmp::Eq + ?Sized,
           S: std::hash::BuildHasher,
    ensures
        bridge_ok::<K, Q>() ==> match r {
            Some(v) => old(m)@.contains_key(bkey::<K, Q>(k)) && *v == old(m)@[bkey::<K, Q>(k)]
                && final(m)@ == old(m)@.insert(bkey::<K, Q>(k), *final(v)),
            None => !old(m)@.contains_key(bkey::<K, Q>(k)) && final(m)@ == old(m)@,
        },
;

use vstd::std_specs::iter::*;
// proved lemma: a duplicate-free sequence of length |S| that covers S contains only members of S
pub broadcast proof fn lemma_cover_is_exact(r: Seq<&String>, s: Set<String>)
    requires
        #![trigger r.no_duplicates(), s.finite()]
        s.finite(),
        r.no_duplicates(),
        r.len() == s.len(),
        forall|k: String| s.contains(k) ==> exists|i: int| 0 <= i < r.len() && *#[trigger] r[i] == k,
    ensures
        forall|i: int| 0 <= i < r.len() ==> s.contains(*#[trigger] r[i]),
{
    let m = r.map_values(|x: &String| *x);
    assert(m.len() == r.len());
    assert(m.no_duplicates()) by {
        assert forall|i: int, j: int| 0 <= i < m.len() && 0 <= j < m.len() && i != j implies m[i] != m[j] by {
            assert(m[i] == *r[i]); assert(m[j] == *r[j]);
            assert(r[i] != r[j]);
        }
    }
    m.unique_seq_to_set();
    assert(m.to_set().len() == s.len());
    assert(s.subset_of(m.to_set())) by {
        assert forall|k: String| s.contains(k) implies m.to_set().contains(k) by {
            let i = choose|i: int| 0 <= i < r.len() && *#[trigger] r[i] == k;
            assert(m[i] == k);
        }
    }
    vstd::set_lib::lemma_subset_equality(s, m.to_set());
    assert forall|i: int| 0 <= i < r.len() implies s.contains(*#[trigger] r[i]) by {
        assert(m[i] == *r[i]);
        assert(m.to_set().contains(m[i]));
    }
}

// ---------- real code (reduced field set) ----------
pub struct Channel {
    pub users: HashMap<String, u8>,
    pub preconfigured: bool,
}
impl Channel {
    #[verifier::external_body]
    pub fn remove_user(&mut self, nick: &str)
        requires old(self).users@.contains_key(sk(nick)),
        ensures final(self).users@ == old(self).users@.remove(sk(nick)),
            final(self).preconfigured == old(self).preconfigured,
    { unimplemented!() }
}
pub struct User {
    pub channels: HashSet<String>,
    pub x: u8,
}
pub struct VolatileState {
    pub users: HashMap<String, User>,
    pub channels: HashMap<String, Channel>,
}

// membership as seen from the channel side
pub open spec fn member(s: VolatileState, n: String, c: String) -> bool {
    s.channels@.contains_key(c) && s.channels@[c].users@.contains_key(n)
}
pub open spec fn sym(s: VolatileState) -> bool {
    forall|n: String, c: String| #![trigger s.users@[n].channels@.contains(c)] #![trigger member(s, n, c)] (s.users@.contains_key(n) && s.users@[n].channels@.contains(c)) <==> member(s, n, c)
}

impl VolatileState {
    pub fn remove_user_from_channel<'a>(&mut self, channel: &'a str, nick: &'a str)
        requires
            old(self).channels@.contains_key(sk(channel)) ==> old(self).channels@[sk(channel)].users@.contains_key(sk(nick)),
        ensures
            // channel side
            forall|c: String| c != sk(channel) ==> (final(self).channels@.contains_key(c) <==> old(self).channels@.contains_key(c)),
            forall|c: String| c != sk(channel) && old(self).channels@.contains_key(c) ==> final(self).channels@[c] == old(self).channels@[c],
            old(self).channels@.contains_key(sk(channel)) ==> {
                let oc = old(self).channels@[sk(channel)];
                if oc.users@.remove(sk(nick)).len() == 0 && !oc.preconfigured {
                    !final(self).channels@.contains_key(sk(channel))
                } else {
                    final(self).channels@.contains_key(sk(channel))
                    && final(self).channels@[sk(channel)].users@ == oc.users@.remove(sk(nick))
                    && final(self).channels@[sk(channel)].preconfigured == oc.preconfigured
                }
            },
            !old(self).channels@.contains_key(sk(channel)) ==> !final(self).channels@.contains_key(sk(channel)),
            // user side
            final(self).users@.dom() == old(self).users@.dom(),
            forall|n: String| n != sk(nick) && old(self).users@.contains_key(n) ==> final(self).users@[n] == old(self).users@[n],
            old(self).users@.contains_key(sk(nick)) ==> 
                final(self).users@[sk(nick)].channels@ == old(self).users@[sk(nick)].channels@.remove(sk(channel))
                && final(self).users@[sk(nick)].x == old(self).users@[sk(nick)].x,
    {
        broadcast use group_hash_axioms, bridge;
        if let Some(chanobj) = self.channels.get_mut(channel) {
            chanobj.remove_user(nick);
            if chanobj.users.is_empty() && !chanobj.preconfigured {
                self.channels.remove(channel);
            }
        }
        if let Some(user) = self.users.get_mut(nick) {
            user.channels.remove(channel);
        }
    }

    pub open spec fn post_chan(oldc: Map<String, Channel>, newc: Map<String, Channel>, c: String, nick: String) -> bool {
        if oldc.contains_key(c) && oldc[c].users@.contains_key(nick) {
            if oldc[c].users@.remove(nick).len() == 0 && !oldc[c].preconfigured {
                !newc.contains_key(c)
            } else {
                newc.contains_key(c) && newc[c].users@ == oldc[c].users@.remove(nick)
                    && newc[c].preconfigured == oldc[c].preconfigured
            }
        } else {
            (newc.contains_key(c) <==> oldc.contains_key(c)) && (oldc.contains_key(c) ==> newc[c] == oldc[c])
        }
    }

    pub fn remove_user(&mut self, nick: &str)
        requires sym(*old(self)),
        ensures
            final(self).users@ == old(self).users@.remove(sk(nick)),
            forall|c: String| Self::post_chan(old(self).channels@, final(self).channels@, c, sk(nick)),
    {
        broadcast use group_hash_axioms, bridge, lemma_cover_is_exact;
        if let Some(user) = self.users.remove(nick) {
            let ghost mid_users = self.users@;
            let ghost chans = user.channels@;
            let ghost mut done: Set<String> = Set::empty();
            for chname in it: user.channels.iter()
                invariant
                    self.users@ == mid_users,
                    mid_users == old(self).users@.remove(sk(nick)),
                    old(self).users@.contains_key(sk(nick)),
                    chans == user.channels@,
                    chans == old(self).users@[sk(nick)].channels@,
                    chans.finite(),
                    sym(*old(self)),
                    it.seq().no_duplicates(),
                    it.seq().len() == chans.len(),
                    forall|k: String| chans.contains(k) ==> exists|i: int| 0 <= i < it.seq().len() && *#[trigger] it.seq()[i] == k,
                    forall|i: int| 0 <= i < it.seq().len() ==> chans.contains(*#[trigger] it.seq()[i]),
                    forall|c: String| done.contains(c) <==> (exists|j: int| 0 <= j < it.index@ && *#[trigger] it.seq()[j] == c),
                    forall|c: String| done.contains(c) ==> Self::post_chan(old(self).channels@, self.channels@, c, sk(nick)),
                    forall|c: String| !done.contains(c) ==>
                        (self.channels@.contains_key(c) <==> old(self).channels@.contains_key(c)) && (old(self).channels@.contains_key(c) ==> self.channels@[c] == old(self).channels@[c]),
            {
                broadcast use group_hash_axioms, bridge, lemma_cover_is_exact;
                proof {
                    assert(chans.contains(*chname));
                    assert(member(*old(self), sk(nick), *chname));
                    assert(!done.contains(*chname));
                    assert(string_of((*chname)@) == *chname);
                    assert(self.channels@.contains_key(*chname) && self.channels@[*chname] == old(self).channels@[*chname]);
                }
                self.remove_user_from_channel(chname, nick);
                proof { done = done.insert(*chname); }
            }
            proof {
                assert forall|c: String| Self::post_chan(old(self).channels@, self.channels@, c, sk(nick)) by {
                    if chans.contains(c) {
                        assert(done.contains(c));
                    } else {
                        assert(!member(*old(self), sk(nick), c));
                        assert(!done.contains(c));
                    }
                }
            }
        } else {
            proof {
                assert forall|c: String| Self::post_chan(old(self).channels@, self.channels@, c, sk(nick)) by {
                    assert(!member(*old(self), sk(nick), c));
                }
            }
        }
    }
}
}
fn main() {}
