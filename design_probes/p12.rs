#![feature(allocator_api)]
use vstd::prelude::*;
use std::collections::{HashMap, HashSet};
use std::fmt;
verus! {
use vstd::std_specs::hash::*;

#[verifier::external_type_specification]
#[verifier::external_body]
pub struct ExLinesCodecError(crate::stubs::LinesCodecError);
#[verifier::external_type_specification]
#[verifier::external_body]
pub struct ExSendError(crate::stubs::SendError);
pub struct HErr { pub k: u8 }
impl From<stubs::LinesCodecError> for HErr {
    #[verifier::external_body]
    fn from(e: stubs::LinesCodecError) -> HErr { HErr{k:0} }
}
impl From<stubs::SendError> for HErr {
    #[verifier::external_body]
    fn from(e: stubs::SendError) -> HErr { HErr{k:0} }
}

pub enum Reply<'a> {
    ErrNoSuchChannel403 { client: &'a str, channel: &'a str },
    ErrNotOnChannel442 { client: &'a str, channel: &'a str },
    ErrChanOpPrivsNeeded482 { client: &'a str, channel: &'a str },
    ErrUserNotInChannel441 { client: &'a str, nick: &'a str, channel: &'a str },
    ErrCannotDoCommand972 { client: &'a str },
}
use Reply::*;

#[derive(Copy, Clone, Default, Debug, PartialEq, Eq)]
pub struct ChannelUserModes {
    pub founder: bool,
    pub protected: bool,
    pub voice: bool,
    pub operator: bool,
    pub half_oper: bool,
}

impl ChannelUserModes {
    pub fn is_protected(&self) -> bool {
        self.founder || self.protected
    }
    pub fn is_half_operator(&self) -> bool {
        self.founder || self.protected || self.operator || self.half_oper
    }
    pub fn is_only_half_operator(&self) -> bool {
        !self.founder && !self.protected && !self.operator && self.half_oper
    }
}

pub struct Channel {
    pub users: HashMap<String, ChannelUserModes>,
    pub preconfigured: bool,
}
pub struct User {
    pub channels: HashSet<String>,
}
impl User {
    #[verifier::external_body]
    pub fn send_msg_display<T: std::fmt::Display>(
        &self,
        source: &str,
        t: T,
    ) -> Result<(), stubs::SendError> { unimplemented!() }
}

pub struct VolatileState {
    pub users: HashMap<String, User>,
    pub channels: HashMap<String, Channel>,
}
impl VolatileState {
    #[verifier::external_body]
    pub fn remove_user_from_channel<'a>(&mut self, channel: &'a str, nick: &'a str) { unimplemented!() }
}

pub struct BufferedLineStream { pub buffer: Vec<String> }
pub struct MainConfig { pub name: String }
pub struct MainState { pub config: MainConfig }
pub struct ConnUserState { pub nick: Option<String>, pub source: String }
impl ConnUserState {
    #[verifier::external_body]
    pub fn client_name(&self) -> &str { unimplemented!() }
}
pub struct ConnState { pub stream: BufferedLineStream, pub user_state: ConnUserState }

impl MainState {
    #[verifier::external_body]
    async fn feed_msg<T: fmt::Display>(
        &self,
        stream: &mut BufferedLineStream,
        t: T,
    ) -> (r: Result<(), stubs::LinesCodecError>)
        ensures r is Ok
    {
        unimplemented!()
    }

    pub async fn process_kick<'a>(
        &self,
        state: &mut VolatileState,
        conn_state: &mut ConnState,
        channel: &'a str,
        kick_users: Vec<&'a str>,
        comment: Option<&'a str>,
    ) -> Result<(), HErr> {
        let user_nick = conn_state.user_state.nick.as_ref().unwrap();
        let client = conn_state.user_state.client_name();

        let mut kicked = vec![];

        if let Some(chanobj) = state.channels.get(channel) {
            // if user on channel
            if chanobj.users.contains_key(user_nick) {
                let user_chum = chanobj.users.get(user_nick).unwrap();
                // if user is half operator at least.
                if user_chum.is_half_operator() {
                    let is_only_half_oper = user_chum.is_only_half_operator();
                    for kick_user in &kick_users {
                        let ku = kick_user.to_string();
                        if let Some(chum) = chanobj.users.get(&ku) {
                            if !chum.is_protected()
                                && (!chum.is_half_operator() || !is_only_half_oper)
                            {
                                kicked.push(kick_user);
                            } else {
                                self.feed_msg(
                                    &mut conn_state.stream,
                                    ErrCannotDoCommand972 { client },
                                )
                                .await?;
                            }
                        } else {
                            self.feed_msg(
                                &mut conn_state.stream,
                                ErrUserNotInChannel441 {
                                    client,
                                    nick: kick_user,
                                    channel,
                                },
                            )
                            .await?;
                        }
                    }
                } else {
                    self.feed_msg(
                        &mut conn_state.stream,
                        ErrChanOpPrivsNeeded482 { client, channel },
                    )
                    .await?;
                }
            } else {
                self.feed_msg(
                    &mut conn_state.stream,
                    ErrNotOnChannel442 { client, channel },
                )
                .await?;
            }
        } else {
            self.feed_msg(
                &mut conn_state.stream,
                ErrNoSuchChannel403 { client, channel },
            )
            .await?;
        }

        {
            // kick users
            for ku in &kicked {
                state.remove_user_from_channel(channel, ku);
            }
            let chanobj = state.channels.get(channel).unwrap();
            for ku in &kicked {
                let kick_msg = format!("KICK {} {} :{}", channel, ku, comment.unwrap_or("Kicked"));
                for nick in chanobj.users.keys() {
                    state
                        .users
                        .get(nick)
                        .unwrap()
                        .send_msg_display(&conn_state.user_state.source, kick_msg.clone())?;
                }
                // and send to kicked user
                state
                    .users
                    .get(&ku.to_string())
                    .unwrap()
                    .send_msg_display(&conn_state.user_state.source, kick_msg.clone())?;
            }
        }
        Ok(())
    }
}

}
mod stubs {
    #[derive(Debug)]
    pub struct LinesCodecError { pub x: u8 }
    #[derive(Debug)]
    pub struct SendError { pub x: u8 }
}
impl<'a> fmt::Display for Reply<'a> { fn fmt(&self, f: &mut std::fmt::Formatter<'_>) -> std::fmt::Result { Ok(()) } }
fn main() {}
