use vstd::prelude::*;
use std::collections::{HashMap, HashSet};
verus! {
use vstd::std_specs::hash::*;
use vstd::std_specs::iter::*;

// proved lemma: a duplicate-free sequence of length |S| that covers S contains only members of S
pub proof fn lemma_cover_is_exact(r: Seq<&String>, s: Set<String>)
    requires
        s.finite(),
        r.no_duplicates(),
        r.len() == s.len(),
        forall|k: String| s.contains(k) ==> exists|i: int| 0 <= i < r.len() && *#[trigger] r[i] == k,
    ensures
        forall|i: int| 0 <= i < r.len() ==> s.contains(*#[trigger] r[i]),
{
    let m = r.map_values(|x: &String| *x);
    assert(m.len() == r.len());
    assert(m.no_duplicates()) by {
        assert forall|i: int, j: int| 0 <= i < m.len() && 0 <= j < m.len() && i != j implies m[i] != m[j] by {
            assert(m[i] == *r[i]); assert(m[j] == *r[j]);
            assert(r[i] != r[j]);
        }
    }
    m.unique_seq_to_set();
    assert(m.to_set().len() == s.len());
    assert(s.subset_of(m.to_set())) by {
        assert forall|k: String| s.contains(k) implies m.to_set().contains(k) by {
            let i = choose|i: int| 0 <= i < r.len() && *#[trigger] r[i] == k;
            assert(m[i] == k);
        }
    }
    vstd::set_lib::lemma_subset_equality(s, m.to_set());
    assert forall|i: int| 0 <= i < r.len() implies s.contains(*#[trigger] r[i]) by {
        assert(m[i] == *r[i]);
        assert(m.to_set().contains(m[i]));
    }
}
}
fn main() {}
