use vstd::prelude::*;
verus! {

pub open spec fn glob_b(p: Seq<u8>, t: Seq<u8>) -> bool
    decreases p.len() + t.len()
{
    if p.len() == 0 {
        t.len() == 0
    } else if p[0] == 42u8 {
        glob_b(p.skip(1), t) || (t.len() > 0 && glob_b(p, t.skip(1)))
    } else {
        t.len() > 0 && (p[0] == 63u8 || p[0] == t[0]) && glob_b(p.skip(1), t.skip(1))
    }
}

pub open spec fn starts(m: Seq<u8>, t: Seq<u8>) -> bool {
    m.len() <= t.len() && forall|i: int| 0 <= i < m.len() ==> (m[i] == 63u8 || m[i] == t[i])
}
pub open spec fn star_free(m: Seq<u8>) -> bool {
    forall|i: int| 0 <= i < m.len() ==> m[i] != 42u8
}
pub open spec fn star() -> Seq<u8> { seq![42u8] }

// L1: a star-free prefix is matched position by position
pub proof fn lemma_prefix(m: Seq<u8>, rest: Seq<u8>, t: Seq<u8>)
    requires star_free(m)
    ensures glob_b(m + rest, t) == (starts(m, t) && glob_b(rest, t.skip(m.len() as int)))
    decreases m.len()
{
    if m.len() == 0 {
        assert(m + rest =~= rest);
        assert(t.skip(0) =~= t);
    } else {
        let p = m + rest;
        assert(p[0] == m[0]);
        assert(p.skip(1) =~= m.skip(1) + rest);
        if t.len() > 0 {
            lemma_prefix(m.skip(1), rest, t.skip(1));
            if m.len() <= t.len() { assert(t.skip(1).skip(m.len() - 1) =~= t.skip(m.len() as int)); }
            if starts(m, t) {
                assert(starts(m.skip(1), t.skip(1))) by {
                    assert forall|i: int| 0 <= i < m.skip(1).len() implies (m.skip(1)[i] == 63u8 || m.skip(1)[i] == t.skip(1)[i]) by {
                        assert(m.skip(1)[i] == m[i + 1]);
                        assert(t.skip(1)[i] == t[i + 1]);
                    }
                }
                assert(m[0] == 63u8 || m[0] == t[0]);
            }
            if (m[0] == 63u8 || m[0] == t[0]) && starts(m.skip(1), t.skip(1)) {
                assert(starts(m, t)) by {
                    assert forall|i: int| 0 <= i < m.len() implies (m[i] == 63u8 || m[i] == t[i]) by {
                        if i > 0 {
                            assert(m.skip(1)[i - 1] == m[i]);
                            assert(t.skip(1)[i - 1] == t[i]);
                        }
                    }
                }
            }
        }
    }
}

// L6: a leading star may swallow any k bytes
pub proof fn lemma_star_unfold(q: Seq<u8>, t: Seq<u8>)
    ensures glob_b(star() + q, t) == (exists|k: int| 0 <= k <= t.len() && glob_b(q, #[trigger] t.skip(k)))
    decreases t.len()
{
    let p = star() + q;
    assert(p[0] == 42u8);
    assert(p.skip(1) =~= q);
    assert(t.skip(0) =~= t);
    if t.len() > 0 {
        lemma_star_unfold(q, t.skip(1));
        if glob_b(p, t.skip(1)) {
            let k = choose|k: int| 0 <= k <= t.skip(1).len() && glob_b(q, #[trigger] t.skip(1).skip(k));
            assert(t.skip(1).skip(k) =~= t.skip(k + 1));
            assert(glob_b(q, t.skip(k + 1)));
        }
        if exists|k: int| 0 <= k <= t.len() && glob_b(q, #[trigger] t.skip(k)) {
            let k = choose|k: int| 0 <= k <= t.len() && glob_b(q, #[trigger] t.skip(k));
            if k > 0 {
                assert(t.skip(1).skip(k - 1) =~= t.skip(k));
                assert(glob_b(q, t.skip(1).skip(k - 1)));
            }
        }
    } else {
        if exists|k: int| 0 <= k <= t.len() && glob_b(q, #[trigger] t.skip(k)) {
            let k = choose|k: int| 0 <= k <= t.len() && glob_b(q, #[trigger] t.skip(k));
            assert(k == 0);
        }
    }
}

// L3: star + q matching a suffix also matches any longer text ending with it
pub proof fn lemma_star_absorbs(q: Seq<u8>, v: Seq<u8>, k: int)
    requires 0 <= k <= v.len(), glob_b(star() + q, v.skip(k))
    ensures glob_b(star() + q, v)
{
    lemma_star_unfold(q, v.skip(k));
    let j = choose|j: int| 0 <= j <= v.skip(k).len() && glob_b(q, #[trigger] v.skip(k).skip(j));
    assert(v.skip(k).skip(j) =~= v.skip(k + j));
    lemma_star_unfold(q, v);
    assert(glob_b(q, v.skip(k + j)));
}

// (a) middle segment, leftmost occurrence k0 is as good as any
pub proof fn lemma_mid_found(m: Seq<u8>, np: Seq<u8>, t: Seq<u8>, k0: int)
    requires
        star_free(m),
        0 <= k0, k0 + m.len() <= t.len(),
        starts(m, t.skip(k0)),
        forall|j: int| 0 <= j < k0 ==> !starts(m, #[trigger] t.skip(j)),
    ensures
        glob_b(star() + (m + (star() + np)), t) == glob_b(star() + np, t.skip(k0 + m.len())),
{
    let q = m + (star() + np);
    lemma_star_unfold(q, t);
    lemma_prefix(m, star() + np, t.skip(k0));
    assert(t.skip(k0).skip(m.len() as int) =~= t.skip(k0 + m.len()));
    if glob_b(star() + np, t.skip(k0 + m.len())) {
        assert(glob_b(q, t.skip(k0)));
    }
    if glob_b(star() + q, t) {
        let k = choose|k: int| 0 <= k <= t.len() && glob_b(q, #[trigger] t.skip(k));
        lemma_prefix(m, star() + np, t.skip(k));
        assert(starts(m, t.skip(k)));
        assert(k >= k0);
        assert(k + m.len() <= t.len());
        assert(t.skip(k).skip(m.len() as int) =~= t.skip(k + m.len()));
        assert(t.skip(k0 + m.len()).skip(k - k0) =~= t.skip(k + m.len()));
        lemma_star_absorbs(np, t.skip(k0 + m.len()), k - k0);
    }
}

// (b) no occurrence at all: no match whatever follows
pub proof fn lemma_mid_missing(m: Seq<u8>, rest: Seq<u8>, t: Seq<u8>)
    requires
        star_free(m),
        forall|j: int| 0 <= j && j + m.len() <= t.len() ==> !starts(m, #[trigger] t.skip(j)),
    ensures
        !glob_b(star() + (m + rest), t),
{
    let q = m + rest;
    lemma_star_unfold(q, t);
    if glob_b(star() + q, t) {
        let k = choose|k: int| 0 <= k <= t.len() && glob_b(q, #[trigger] t.skip(k));
        lemma_prefix(m, rest, t.skip(k));
        assert(starts(m, t.skip(k)));
        assert(k + m.len() <= t.len());
    }
}

// last segment after a star: anchored at the end
pub proof fn lemma_last(m: Seq<u8>, t: Seq<u8>)
    requires star_free(m)
    ensures glob_b(star() + m, t) == (m.len() <= t.len() && starts(m, t.skip(t.len() - m.len())))
{
    lemma_star_unfold(m, t);
    let e = Seq::<u8>::empty();
    assert(m + e =~= m);
    if glob_b(star() + m, t) {
        let k = choose|k: int| 0 <= k <= t.len() && glob_b(m, #[trigger] t.skip(k));
        lemma_prefix(m, e, t.skip(k));
        assert(glob_b(e, t.skip(k).skip(m.len() as int)));
        assert(t.skip(k).skip(m.len() as int).len() == 0);
        assert(k == t.len() - m.len());
    }
    if m.len() <= t.len() && starts(m, t.skip(t.len() - m.len())) {
        let k = t.len() - m.len();
        lemma_prefix(m, e, t.skip(k));
        assert(t.skip(k).skip(m.len() as int).len() == 0);
        assert(glob_b(e, t.skip(k).skip(m.len() as int)));
        assert(glob_b(m, t.skip(k)));
    }
}

// star star q == star q
pub proof fn lemma_star_star(q: Seq<u8>, t: Seq<u8>)
    ensures glob_b(star() + (star() + q), t) == glob_b(star() + q, t)
{
    lemma_star_unfold(star() + q, t);
    lemma_star_unfold(q, t);
    if glob_b(star() + (star() + q), t) {
        let k = choose|k: int| 0 <= k <= t.len() && glob_b(star() + q, #[trigger] t.skip(k));
        lemma_star_absorbs(q, t, k);
    }
    if glob_b(star() + q, t) {
        assert(t.skip(0) =~= t);
    }
}

}
fn main() {}
