use vstd::prelude::*;
use std::collections::{HashMap, HashSet};
verus! {
use vstd::std_specs::hash::*;

pub struct S { pub x: u64 }

impl S {
    pub async fn foo(&self, a: u64) -> (r: u64)
        requires a < 100
        ensures r == a + 1
    {
        a + 1
    }
    pub async fn bar(&self) -> (r: u64)
        ensures r == 6
    {
        let v = self.foo(5).await;
        v
    }
}
}
fn main() {}
