#![feature(pattern)]
use vstd::prelude::*;
verus! {
use vstd::std_specs::core::*;

pub uninterp spec fn bytes_of(s: &str) -> Seq<u8>;
pub uninterp spec fn pat_is_char<P>(p: P, c: u8) -> bool;
pub open spec fn boundary(s: &str, i: int) -> bool {
    0 <= i <= bytes_of(s).len() && (i == bytes_of(s).len() || (bytes_of(s)[i] & 0xC0u8) != 0x80u8)
}

pub broadcast axiom fn ax_str_index_from_req(s: &str, r: std::ops::RangeFrom<usize>)
    ensures #[trigger] <str as IndexSpec<std::ops::RangeFrom<usize>>>::index_req(s, &r) <==> boundary(s, r.start as int);

pub broadcast axiom fn ax_str_len(s: &str)
    ensures #[trigger] s.len() == bytes_of(s).len();   // probably wrong fn

#[verifier::external_trait_specification]
pub trait ExPattern: Sized { type ExternalTraitSpecificationFor: std::str::pattern::Pattern; }

pub assume_specification<P> [str::find] (s: &str, p: P) -> (r: std::option::Option<usize>)
          where
          P: std::str::pattern::Pattern,
    ensures
        forall|c: u8| pat_is_char(p, c) && c < 0x80 ==> match r {
            Some(i) => i < bytes_of(s).len() && bytes_of(s)[i as int] == c
                && forall|j: int| 0 <= j < i ==> bytes_of(s)[j] != c,
            None => forall|j: int| 0 <= j < bytes_of(s).len() ==> bytes_of(s)[j] != c,
        };

fn f<'a>(pat: &'a str) -> &'a str {
    broadcast use ax_str_index_from_req;
    if let Some(i) = pat.find('*') {
        assume(i < 1000);
        assume(boundary(pat, i+1));
        &pat[i + 1..]
    } else {
        pat
    }
}
}
fn main() {}
