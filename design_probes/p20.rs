use vstd::prelude::*;
use std::fmt;
verus! {
pub struct LErr { pub e: u8 }
pub struct BufferedLineStream { pub buffer: Vec<String> }
impl BufferedLineStream {
    pub async fn feed(&mut self, msg: String) -> (r: Result<(), LErr>)
        ensures r is Ok, final(self).buffer@ == old(self).buffer@.push(msg)
    {
        self.buffer.push(msg);
        Ok(())
    }
}
pub struct MainConfig { pub name: String }
pub struct MainState { pub config: MainConfig }
impl MainState {
    async fn feed_msg<T: fmt::Display>(
        &self,
        stream: &mut BufferedLineStream,
        t: T,
    ) -> (r: Result<(), LErr>)
        ensures r is Ok, final(stream).buffer@.len() == old(stream).buffer@.len() + 1
    {
        stream.feed(format!(":{} {}", self.config.name, t)).await
    }
}
}
fn main() {}
