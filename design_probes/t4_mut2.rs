#![feature(allocator_api)]
use vstd::prelude::*;
use std::collections::{HashMap, HashSet};
use std::fmt;
verus! {
use vstd::std_specs::hash::*;
// ---------- prelude (trusted) ----------
pub uninterp spec fn string_of(s: Seq<char>) -> String;
pub broadcast axiom fn ax_string_of_view(s: Seq<char>)
    ensures (#[trigger] string_of(s))@ == s;
pub broadcast axiom fn ax_string_ext(x: String)
    ensures (#[trigger] string_of(x@)) == x;
pub open spec fn sk(q: &str) -> String { string_of(q@) }

pub broadcast axiom fn ax_contains_str_key<V>(m: Map<String, V>, q: &str)
    ensures #[trigger] contains_borrowed_key::<String, V, str>(m, q) <==> m.contains_key(sk(q));
pub broadcast axiom fn ax_maps_str_key<V>(m: Map<String, V>, q: &str, v: V)
    ensures #[trigger] maps_borrowed_key_to_value::<String, V, str>(m, q, v) <==> (m.contains_key(sk(q)) && m[sk(q)] == v);
pub broadcast axiom fn ax_str_key_removed<V>(o: Map<String, V>, n: Map<String, V>, q: &str)
    ensures #[trigger] borrowed_key_removed::<String, V, str>(o, n, q) <==> n == o.remove(sk(q));
pub broadcast axiom fn ax_set_contains_str(m: Set<String>, q: &str)
    ensures #[trigger] set_contains_borrowed_key::<String, str>(m, q) <==> m.contains(sk(q));
pub broadcast axiom fn ax_sets_differ_str(o: Set<String>, n: Set<String>, q: &str)
    ensures #[trigger] sets_differ_by_borrowed_key::<String, str>(o, n, q) <==> (n == o.remove(sk(q)) );
pub broadcast axiom fn ax_key_model()
    ensures #[trigger] obeys_key_model::<String>();
pub uninterp spec fn bkey<K, Q: ?Sized>(q: &Q) -> K;
pub uninterp spec fn bridge_ok<K, Q: ?Sized>() -> bool;
pub broadcast axiom fn ax_bkey_str(q: &str)
    ensures #[trigger] bkey::<String, str>(q) == sk(q);
pub broadcast axiom fn ax_bridge_ok()
    ensures #[trigger] bridge_ok::<String, str>();
pub broadcast group bridge { ax_set_contains_str, ax_sets_differ_str, ax_bridge_ok, ax_bkey_str, ax_string_of_view, ax_string_ext, ax_contains_str_key, ax_maps_str_key, ax_str_key_removed, ax_key_model }

pub assume_specification<'a, K, V, S, A, Q> [std::collections::HashMap::<K, V, S, A>::get_mut] (m: &'a mut std::collections::HashMap<K, V, S, A>, k: &Q) -> (r: std::option::Option<&'a mut V>)
           where
           A: std::alloc::Allocator,
           K: std::cmp::Eq + std::hash::Hash + std::borrow::Borrow<Q>,
           Q: std::marker::MetaSized + std::hash::Hash + std::cmp::Eq + ?Sized,
           S: std::hash::BuildHasher,
    ensures
        bridge_ok::<K, Q>() ==> match r {
            Some(v) => old(m)@.contains_key(bkey::<K, Q>(k)) && *v == old(m)@[bkey::<K, Q>(k)]
                && final(m)@ == old(m)@.insert(bkey::<K, Q>(k), *final(v)),
            None => !old(m)@.contains_key(bkey::<K, Q>(k)) && final(m)@ == old(m)@,
        },
;

use vstd::std_specs::iter::*;
// proved lemma: a duplicate-free sequence of length |S| that covers S contains only members of S
pub broadcast proof fn lemma_cover_is_exact(r: Seq<&String>, s: Set<String>)
    requires
        #![trigger r.no_duplicates(), s.finite()]
        s.finite(),
        r.no_duplicates(),
        r.len() == s.len(),
        forall|k: String| s.contains(k) ==> exists|i: int| 0 <= i < r.len() && *#[trigger] r[i] == k,
    ensures
        forall|i: int| 0 <= i < r.len() ==> s.contains(*#[trigger] r[i]),
{
    let m = r.map_values(|x: &String| *x);
    assert(m.len() == r.len());
    assert(m.no_duplicates()) by {
        assert forall|i: int, j: int| 0 <= i < m.len() && 0 <= j < m.len() && i != j implies m[i] != m[j] by {
            assert(m[i] == *r[i]); assert(m[j] == *r[j]);
            assert(r[i] != r[j]);
        }
    }
    m.unique_seq_to_set();
    assert(m.to_set().len() == s.len());
    assert(s.subset_of(m.to_set())) by {
        assert forall|k: String| s.contains(k) implies m.to_set().contains(k) by {
            let i = choose|i: int| 0 <= i < r.len() && *#[trigger] r[i] == k;
            assert(m[i] == k);
        }
    }
    vstd::set_lib::lemma_subset_equality(s, m.to_set());
    assert forall|i: int| 0 <= i < r.len() implies s.contains(*#[trigger] r[i]) by {
        assert(m[i] == *r[i]);
        assert(m.to_set().contains(m[i]));
    }
}


// ---------- stubs (trusted) ----------
#[verifier::external_type_specification]
#[verifier::external_body]
pub struct ExLinesCodecError(crate::stubs::LinesCodecError);
#[verifier::external_type_specification]
#[verifier::external_body]
pub struct ExSendError(crate::stubs::SendError);
pub struct HErr { pub k: u8 }
impl From<stubs::LinesCodecError> for HErr {
    #[verifier::external_body]
    fn from(e: stubs::LinesCodecError) -> HErr { HErr{k:0} }
}
impl From<stubs::SendError> for HErr {
    #[verifier::external_body]
    fn from(e: stubs::SendError) -> HErr { HErr{k:0} }
}

pub struct Message<'a> { pub command: &'a str }
pub uninterp spec fn render(msg: Message, source: Seq<char>) -> Seq<char>;
pub uninterp spec fn line_of<T>(server: Seq<char>, t: T) -> Seq<char>;

pub ghost struct Outbox { pub log: Seq<(int, Seq<char>)> }

pub struct UnboundedSender { pub id: u64 }

pub enum Reply<'a> {
    ErrNoSuchChannel403 { client: &'a str, channel: &'a str },
    ErrNotOnChannel442 { client: &'a str, channel: &'a str },
    ErrChanOpPrivsNeeded482 { client: &'a str, channel: &'a str },
    RplTopic332 { client: &'a str, channel: &'a str, topic: &'a str },
    RplTopicWhoTime333 { client: &'a str, channel: &'a str, nick: &'a str, setat: u64 },
    RplNoTopic331 { client: &'a str, channel: &'a str },
}
use Reply::*;

// ---------- real types (reduced field sets) ----------
#[derive(Copy, Clone, Default, Debug, PartialEq, Eq)]
pub struct ChannelUserModes {
    pub founder: bool,
    pub protected: bool,
    pub voice: bool,
    pub operator: bool,
    pub half_oper: bool,
}
impl ChannelUserModes {
    pub fn is_half_operator(&self) -> (r: bool)
        ensures r == (self.founder || self.protected || self.operator || self.half_oper)
    {
        self.founder || self.protected || self.operator || self.half_oper
    }
}
pub open spec fn half_op(m: ChannelUserModes) -> bool { m.founder || m.protected || m.operator || m.half_oper }

pub struct ChannelTopic { pub topic: String, pub nick: String, pub set_time: u64 }
impl ChannelTopic {
    #[verifier::external_body]
    pub fn new_with_nick(topic: String, nick: String) -> (r: ChannelTopic)
        ensures r.topic == topic, r.nick == nick
    { unimplemented!() }
}
pub struct ChannelModes { pub protected_topic: bool, pub secret: bool }
pub struct Channel {
    pub topic: Option<ChannelTopic>,
    pub modes: ChannelModes,
    pub users: HashMap<String, ChannelUserModes>,
    pub preconfigured: bool,
}
pub struct User {
    pub sender: UnboundedSender,
    pub channels: HashSet<String>,
}
impl User {
    #[verifier::external_body]
    pub fn send_message(&self, msg: &Message<'_>, source: &str, Tracked(outbox): Tracked<&mut Outbox>) -> (r: Result<(), stubs::SendError>)
        ensures
            r is Ok ==> final(outbox).log == old(outbox).log.push((self.sender.id as int, render(*msg, source@))),
            r is Err ==> final(outbox).log == old(outbox).log,
    { unimplemented!() }
}
pub struct VolatileState {
    pub users: HashMap<String, User>,
    pub channels: HashMap<String, Channel>,
}
pub struct BufferedLineStream { pub buffer: Vec<String> }
pub struct MainConfig { pub name: String }
pub struct MainState { pub config: MainConfig }
pub struct ConnUserState { pub nick: Option<String>, pub source: String, pub authenticated: bool }
impl ConnUserState {
    #[verifier::external_body]
    pub fn client_name(&self) -> &str { unimplemented!() }
}
pub struct ConnState { pub stream: BufferedLineStream, pub user_state: ConnUserState }


pub proof fn lemma_nodup_subset_full(order: Seq<String>, members: Set<String>)
    requires members.finite(), order.no_duplicates(), order.len() == members.len(),
        forall|i: int| 0 <= i < order.len() ==> members.contains(#[trigger] order[i]),
    ensures forall|n: String| order.contains(n) <==> members.contains(n)
{
    order.unique_seq_to_set();
    assert(order.to_set().subset_of(members)) by {
        assert forall|n: String| order.to_set().contains(n) implies members.contains(n) by {
            let i = choose|i: int| 0 <= i < order.len() && order[i] == n;
        }
    }
    vstd::set_lib::lemma_subset_equality(order.to_set(), members);
    assert forall|n: String| order.contains(n) <==> members.contains(n) by {
        if order.contains(n) { assert(order.to_set().contains(n)); }
        if members.contains(n) { assert(order.to_set().contains(n)); }
    }
}

// ---------- specification vocabulary ----------
pub open spec fn members_registered(s: VolatileState) -> bool {
    forall|c: String, n: String| #![trigger s.channels@[c].users@.contains_key(n)]
        s.channels@.contains_key(c) && s.channels@[c].users@.contains_key(n) ==> s.users@.contains_key(n)
}
pub open spec fn conn_ok(k: ConnState, s: VolatileState) -> bool {
    k.user_state.nick is Some && s.users@.contains_key(k.user_state.nick->0)
}
pub open spec fn topic_allowed(s: VolatileState, nick: String, c: String) -> bool {
    s.channels@.contains_key(c) && s.channels@[c].users@.contains_key(nick)
        && (!s.channels@[c].modes.protected_topic || half_op(s.channels@[c].users@[nick]))
}
// every member got exactly one copy of `line`, nobody else got anything
pub open spec fn delivered_to_members(old_log: Seq<(int, Seq<char>)>, new_log: Seq<(int, Seq<char>)>, s: VolatileState, c: String, line: Seq<char>) -> bool {
    exists|order: Seq<String>|
        #![trigger order.no_duplicates()]
        order.no_duplicates()
        && (forall|n: String| order.contains(n) <==> s.channels@[c].users@.contains_key(n))
        && new_log == old_log + order.map_values(|n: String| (s.users@[n].sender.id as int, line))
}

impl MainState {
    #[verifier::external_body]
    async fn feed_msg<T: fmt::Display>(
        &self,
        stream: &mut BufferedLineStream,
        t: T,
    ) -> (r: Result<(), stubs::LinesCodecError>)
        ensures r is Ok, final(stream).buffer@ == old(stream).buffer@.push(string_of(line_of(self.config.name@, t)))
    {
        unimplemented!()
    }

    #[verifier::loop_isolation(false)]
    pub async fn process_topic<'a>(
        &self,
        state: &mut VolatileState,
        conn_state: &mut ConnState,
        channel: &'a str,
        topic_opt: Option<&'a str>,
        msg: &'a Message<'a>,
        Tracked(outbox): Tracked<&mut Outbox>,
    ) -> (r: Result<(), HErr>)
        requires
            members_registered(*old(state)),
            conn_ok(*old(conn_state), *old(state)),
        ensures
            final(conn_state).user_state == old(conn_state).user_state,
            topic_opt is None ==> *final(state) == *old(state) && final(outbox).log == old(outbox).log,
            topic_opt is Some && !topic_allowed(*old(state), old(conn_state).user_state.nick->0, sk(channel)) ==>
                *final(state) == *old(state) && final(outbox).log == old(outbox).log
                && final(conn_state).stream.buffer@.len() == old(conn_state).stream.buffer@.len() + 1,
            topic_opt is Some && topic_allowed(*old(state), old(conn_state).user_state.nick->0, sk(channel)) ==> ({
                let oc = old(state).channels@[sk(channel)];
                let nc = final(state).channels@[sk(channel)];
                &&& final(state).users@ == old(state).users@
                &&& final(state).channels@.dom() == old(state).channels@.dom()
                &&& (forall|c: String| c != sk(channel) && old(state).channels@.contains_key(c) ==> final(state).channels@[c] == old(state).channels@[c])
                &&& nc.users == oc.users && nc.modes == oc.modes && nc.preconfigured == oc.preconfigured
                &&& (topic_opt->0@.len() == 0 ==> nc.topic is None)
                &&& (topic_opt->0@.len() > 0 ==> nc.topic is Some && nc.topic->0.topic@ == topic_opt->0@ && nc.topic->0.nick == old(conn_state).user_state.nick->0)
                &&& final(conn_state).stream.buffer@ == old(conn_state).stream.buffer@
                &&& (r is Ok ==> delivered_to_members(old(outbox).log, final(outbox).log, *final(state), sk(channel),
                        render(*msg, old(conn_state).user_state.source@)))
            }),
    {
        broadcast use group_hash_axioms, bridge, lemma_cover_is_exact;
        let client = conn_state.user_state.client_name();

        if let Some(topic) = topic_opt {
            // if change topic
            let user_nick = conn_state.user_state.nick.as_ref().unwrap();

            // if channel exists
            let do_change_topic = if let Some(chanobj) = state.channels.get(channel) {
                // if user on channel
                if chanobj.users.contains_key(user_nick) {
                    // if channel topic is not protected otherwise use should be at least
                    // a half-operator.
                    if !chanobj.modes.protected_topic
                        || chanobj.users.get(user_nick).unwrap().is_half_operator()
                    {
                        true
                    } else {
                        self.feed_msg(
                            &mut conn_state.stream,
                            ErrChanOpPrivsNeeded482 { client, channel },
                        )
                        .await?;
                        false
                    }
                } else {
                    self.feed_msg(
                        &mut conn_state.stream,
                        ErrNotOnChannel442 { client, channel },
                    )
                    .await?;
                    false
                }
            } else {
                self.feed_msg(
                    &mut conn_state.stream,
                    ErrNoSuchChannel403 { client, channel },
                )
                .await?;
                false
            };

            if do_change_topic {
                // change topic
                let chanobj = state.channels.get_mut(channel).unwrap();
                if topic.is_empty() {
                    chanobj.topic = Some(ChannelTopic::new_with_nick(
                        topic.to_string(),
                        user_nick.clone(),
                    ));
                } else {
                    chanobj.topic = None
                }
            }
            if do_change_topic {
                // send message about to all users in channel.
                let chanobj = state.channels.get(channel).unwrap();
                let ghost log0 = outbox.log;
                let ghost line = render(*msg, conn_state.user_state.source@);
                let ghost members = chanobj.users@.dom();
                let ghost mut order: Seq<String> = Seq::empty();
                for cu in it: chanobj.users.keys()
                    invariant
                        it.seq().no_duplicates(),
                        it.seq().len() == members.len(),
                        forall|k: String| members.contains(k) ==> exists|i: int| 0 <= i < it.seq().len() && *#[trigger] it.seq()[i] == k,
                        order.len() == it.index@,
                        order.no_duplicates(),
                        forall|j: int, l: int| #![trigger order[j], it.seq()[l]] 0 <= j < order.len() && order.len() <= l < it.seq().len() ==> order[j] != *it.seq()[l],
                        forall|i: int| 0 <= i < order.len() ==> members.contains(#[trigger] order[i]),
                        forall|j: int| 0 <= j < it.index@ ==> order[j] == *#[trigger] it.seq()[j],
                        outbox.log == log0 + order.map_values(|n: String| (state.users@[n].sender.id as int, line)),
                {
                    proof {
                        assert(members.finite());
                        assert(members.contains(*cu));
                    }
                    state
                        .users
                        .get(cu)
                        .unwrap()
                        .send_message(msg, &conn_state.user_state.source, Tracked(outbox))?;
                    proof {
                        assert forall|j: int| 0 <= j < order.len() implies order[j] != *cu by { }
                        let f = |n: String| (state.users@[n].sender.id as int, line);
                        assert(order.push(*cu).map_values(f) =~= order.map_values(f).push(f(*cu)));
                        order = order.push(*cu);
                    }
                }
                proof {
                    assert(order.len() == members.len());
                    lemma_nodup_subset_full(order, members);
                    assert(state.channels@[sk(channel)].users@.dom() == members);
                }
            }
        } else {
            // read topic
            if let Some(chanobj) = state.channels.get(channel) {
                let user_nick = conn_state.user_state.nick.as_ref().unwrap();

                if chanobj.users.contains_key(user_nick) {
                    // if user on channel
                    if let Some(ref topic) = chanobj.topic {
                        self.feed_msg(
                            &mut conn_state.stream,
                            RplTopic332 {
                                client,
                                channel,
                                topic: &topic.topic,
                            },
                        )
                        .await?;
                        self.feed_msg(
                            &mut conn_state.stream,
                            RplTopicWhoTime333 {
                                client,
                                channel,
                                nick: &topic.nick,
                                setat: topic.set_time,
                            },
                        )
                        .await?;
                    } else {
                        self.feed_msg(&mut conn_state.stream, RplNoTopic331 { client, channel })
                            .await?;
                    }
                } else {
                    self.feed_msg(
                        &mut conn_state.stream,
                        ErrNotOnChannel442 { client, channel },
                    )
                    .await?;
                }
            } else {
                self.feed_msg(
                    &mut conn_state.stream,
                    ErrNoSuchChannel403 { client, channel },
                )
                .await?;
            }
        }
        Ok(())
    }
}

}
mod stubs {
    #[derive(Debug)]
    pub struct LinesCodecError { pub x: u8 }
    #[derive(Debug)]
    pub struct SendError { pub x: u8 }
}
impl<'a> fmt::Display for Reply<'a> { fn fmt(&self, f: &mut std::fmt::Formatter<'_>) -> std::fmt::Result { Ok(()) } }
fn main() {}
