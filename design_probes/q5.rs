use vstd::prelude::*;
verus! {
use vstd::std_specs::cmp::*;
pub broadcast axiom fn ax_string_eq_spec()
    ensures #[trigger] <String as PartialEqSpec<String>>::obeys_eq_spec();
pub broadcast axiom fn ax_string_eq_def(a: String, b: String)
    ensures #[trigger] <String as PartialEqSpec<String>>::eq_spec(&a, &b) == (a@ == b@);
pub broadcast axiom fn ax_string_str_eq_spec()
    ensures #[trigger] <String as PartialEqSpec<&'static str>>::obeys_eq_spec();

fn b(u: &String, v: &String) -> (r: bool) ensures r == (u@ == v@) { 
    broadcast use ax_string_eq_spec, ax_string_eq_def;
    u == v }
fn b2(u: &String, v: &String) -> (r: bool) ensures r == (u@ != v@) { 
    broadcast use ax_string_eq_spec, ax_string_eq_def;
    u != v }
}
fn main() {}
