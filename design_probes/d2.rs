use vstd::prelude::*;
use std::fmt;
verus! {

use vstd::std_specs::fmt::*;
pub broadcast axiom fn ax_display_commanderror(e: CommandError, f: &std::fmt::Formatter<'_>)
    ensures #[trigger] <CommandError as DisplaySpec>::fmt_req(&e, f);
pub struct HErr { pub k: u8 }
pub struct IoError { pub k: u8 }
#[verifier::external_body]
pub fn io_unexpected_eof() -> IoError { unimplemented!() }
pub enum LinesCodecError { MaxLineLengthExceeded, Io(IoError) }
impl From<LinesCodecError> for HErr { #[verifier::external_body] fn from(e: LinesCodecError) -> HErr { HErr{k:0} } }
impl From<IoError> for HErr { #[verifier::external_body] fn from(e: IoError) -> HErr { HErr{k:0} } }
impl From<MessageError> for HErr { #[verifier::external_body] fn from(e: MessageError) -> HErr { HErr{k:0} } }
impl From<CommandError> for HErr { #[verifier::external_body] fn from(e: CommandError) -> HErr { HErr{k:0} } }

#[derive(Clone, Copy, Debug)]
pub struct CommandId { pub name: &'static str }
#[derive(Clone, Copy, Debug)]
pub enum MessageError {
    Empty,
    WrongSource,
    NoCommand,
}
#[derive(Clone, Debug)]
pub enum CommandError {
    UnknownCommand(String),
    UnknownSubcommand(CommandId, String),
    NeedMoreParams(CommandId),
    ParameterDoesntMatch(CommandId, usize),
    WrongParameter(CommandId, usize),
    UnknownMode(usize, char, String),
    UnknownUModeFlag(usize),
    InvalidModeParam {
        target: String,
        modechar: char,
        param: String,
        description: String,
    },
}
#[allow(clippy::upper_case_acronyms)]
#[derive(PartialEq, Eq, Debug)]
pub enum CapCommand {
    LS,
    LIST,
    REQ,
    END,
}

#[allow(clippy::upper_case_acronyms)]
#[derive(PartialEq, Eq, Debug)]
pub enum Command<'a> {
    CAP {
        subcommand: CapCommand,
        caps: Option<Vec<&'a str>>,
        version: Option<u32>,
    },
    AUTHENTICATE {},
    PASS {
        password: &'a str,
    },
    NICK {
        nickname: &'a str,
    },
    USER {
        username: &'a str,
        hostname: &'a str,
        servername: &'a str,
        realname: &'a str,
    },
    PING {
        token: &'a str,
    },
    PONG {
        token: &'a str,
    },
    OPER {
        name: &'a str,
        password: &'a str,
    },
    QUIT {},
    JOIN {
        channels: Vec<&'a str>,
        keys: Option<Vec<&'a str>>,
    },
    PART {
        channels: Vec<&'a str>,
        reason: Option<&'a str>,
    },
    TOPIC {
        channel: &'a str,
        topic: Option<&'a str>,
    },
    NAMES {
        channels: Vec<&'a str>,
    },
    LIST {
        channels: Vec<&'a str>,
        server: Option<&'a str>,
    },
    INVITE {
        nickname: &'a str,
        channel: &'a str,
    },
    KICK {
        channel: &'a str,
        users: Vec<&'a str>,
        comment: Option<&'a str>,
    },
    MOTD {
        target: Option<&'a str>,
    },
    VERSION {
        target: Option<&'a str>,
    },
    ADMIN {
        target: Option<&'a str>,
    },
    CONNECT {
        target_server: &'a str,
        port: Option<u16>,
        remote_server: Option<&'a str>,
    },
    LUSERS {},
    TIME {
        server: Option<&'a str>,
    },
    STATS {
        query: char,
        server: Option<&'a str>,
    },
    LINKS {
        remote_server: Option<&'a str>,
        server_mask: Option<&'a str>,
    },
    HELP {
        subject: Option<&'a str>,
    },
    INFO {},
    MODE {
        target: &'a str,
        modes: Vec<(&'a str, Vec<&'a str>)>,
    },
    PRIVMSG {
        targets: Vec<&'a str>,
        text: &'a str,
    },
    NOTICE {
        targets: Vec<&'a str>,
        text: &'a str,
    },
    WHO {
        mask: &'a str,
    },
    WHOIS {
        target: Option<&'a str>,
        nickmasks: Vec<&'a str>,
    },
    WHOWAS {
        nickname: &'a str,
        count: Option<usize>,
        server: Option<&'a str>,
    },
    KILL {
        nickname: &'a str,
        comment: &'a str,
    },
    REHASH {},
    RESTART {},
    SQUIT {
        server: &'a str,
        comment: &'a str,
    },
    AWAY {
        text: Option<&'a str>,
    },
    USERHOST {
        nicknames: Vec<&'a str>,
    },
    WALLOPS {
        text: &'a str,
    },
    ISON {
        nicknames: Vec<&'a str>,
    },
    DIE {
        message: Option<&'a str>,
    },
}

pub struct Message<'a> {
    pub source: Option<&'a str>,
    pub command: &'a str,
    pub params: Vec<&'a str>,
}
impl<'a> Message<'a> {
    #[verifier::external_body]
    pub fn from_shared_str(input: &'a str) -> Result<Self, MessageError> { unimplemented!() }
}
impl<'a> Command<'a> {
    #[verifier::external_body]
    pub fn from_message(message: &Message<'a>) -> Result<Self, CommandError> { unimplemented!() }
}

pub enum Reply<'a> {
    ErrInputTooLong417 { client: &'a str },
    ErrUnknownCommand421 { client: &'a str, command: &'a str },
    ErrNeedMoreParams461 { client: &'a str, command: &'a str },
    ErrUnknownMode472 { client: &'a str, modechar: char, channel: &'a str },
    ErrUmodeUnknownFlag501 { client: &'a str },
    ErrInvalidModeParam696 { client: &'a str, target: &'a str, modechar: char, param: &'a str, description: &'a str },
    ErrNotRegistered451 { client: &'a str },
}
use Reply::*;

pub struct BufferedLineStream { pub buffer: Vec<String> }
pub struct MainConfig { pub name: String }
pub struct MainState { pub config: MainConfig }
pub struct ConnUserState { pub nick: Option<String>, pub authenticated: bool }
impl ConnUserState {
    #[verifier::external_body]
    pub fn client_name(&self) -> &str { unimplemented!() }
}
pub struct AtomicI32 { pub v: i32 }
pub enum Ordering { SeqCst }
impl AtomicI32 {
    #[verifier::external_body]
    pub fn store(&self, v: i32, o: Ordering) { }
}
pub struct ConnState { pub stream: BufferedLineStream, pub user_state: ConnUserState, pub calls: u64, pub quit: AtomicI32 }

impl MainState {
    #[verifier::external_body]
    fn count_command(&self, cmd: &Command) { }
    #[verifier::external_body]
    async fn feed_msg<T: fmt::Display>(&self, stream: &mut BufferedLineStream, t: T) -> (r: Result<(), LinesCodecError>)
        ensures r is Ok, final(stream).buffer@.len() == old(stream).buffer@.len() + 1
    { unimplemented!() }
    #[verifier::external_body]
    pub async fn process_cap<'a>(&self, conn_state: &mut ConnState, subcommand: CapCommand, caps: Option<Vec<&'a str>>, _p1: Option<u32>,) -> (r: Result<(), HErr>)
        ensures final(conn_state).calls == old(conn_state).calls + 1,
    { unimplemented!() }
    #[verifier::external_body]
    pub async fn process_authenticate(&self, conn_state: &mut ConnState, ) -> (r: Result<(), HErr>)
        ensures final(conn_state).calls == old(conn_state).calls + 1,
    { unimplemented!() }
    #[verifier::external_body]
    pub async fn process_pass<'a>(&self, conn_state: &mut ConnState, pass: &'a str,) -> (r: Result<(), HErr>)
        ensures final(conn_state).calls == old(conn_state).calls + 1,
    { unimplemented!() }
    #[verifier::external_body]
    pub async fn process_nick<'a>(&self, conn_state: &mut ConnState, nick: &'a str, msg: &'a Message<'a>,) -> (r: Result<(), HErr>)
        ensures final(conn_state).calls == old(conn_state).calls + 1,
    { unimplemented!() }
    #[verifier::external_body]
    pub async fn process_user<'a>(&self, conn_state: &mut ConnState, username: &'a str, _p2: &'a str, _p3: &'a str, realname: &'a str,) -> (r: Result<(), HErr>)
        ensures final(conn_state).calls == old(conn_state).calls + 1,
    { unimplemented!() }
    #[verifier::external_body]
    pub async fn process_ping<'a>(&self, conn_state: &mut ConnState, token: &'a str,) -> (r: Result<(), HErr>)
        requires old(conn_state).user_state.authenticated,
        ensures final(conn_state).calls == old(conn_state).calls + 1,
    { unimplemented!() }
    #[verifier::external_body]
    pub async fn process_pong<'a>(&self, conn_state: &mut ConnState, _p4: &'a str,) -> (r: Result<(), HErr>)
        requires old(conn_state).user_state.authenticated,
        ensures final(conn_state).calls == old(conn_state).calls + 1,
    { unimplemented!() }
    #[verifier::external_body]
    pub async fn process_oper<'a>(&self, conn_state: &mut ConnState, nick: &'a str, password: &'a str,) -> (r: Result<(), HErr>)
        requires old(conn_state).user_state.authenticated,
        ensures final(conn_state).calls == old(conn_state).calls + 1,
    { unimplemented!() }
    #[verifier::external_body]
    pub async fn process_quit(&self, conn_state: &mut ConnState, ) -> (r: Result<(), HErr>)
        ensures final(conn_state).calls == old(conn_state).calls + 1,
    { unimplemented!() }
    #[verifier::external_body]
    pub async fn process_join<'a>(&self, conn_state: &mut ConnState, channels: Vec<&'a str>, keys_opt: Option<Vec<&'a str>>,) -> (r: Result<(), HErr>)
        requires old(conn_state).user_state.authenticated,
        ensures final(conn_state).calls == old(conn_state).calls + 1,
    { unimplemented!() }
    #[verifier::external_body]
    pub async fn process_part<'a>(&self, conn_state: &mut ConnState, channels: Vec<&'a str>, reason: Option<&'a str>,) -> (r: Result<(), HErr>)
        requires old(conn_state).user_state.authenticated,
        ensures final(conn_state).calls == old(conn_state).calls + 1,
    { unimplemented!() }
    #[verifier::external_body]
    pub async fn process_topic<'a>(&self, conn_state: &mut ConnState, channel: &'a str, topic_opt: Option<&'a str>, msg: &'a Message<'a>,) -> (r: Result<(), HErr>)
        requires old(conn_state).user_state.authenticated,
        ensures final(conn_state).calls == old(conn_state).calls + 1,
    { unimplemented!() }
    #[verifier::external_body]
    pub async fn process_names<'a>(&self, conn_state: &mut ConnState, channels: Vec<&'a str>,) -> (r: Result<(), HErr>)
        requires old(conn_state).user_state.authenticated,
        ensures final(conn_state).calls == old(conn_state).calls + 1,
    { unimplemented!() }
    #[verifier::external_body]
    pub async fn process_list<'a>(&self, conn_state: &mut ConnState, channels: Vec<&'a str>, server: Option<&'a str>,) -> (r: Result<(), HErr>)
        requires old(conn_state).user_state.authenticated,
        ensures final(conn_state).calls == old(conn_state).calls + 1,
    { unimplemented!() }
    #[verifier::external_body]
    pub async fn process_invite<'a>(&self, conn_state: &mut ConnState, nickname: &'a str, channel: &'a str, msg: &'a Message<'a>,) -> (r: Result<(), HErr>)
        requires old(conn_state).user_state.authenticated,
        ensures final(conn_state).calls == old(conn_state).calls + 1,
    { unimplemented!() }
    #[verifier::external_body]
    pub async fn process_kick<'a>(&self, conn_state: &mut ConnState, channel: &'a str, kick_users: Vec<&'a str>, comment: Option<&'a str>,) -> (r: Result<(), HErr>)
        requires old(conn_state).user_state.authenticated,
        ensures final(conn_state).calls == old(conn_state).calls + 1,
    { unimplemented!() }
    #[verifier::external_body]
    pub async fn process_privmsg<'a>(&self, conn_state: &mut ConnState, targets: Vec<&'a str>, text: &'a str,) -> (r: Result<(), HErr>)
        requires old(conn_state).user_state.authenticated,
        ensures final(conn_state).calls == old(conn_state).calls + 1,
    { unimplemented!() }
    #[verifier::external_body]
    pub async fn process_notice<'a>(&self, conn_state: &mut ConnState, targets: Vec<&'a str>, text: &'a str,) -> (r: Result<(), HErr>)
        requires old(conn_state).user_state.authenticated,
        ensures final(conn_state).calls == old(conn_state).calls + 1,
    { unimplemented!() }
    #[verifier::external_body]
    pub async fn process_who<'a>(&self, conn_state: &mut ConnState, mask: &'a str,) -> (r: Result<(), HErr>)
        requires old(conn_state).user_state.authenticated,
        ensures final(conn_state).calls == old(conn_state).calls + 1,
    { unimplemented!() }
    #[verifier::external_body]
    pub async fn process_whois<'a>(&self, conn_state: &mut ConnState, target: Option<&'a str>, nickmasks: Vec<&'a str>,) -> (r: Result<(), HErr>)
        requires old(conn_state).user_state.authenticated,
        ensures final(conn_state).calls == old(conn_state).calls + 1,
    { unimplemented!() }
    #[verifier::external_body]
    pub async fn process_whowas<'a>(&self, conn_state: &mut ConnState, nickname: &'a str, count: Option<usize>, server: Option<&'a str>,) -> (r: Result<(), HErr>)
        requires old(conn_state).user_state.authenticated,
        ensures final(conn_state).calls == old(conn_state).calls + 1,
    { unimplemented!() }
    #[verifier::external_body]
    pub async fn process_kill<'a>(&self, conn_state: &mut ConnState, nickname: &'a str, comment: &'a str,) -> (r: Result<(), HErr>)
        requires old(conn_state).user_state.authenticated,
        ensures final(conn_state).calls == old(conn_state).calls + 1,
    { unimplemented!() }
    #[verifier::external_body]
    pub async fn process_rehash(&self, conn_state: &mut ConnState, ) -> (r: Result<(), HErr>)
        requires old(conn_state).user_state.authenticated,
        ensures final(conn_state).calls == old(conn_state).calls + 1,
    { unimplemented!() }
    #[verifier::external_body]
    pub async fn process_restart(&self, conn_state: &mut ConnState, ) -> (r: Result<(), HErr>)
        requires old(conn_state).user_state.authenticated,
        ensures final(conn_state).calls == old(conn_state).calls + 1,
    { unimplemented!() }
    #[verifier::external_body]
    pub async fn process_squit<'a>(&self, conn_state: &mut ConnState, server: &'a str, comment: &'a str,) -> (r: Result<(), HErr>)
        requires old(conn_state).user_state.authenticated,
        ensures final(conn_state).calls == old(conn_state).calls + 1,
    { unimplemented!() }
    #[verifier::external_body]
    pub async fn process_die<'a>(&self, conn_state: &mut ConnState, message_opt: Option<&'a str>,) -> (r: Result<(), HErr>)
        requires old(conn_state).user_state.authenticated,
        ensures final(conn_state).calls == old(conn_state).calls + 1,
    { unimplemented!() }
    #[verifier::external_body]
    pub async fn process_away<'a>(&self, conn_state: &mut ConnState, text: Option<&'a str>,) -> (r: Result<(), HErr>)
        requires old(conn_state).user_state.authenticated,
        ensures final(conn_state).calls == old(conn_state).calls + 1,
    { unimplemented!() }
    #[verifier::external_body]
    pub async fn process_userhost<'a>(&self, conn_state: &mut ConnState, nicknames: Vec<&'a str>,) -> (r: Result<(), HErr>)
        requires old(conn_state).user_state.authenticated,
        ensures final(conn_state).calls == old(conn_state).calls + 1,
    { unimplemented!() }
    #[verifier::external_body]
    pub async fn process_wallops<'a>(&self, conn_state: &mut ConnState, msg: &'a Message<'a>,) -> (r: Result<(), HErr>)
        requires old(conn_state).user_state.authenticated,
        ensures final(conn_state).calls == old(conn_state).calls + 1,
    { unimplemented!() }
    #[verifier::external_body]
    pub async fn process_ison<'a>(&self, conn_state: &mut ConnState, nicknames: Vec<&'a str>,) -> (r: Result<(), HErr>)
        requires old(conn_state).user_state.authenticated,
        ensures final(conn_state).calls == old(conn_state).calls + 1,
    { unimplemented!() }
    #[verifier::external_body]
    pub async fn process_motd<'a>(&self, conn_state: &mut ConnState, target: Option<&'a str>,) -> (r: Result<(), HErr>)
        requires old(conn_state).user_state.authenticated,
        ensures final(conn_state).calls == old(conn_state).calls + 1,
    { unimplemented!() }
    #[verifier::external_body]
    pub async fn process_version<'a>(&self, conn_state: &mut ConnState, target: Option<&'a str>,) -> (r: Result<(), HErr>)
        requires old(conn_state).user_state.authenticated,
        ensures final(conn_state).calls == old(conn_state).calls + 1,
    { unimplemented!() }
    #[verifier::external_body]
    pub async fn process_admin<'a>(&self, conn_state: &mut ConnState, target: Option<&'a str>,) -> (r: Result<(), HErr>)
        requires old(conn_state).user_state.authenticated,
        ensures final(conn_state).calls == old(conn_state).calls + 1,
    { unimplemented!() }
    #[verifier::external_body]
    pub async fn process_connect<'a>(&self, conn_state: &mut ConnState, _p5: &'a str, _p6: Option<u16>, _p7: Option<&'a str>,) -> (r: Result<(), HErr>)
        requires old(conn_state).user_state.authenticated,
        ensures final(conn_state).calls == old(conn_state).calls + 1,
    { unimplemented!() }
    #[verifier::external_body]
    pub async fn process_lusers(&self, conn_state: &mut ConnState, ) -> (r: Result<(), HErr>)
        requires old(conn_state).user_state.authenticated,
        ensures final(conn_state).calls == old(conn_state).calls + 1,
    { unimplemented!() }
    #[verifier::external_body]
    pub async fn process_time<'a>(&self, conn_state: &mut ConnState, server: Option<&'a str>,) -> (r: Result<(), HErr>)
        requires old(conn_state).user_state.authenticated,
        ensures final(conn_state).calls == old(conn_state).calls + 1,
    { unimplemented!() }
    #[verifier::external_body]
    pub async fn process_stats<'a>(&self, conn_state: &mut ConnState, stat: char, server: Option<&'a str>,) -> (r: Result<(), HErr>)
        requires old(conn_state).user_state.authenticated,
        ensures final(conn_state).calls == old(conn_state).calls + 1,
    { unimplemented!() }
    #[verifier::external_body]
    pub async fn process_links<'a>(&self, conn_state: &mut ConnState, remote_server: Option<&'a str>, server_mask: Option<&'a str>,) -> (r: Result<(), HErr>)
        requires old(conn_state).user_state.authenticated,
        ensures final(conn_state).calls == old(conn_state).calls + 1,
    { unimplemented!() }
    #[verifier::external_body]
    pub async fn process_help<'a>(&self, conn_state: &mut ConnState, subject_opt: Option<&'a str>,) -> (r: Result<(), HErr>)
        requires old(conn_state).user_state.authenticated,
        ensures final(conn_state).calls == old(conn_state).calls + 1,
    { unimplemented!() }
    #[verifier::external_body]
    pub async fn process_info(&self, conn_state: &mut ConnState, ) -> (r: Result<(), HErr>)
        requires old(conn_state).user_state.authenticated,
        ensures final(conn_state).calls == old(conn_state).calls + 1,
    { unimplemented!() }
    #[verifier::external_body]
    pub async fn process_mode<'a>(&self, conn_state: &mut ConnState, target: &'a str, modes: Vec<(&'a str, Vec<&'a str>)>,) -> (r: Result<(), HErr>)
        requires old(conn_state).user_state.authenticated,
        ensures final(conn_state).calls == old(conn_state).calls + 1,
    { unimplemented!() }

    pub async fn dispatch_command(&self, conn_state: &mut ConnState, msg_str_res: Option<Result<String, LinesCodecError>>) -> (r: Result<(), HErr>)
        ensures
            !old(conn_state).user_state.authenticated && final(conn_state).calls == old(conn_state).calls
                ==> final(conn_state).user_state == old(conn_state).user_state,
    {
        broadcast use ax_display_commanderror;
                let msg = match msg_str_res {
                    Some(Ok(ref msg_str)) => {
                        // try parse message from this line.
                        match Message::from_shared_str(msg_str) {
                            Ok(msg) => msg,
                            Err(e) => {
                                match e {
                                    MessageError::Empty => {
                                        return Ok(())   // ignore empties
                                    }
                                    MessageError::WrongSource => {
                                        self.feed_msg(&mut conn_state.stream,
                                            "ERROR :Wrong source").await?;
                                    }
                                    MessageError::NoCommand => {
                                        self.feed_msg(&mut conn_state.stream,
                                            "ERROR :No command supplied").await?;
                                    }
                                }
                                return Err(HErr::from(e));
                            }
                        }
                    }
                    // if line is longer than max line length.
                    Some(Err(LinesCodecError::MaxLineLengthExceeded)) => {
                        let client = conn_state.user_state.client_name();
                        self.feed_msg(&mut conn_state.stream,
                                    ErrInputTooLong417{ client }).await?;
                        return Ok(())
                    },
                    Some(Err(e)) => return Err(HErr::from(e)),
                    // if end of stream
                    None => {
                        conn_state.quit.store(1, Ordering::SeqCst);
                        return Err(HErr::from(io_unexpected_eof()))
                    }
                };

                let cmd = match Command::from_message(&msg) {
                    Ok(cmd) => cmd,
                    // handle errors while parsing command.
                    Err(e) => {
                        use crate::CommandError::*;
                        let client = conn_state.user_state.client_name();
                        match e {
                            UnknownCommand(ref cmd_name) => {
                                self.feed_msg(&mut conn_state.stream,
                                        ErrUnknownCommand421{ client,
                                        command: cmd_name }).await?;
                            }
                            UnknownSubcommand(_, _)|ParameterDoesntMatch(_, _)|
                                    WrongParameter(_, _) => {
                                self.feed_msg(&mut conn_state.stream,
                                        format!("ERROR :{}", e)).await?;
                            }
                            NeedMoreParams(command) => {
                                self.feed_msg(&mut conn_state.stream,
                                        ErrNeedMoreParams461{ client,
                                        command: command.name }).await?;
                            }
                            UnknownMode(_, modechar, ref channel) => {
                                self.feed_msg(&mut conn_state.stream,
                                        ErrUnknownMode472{ client,
                                        modechar, channel }).await?;
                            }
                            UnknownUModeFlag(_) => {
                                self.feed_msg(&mut conn_state.stream,
                                        ErrUmodeUnknownFlag501{ client })
                                        .await?;
                            }
                            InvalidModeParam{ ref target, modechar, ref param,
                                    ref description } => {
                                self.feed_msg(&mut conn_state.stream,
                                        ErrInvalidModeParam696{ client,
                                        target, modechar, param, description }).await?;
                            }
                        }
                        return Err(HErr::from(e));
                    }
                };

                self.count_command(&cmd);

                use crate::Command::*;
                // if user not authenticated
                match cmd {
                    CAP{ .. } | AUTHENTICATE{ } | PASS{ .. } | NICK{ .. } |
                            USER{ .. } | QUIT{ } => {},
                    _ => {
                        // expect CAP, AUTHENTICATE, PASS, NICK, USER, QUIT -
                        // other commands need authenication.
                        if !conn_state.user_state.authenticated {
                            self.feed_msg(&mut conn_state.stream, ErrNotRegistered451{
                                    client: conn_state.user_state.client_name() }).await?;
                            return Ok(())
                        }
                    }
                }

                match cmd {
                    CAP{ subcommand, caps, version } =>
                        self.process_cap(conn_state, subcommand, caps, version).await,
                    AUTHENTICATE{ } =>
                        self.process_authenticate(conn_state).await,
                    PASS{ password } =>
                        self.process_pass(conn_state, password).await,
                    NICK{ nickname } =>
                        self.process_nick(conn_state, nickname, &msg).await,
                    USER{ username, hostname, servername, realname } =>
                        self.process_user(conn_state, username, hostname,
                                servername, realname).await,
                    PING{ token } => self.process_ping(conn_state, token).await,
                    PONG{ token } => self.process_pong(conn_state, token).await,
                    OPER{ name, password } =>
                        self.process_oper(conn_state, name, password).await,
                    QUIT{ } => self.process_quit(conn_state).await,
                    JOIN{ channels, keys } =>
                        self.process_join(conn_state, channels, keys).await,
                    PART{ channels, reason } =>
                        self.process_part(conn_state, channels, reason).await,
                    TOPIC{ channel, topic } =>
                        self.process_topic(conn_state, channel, topic, &msg).await,
                    NAMES{ channels } =>
                        self.process_names(conn_state, channels).await,
                    LIST{ channels, server } =>
                        self.process_list(conn_state, channels, server).await,
                    INVITE{ nickname, channel } =>
                        self.process_invite(conn_state, nickname, channel, &msg).await,
                    KICK{ channel, users, comment } =>
                        self.process_kick(conn_state, channel, users, comment).await,
                    MOTD{ target } =>
                        self.process_motd(conn_state, target).await,
                    VERSION{ target } =>
                        self.process_version(conn_state, target).await,
                    ADMIN{ target } =>
                        self.process_admin(conn_state, target).await,
                    CONNECT{ target_server, port, remote_server } =>
                        self.process_connect(conn_state, target_server, port,
                                remote_server).await,
                    LUSERS{ } => self.process_lusers(conn_state).await,
                    TIME{ server } =>
                        self.process_time(conn_state, server).await,
                    STATS{ query, server } =>
                        self.process_stats(conn_state, query, server).await,
                    LINKS{ remote_server, server_mask } =>
                        self.process_links(conn_state, remote_server, server_mask).await,
                    HELP{ subject } =>
                        self.process_help(conn_state, subject).await,
                    INFO{ } => self.process_info(conn_state).await,
                    MODE{ target, modes } =>
                        self.process_mode(conn_state, target, modes).await,
                    PRIVMSG{ targets, text } =>
                        self.process_privmsg(conn_state, targets, text).await,
                    NOTICE{ targets, text } =>
                        self.process_notice(conn_state, targets, text).await,
                    WHO{ mask } => self.process_who(conn_state, mask).await,
                    WHOIS{ target, nickmasks } =>
                        self.process_whois(conn_state, target, nickmasks).await,
                    WHOWAS{ nickname, count, server } =>
                        self.process_whowas(conn_state, nickname, count, server).await,
                    KILL{ nickname, comment } =>
                        self.process_kill(conn_state, nickname, comment).await,
                    REHASH{ } => self.process_rehash(conn_state).await,
                    RESTART{ } => self.process_restart(conn_state).await,
                    SQUIT{ server, comment } =>
                        self.process_squit(conn_state, server, comment).await,
                    AWAY{ text } =>
                        self.process_away(conn_state, text).await,
                    USERHOST{ nicknames } =>
                        self.process_userhost(conn_state, nicknames).await,
                    WALLOPS{ .. } =>
                        self.process_wallops(conn_state, &msg).await,
                    ISON{ nicknames } =>
                        self.process_ison(conn_state, nicknames).await,
                    DIE{ message } =>
                        self.process_die(conn_state, message).await,
                }
    }
}
}
impl<'a> fmt::Display for Reply<'a> { fn fmt(&self, f: &mut std::fmt::Formatter<'_>) -> std::fmt::Result { Ok(()) } }
impl fmt::Display for CommandError { fn fmt(&self, f: &mut std::fmt::Formatter<'_>) -> std::fmt::Result { Ok(()) } }
fn main() {}
