use vstd::prelude::*;
use std::collections::{HashMap, HashSet};
verus! {
use vstd::std_specs::hash::*;
use vstd::std_specs::iter::*;
fn f(s: &HashSet<String>) 
    requires obeys_key_model::<String>()
{
    broadcast use group_hash_axioms;
    let it0 = s.iter();
    let ghost r = IteratorSpec::remaining(&it0);
    assert(r.map(|i: int, k: &String| *k).to_set() == s@);  // E2
    assert(forall|i: int| 0 <= i < r.len() ==> s@.contains(*#[trigger] r[i])) by {
        assert forall|i: int| 0 <= i < r.len() implies s@.contains(*#[trigger] r[i]) by {
            let m = r.map(|i: int, k: &String| *k);
            assert(m[i] == *r[i]);
            assert(m.to_set().contains(m[i]));
        }
    }
}
}
fn main() {}
