use vstd::prelude::*;
verus! {
pub uninterp spec fn string_of(s: Seq<char>) -> String;
pub broadcast axiom fn ax_string_ext(x: String)
    ensures (#[trigger] string_of(x@)) == x;
proof fn t(x: String) { broadcast use ax_string_ext; assert(string_of(x@) == x); }
fn t2(x: &String) { broadcast use ax_string_ext; assert(string_of((*x)@) == *x); }
fn t3(xs: &Vec<String>) { broadcast use ax_string_ext; 
   for x in it: xs.iter() { assert(string_of((*x)@) == *x); } }
}
fn main() {}
