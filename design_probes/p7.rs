use vstd::prelude::*;
use std::collections::{HashMap, HashSet};
use std::error::Error;
verus! {
use vstd::std_specs::hash::*;
fn f(a: &str, b: &str) -> (r: String)
{
    let s = format!("JOIN {} :{}", a, b);
    s
}

pub struct Stream { pub buffer: Vec<String> }
pub struct LErr { pub e: u8 }

impl Stream {
    pub async fn feed(&mut self, msg: String) -> (r: Result<(), LErr>)
        ensures r is Ok, final(self).buffer@ == old(self).buffer@.push(msg)
    {
        self.buffer.push(msg);
        Ok(())
    }
}

async fn h(s: &mut Stream, a: &str) -> (r: Result<(), LErr>)
    ensures final(s).buffer@.len() == old(s).buffer@.len() + 1
{
    s.feed(format!("X {}", a)).await?;
    Ok(())
}

fn it(m: &HashMap<String, u64>) -> (r: u64)
    requires obeys_key_model::<String>(), builds_valid_hashers::<std::collections::hash_map::RandomState>(),
{
    let mut c: u64 = 0;
    for k in m.keys() {
        if c < 100 { c = c + 1; }
    }
    c
}
}
fn main() {}
