#![feature(allocator_api)]
use vstd::prelude::*;
use std::collections::{HashMap, HashSet};
verus! {
use vstd::std_specs::hash::*;

pub uninterp spec fn string_of(s: Seq<char>) -> String;

pub broadcast axiom fn ax_string_of_view(s: Seq<char>)
    ensures #[trigger] string_of(s)@ == s;
pub broadcast axiom fn ax_string_ext(x: String)
    ensures #[trigger] string_of(x@) == x;

pub broadcast axiom fn ax_contains_str_key<V>(m: Map<String, V>, q: &str)
    ensures #[trigger] contains_borrowed_key::<String, V, str>(m, q) <==> m.contains_key(string_of(q@));
pub broadcast axiom fn ax_maps_str_key<V>(m: Map<String, V>, q: &str, v: V)
    ensures #[trigger] maps_borrowed_key_to_value::<String, V, str>(m, q, v) <==> (m.contains_key(string_of(q@)) && m[string_of(q@)] == v);
pub broadcast axiom fn ax_str_key_removed<V>(o: Map<String, V>, n: Map<String, V>, q: &str)
    ensures #[trigger] borrowed_key_removed::<String, V, str>(o, n, q) <==> n == o.remove(string_of(q@));

pub assume_specification<'a, K, V, S, A, Q> [std::collections::HashMap::<K, V, S, A>::get_mut] (m: &'a mut std::collections::HashMap<K, V, S, A>, k: &Q) -> (r: std::option::Option<&'a mut V>)
           where
           A: std::alloc::Allocator,
           K: std::cmp::Eq + std::hash::Hash + std::borrow::Borrow<Q>,
           Q: std::marker::MetaSized + std::hash::Hash + std::cmp::Eq + ?Sized,
           S: std::hash::BuildHasher,
    ensures
        obeys_key_model::<K>() && builds_valid_hashers::<S>() ==> match r {
            Some(v) => maps_borrowed_key_to_value(old(m)@, k, *v)
                && final(m)@.dom() == old(m)@.dom()
                && maps_borrowed_key_to_value(final(m)@, k, *final(v))
                && (forall|k2: K| old(m)@.contains_key(k2) && !maps_borrowed_key_to_value(old(m)@, k, old(m)@[k2]) ==> final(m)@[k2] == old(m)@[k2]),
            None => !contains_borrowed_key(old(m)@, k) && final(m)@ == old(m)@,
        },
;

pub struct Channel {
    pub users: HashMap<String, u8>,
    pub preconfigured: bool,
}

fn set_flag(c: &mut Channel, nick: &str)
    requires obeys_key_model::<String>(), builds_valid_hashers::<std::collections::hash_map::RandomState>(),
        old(c).users@.contains_key(string_of(nick@)),
    ensures final(c).users@.contains_key(string_of(nick@)),
            final(c).users@[string_of(nick@)] == 7,
{
    broadcast use vstd::std_specs::hash::group_hash_axioms, ax_contains_str_key, ax_maps_str_key, ax_str_key_removed, ax_string_of_view, ax_string_ext;
    *c.users.get_mut(nick).unwrap() = 7;
}

}
fn main() {}
