use vstd::prelude::*;
use std::collections::{HashMap, HashSet};
verus! {
use vstd::std_specs::hash::*;
use vstd::std_specs::iter::*;

pub uninterp spec fn glob(p: Seq<char>, t: Seq<char>) -> bool;

#[verifier::external_body]
pub fn match_wildcard<'a>(pattern: &'a str, text: &'a str) -> (r: bool)
    ensures r == glob(pattern@, text@)
{ unimplemented!() }

pub assume_specification<T, U, F: FnOnce(T) -> U>[Option::<T>::map_or](o: Option<T>, default: U, f: F) -> (r: U)
    requires o matches Some(x) ==> f.requires((x,)),
    ensures match o { None => r == default, Some(x) => f.ensures((x,), r) };

pub assume_specification<'a, K, F: FnMut(&'a K) -> bool>[<std::collections::hash_set::Iter<'a, K> as Iterator>::any](it: &mut std::collections::hash_set::Iter<'a, K>, f: F) -> (r: bool)
    requires forall|x: &'a K| f.requires((x,)),
    ensures 
        r ==> exists|i: int| 0 <= i < IteratorSpec::remaining(old(it)).len() && f.ensures((#[trigger] IteratorSpec::remaining(old(it))[i],), true),
        !r ==> forall|i: int| 0 <= i < IteratorSpec::remaining(old(it)).len() ==> f.ensures((#[trigger] IteratorSpec::remaining(old(it))[i],), false);

pub struct ChannelModes {
    pub ban: Option<HashSet<String>>,
    pub exception: Option<HashSet<String>>,
}

pub open spec fn any_glob(o: Option<HashSet<String>>, src: Seq<char>) -> bool {
    o matches Some(s) && exists|b: String| s@.contains(b) && glob(b@, src)
}

impl ChannelModes {
    pub fn banned(&self, source: &str) -> (r: bool)
        requires obeys_key_model::<String>()
        ensures r == (any_glob(self.ban, source@) && !any_glob(self.exception, source@))
    {
        self.ban
            .as_ref()
            .map_or(false, |b| b.iter().any(|b| match_wildcard(b, source)))
            && (!self
                .exception
                .as_ref()
                .map_or(false, |e| e.iter().any(|e| match_wildcard(e, source))))
    }
}
}
fn main() {}
