use vstd::prelude::*;
verus! {
fn b(xs: Vec<(bool,bool)>, channels: Vec<&str>) -> usize {
    let mut n = 0usize;
    for ((j, c), ch) in xs.iter().zip(channels.iter()) {
        if *j { if n < 10 { n += 1; } }
    }
    n
}
}
fn main() {}
