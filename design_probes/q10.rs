use vstd::prelude::*;
verus! {
fn g3(mask: &str) -> String { let mut out = String::new(); out += mask; out += "!*@*"; out.push('x'); out.push_str(mask); out }
}
fn main() {}
