#![feature(pattern)]
use vstd::prelude::*;
verus! {
use vstd::std_specs::core::*;
use vstd::string::*;

// ---------------- trusted byte-level str prelude (std facts) ----------------
pub open spec fn is_cont(b: u8) -> bool { 0x80u8 <= b < 0xC0u8 }
pub open spec fn boundary(s: &str, i: int) -> bool {
    0 <= i <= s.spec_bytes().len() && (i == s.spec_bytes().len() || !is_cont(s.spec_bytes()[i]))
}
pub broadcast axiom fn ax_str_len(s: &str)
    ensures #[trigger] s.len() == s.spec_bytes().len();
pub broadcast axiom fn ax_bytes_len_bound(s: &str)
    ensures #[trigger] s.spec_bytes().len() <= usize::MAX;
pub broadcast axiom fn ax_utf8_first(s: &str)
    ensures #[trigger] s.spec_bytes().len() > 0 ==> !is_cont(s.spec_bytes()[0]);
pub axiom fn ax_utf8_after_ascii(s: &str, i: int)
    ensures 0 <= i && i + 1 < s.spec_bytes().len() && s.spec_bytes()[i] < 0x80u8 ==> !is_cont(s.spec_bytes()[i + 1]);

#[verifier::external_trait_specification]
pub trait ExPattern: Sized { type ExternalTraitSpecificationFor: std::str::pattern::Pattern; }
pub uninterp spec fn pat_byte<P>(p: P) -> u8;
pub uninterp spec fn pat_is_ascii_char<P>(p: P) -> bool;
pub broadcast axiom fn ax_char_pattern(c: char)
    ensures #[trigger] pat_is_ascii_char(c) == ((c as u32) < 128), (c as u32) < 128 ==> pat_byte(c) == (c as u8);

pub assume_specification<P> [str::find] (s: &str, p: P) -> (r: std::option::Option<usize>)
          where P: std::str::pattern::Pattern,
    ensures
        pat_is_ascii_char(p) ==> match r {
            Some(i) => i < s.spec_bytes().len() && s.spec_bytes()[i as int] == pat_byte(p)
                && forall|j: int| 0 <= j < i ==> s.spec_bytes()[j] != pat_byte(p),
            None => forall|j: int| 0 <= j < s.spec_bytes().len() ==> s.spec_bytes()[j] != pat_byte(p),
        };

pub uninterp spec fn slice_lo<I>(i: I) -> int;
pub uninterp spec fn slice_hi<I>(i: I, len: int) -> int;
pub uninterp spec fn out_bytes<O: ?Sized>(o: &O) -> Seq<u8>;
pub broadcast axiom fn ax_out_bytes_str(o: &str) ensures #[trigger] out_bytes::<str>(o) == o.spec_bytes();
pub broadcast axiom fn ax_bounds_from(r: std::ops::RangeFrom<usize>, len: int)
    ensures #[trigger] slice_hi(r, len) == len, slice_lo(r) == r.start;
pub broadcast axiom fn ax_bounds_to(r: std::ops::RangeTo<usize>, len: int)
    ensures #[trigger] slice_hi(r, len) == r.end, slice_lo(r) == 0;
pub broadcast axiom fn ax_bounds_range(r: std::ops::Range<usize>, len: int)
    ensures #[trigger] slice_hi(r, len) == r.end, slice_lo(r) == r.start;

pub assume_specification<I: std::slice::SliceIndex<str>> [<str as std::ops::Index<I>>::index] (s: &str, i: I) -> (r: &I::Output)
    ensures out_bytes(r) == s.spec_bytes().subrange(slice_lo(i), slice_hi(i, s.spec_bytes().len() as int));

pub broadcast axiom fn ax_idx_from_req(s: &str, r: std::ops::RangeFrom<usize>)
    ensures #[trigger] <str as IndexSpec<std::ops::RangeFrom<usize>>>::index_req(s, &r) <==> boundary(s, r.start as int);
pub broadcast axiom fn ax_idx_to_req(s: &str, r: std::ops::RangeTo<usize>)
    ensures #[trigger] <str as IndexSpec<std::ops::RangeTo<usize>>>::index_req(s, &r) <==> boundary(s, r.end as int);
pub broadcast axiom fn ax_idx_range_req(s: &str, r: std::ops::Range<usize>)
    ensures #[trigger] <str as IndexSpec<std::ops::Range<usize>>>::index_req(s, &r) <==> (boundary(s, r.start as int) && boundary(s, r.end as int) && r.start <= r.end);
pub broadcast group strp { ax_bytes_len_bound, ax_str_len, ax_utf8_first, ax_char_pattern, ax_out_bytes_str, ax_bounds_from, ax_bounds_to, ax_bounds_range, ax_idx_from_req, ax_idx_to_req, ax_idx_range_req }

fn t<'a>(pat: &'a str) -> (r: (&'a str, &'a str))
{
    broadcast use strp;
    if let Some(i) = pat.find('*') {
        proof { ax_utf8_after_ascii(pat, i as int); }
        let a = &pat[..i];
        let b = &pat[i + 1..];
        assert(a.spec_bytes() == pat.spec_bytes().subrange(0, i as int));
        assert(b.spec_bytes() == pat.spec_bytes().subrange(i + 1, pat.spec_bytes().len() as int));
        (a, b)
    } else {
        let n = pat.len();
        assert(n == pat.spec_bytes().len());
        assert(boundary(pat, n as int));
        assert(<str as IndexSpec<std::ops::Range<usize>>>::index_req(pat, &(n..n)));
        (&pat[n..n], pat)
    }
}
}
fn main() {}
