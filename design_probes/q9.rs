#![feature(allocator_api)]
use vstd::prelude::*;
use std::collections::{HashMap, HashSet};
use std::fmt;
verus! {
use vstd::std_specs::hash::*;

#[verifier::external_type_specification]
#[verifier::external_body]
pub struct ExLinesCodecError(crate::stubs::LinesCodecError);
#[verifier::external_type_specification]
#[verifier::external_body]
pub struct ExSendError(crate::stubs::SendError);
pub struct HErr { pub k: u8 }
impl From<stubs::LinesCodecError> for HErr {
    #[verifier::external_body]
    fn from(e: stubs::LinesCodecError) -> HErr { HErr{k:0} }
}
impl From<stubs::SendError> for HErr {
    #[verifier::external_body]
    fn from(e: stubs::SendError) -> HErr { HErr{k:0} }
}
pub assume_specification<'a, K, V, S, A, Q> [std::collections::HashMap::<K, V, S, A>::get_mut] (m: &'a mut std::collections::HashMap<K, V, S, A>, k: &Q) -> (r: std::option::Option<&'a mut V>)
           where
           A: std::alloc::Allocator,
           K: std::cmp::Eq + std::hash::Hash + std::borrow::Borrow<Q>,
           Q: std::marker::MetaSized + std::hash::Hash + std::cmp::Eq + ?Sized,
           S: std::hash::BuildHasher,
;

#[verifier::external_body]
fn plus(a: String, b: &str) -> String { a + b }
pub struct NameReplyStruct<'a> { pub prefix: String, pub nick: &'a str }
pub enum Reply<'a> {
    ErrBadChannelKey475 { client: &'a str, channel: &'a str },
    ErrBannedFromChan474 { client: &'a str, channel: &'a str },
    ErrInviteOnlyChan473 { client: &'a str, channel: &'a str },
    ErrChannelIsFull471 { client: &'a str, channel: &'a str },
    ErrTooManyChannels405 { client: &'a str, channel: &'a str },
    RplTopic332 { client: &'a str, channel: &'a str, topic: &'a str },
}
use Reply::*;

#[derive(Copy, Clone, Default, Debug, PartialEq, Eq)]
pub struct ChannelUserModes {
    pub founder: bool,
    pub protected: bool,
    pub voice: bool,
    pub operator: bool,
    pub half_oper: bool,
}
pub struct ChannelTopic { pub topic: String, pub nick: String, pub set_time: u64 }
pub struct ChannelModes {
    pub invite_exception: Option<HashSet<String>>,
    pub client_limit: Option<usize>,
    pub key: Option<String>,
    pub invite_only: bool,
}
impl ChannelModes {
    #[verifier::external_body]
    pub fn banned(&self, source: &str) -> bool { unimplemented!() }
    #[verifier::external_body]
    pub fn invite_excepted(&self, source: &str) -> bool { unimplemented!() }
}
#[verifier::external_body]
pub fn match_wildcard<'a>(pattern: &'a str, text: &'a str) -> bool { unimplemented!() }

pub struct Channel {
    pub topic: Option<ChannelTopic>,
    pub modes: ChannelModes,
    pub users: HashMap<String, ChannelUserModes>,
    pub preconfigured: bool,
}
impl Channel {
    #[verifier::external_body]
    pub fn new_on_user_join(user_nick: String) -> Channel { unimplemented!() }
    #[verifier::external_body]
    pub fn add_user(&mut self, user_nick: &String) { unimplemented!() }
}
pub struct User {
    pub channels: HashSet<String>,
    pub invited_to: HashSet<String>,
    pub last_activity: u64,
}
impl User {
    #[verifier::external_body]
    pub fn send_msg_display<T: std::fmt::Display>(
        &self,
        source: &str,
        t: T,
    ) -> Result<(), stubs::SendError> { unimplemented!() }
}

pub struct VolatileState {
    pub users: HashMap<String, User>,
    pub channels: HashMap<String, Channel>,
}

pub struct BufferedLineStream { pub buffer: Vec<String> }
pub struct MainConfig { pub name: String, pub max_joins: Option<usize> }
pub struct MainState { pub config: MainConfig }
pub struct ConnUserState { pub nick: Option<String>, pub source: String }
impl ConnUserState {
    #[verifier::external_body]
    pub fn client_name(&self) -> &str { unimplemented!() }
}
pub struct ConnState { pub stream: BufferedLineStream, pub user_state: ConnUserState }

pub struct SystemTime { pub x: u64 }
pub struct Duration { pub x: u64 }
#[derive(Debug)]
pub struct TErr { pub x: u64 }
pub const UNIX_EPOCH: SystemTime = SystemTime { x: 0 };
impl SystemTime {
    #[verifier::external_body]
    pub fn now() -> SystemTime { unimplemented!() }
    #[verifier::external_body]
    pub fn duration_since(&self, e: SystemTime) -> (r: Result<Duration, TErr>) ensures r is Ok { unimplemented!() }
}
impl Duration {
    #[verifier::external_body]
    pub fn as_secs(&self) -> u64 { unimplemented!() }
}

impl MainState {
    #[verifier::external_body]
    async fn feed_msg<T: fmt::Display>(
        &self,
        stream: &mut BufferedLineStream,
        t: T,
    ) -> (r: Result<(), stubs::LinesCodecError>)
        ensures r is Ok
    {
        unimplemented!()
    }
    #[verifier::external_body]
    async fn feed_msg_source<T: fmt::Display>(
        &self,
        stream: &mut BufferedLineStream,
        source: &str,
        t: T,
    ) -> (r: Result<(), stubs::LinesCodecError>)
        ensures r is Ok
    {
        unimplemented!()
    }
    #[verifier::external_body]
    async fn send_names_from_channel<'a>(
        &self,
        conn_state: &mut ConnState,
        channel_name: &'a str,
        channel: &'a Channel,
        users: &HashMap<String, User>,
        end: bool,
    ) -> Result<(), HErr> { unimplemented!() }

    pub async fn process_join<'a>(
        &self,
        state: &mut VolatileState,
        conn_state: &mut ConnState,
        channels: Vec<&'a str>,
        keys_opt: Option<Vec<&'a str>>,
    ) -> Result<(), HErr> {
        let user_nick = conn_state.user_state.nick.as_ref().unwrap().clone();
        let user_joined = state.users.get(&user_nick).unwrap().channels.len();
        let mut join_count = user_joined;

        let mut joined_created = vec![];

        {
            let client = conn_state.user_state.client_name();
            let user = state.users.get_mut(user_nick.as_str()).unwrap();
            let mut i: usize = 0;
            for chname_str in channels.iter() {
                let chname = chname_str.to_string();
                let (join, create) = if let Some(channel) = state.channels.get(&chname) {
                    // if already created
                    let do_join = if let Some(key) = &channel.modes.key {
                        if let Some(ref keys) = keys_opt {
                            // check key
                            if key != keys[i] {
                                self.feed_msg(
                                    &mut conn_state.stream,
                                    ErrBadChannelKey475 {
                                        client,
                                        channel: chname_str,
                                    },
                                )
                                .await?;
                                false
                            } else {
                                true
                            }
                        } else {
                            // no key then bad key
                            self.feed_msg(
                                &mut conn_state.stream,
                                ErrBadChannelKey475 {
                                    client,
                                    channel: chname_str,
                                },
                            )
                            .await?;
                            false
                        }
                    } else {
                        true
                    };

                    // check whether user is banned
                    let do_join = do_join && {
                        if !channel.modes.banned(&conn_state.user_state.source) {
                            true
                        } else {
                            self.feed_msg(
                                &mut conn_state.stream,
                                ErrBannedFromChan474 {
                                    client,
                                    channel: chname_str,
                                },
                            )
                            .await?;
                            false
                        }
                    };

                    // check whether must have invitation
                    let do_join = do_join && {
                        if !channel.modes.invite_only
                            || user.invited_to.contains(&chname)
                            || channel.modes.invite_excepted(&conn_state.user_state.source)
                        {
                            true
                        } else {
                            self.feed_msg(
                                &mut conn_state.stream,
                                ErrInviteOnlyChan473 {
                                    client,
                                    channel: chname_str,
                                },
                            )
                            .await?;
                            false
                        }
                    };

                    // check whether channel is not full
                    let do_join = do_join && {
                        let not_full = if let Some(client_limit) = channel.modes.client_limit {
                            channel.users.len() < client_limit
                        } else {
                            true
                        };
                        if not_full {
                            true
                        } else {
                            self.feed_msg(
                                &mut conn_state.stream,
                                ErrChannelIsFull471 {
                                    client,
                                    channel: chname_str,
                                },
                            )
                            .await?;
                            false
                        }
                    };
                    // check whether user is not alrady joined
                    let do_join = do_join && !channel.users.contains_key(&user_nick);

                    if do_join {
                        (true, false)
                    } else {
                        (false, false)
                    }
                } else {
                    // if new channel
                    (true, true)
                };

                // check whether user is not in max channels
                let do_join = if let Some(max_joins) = self.config.max_joins {
                    if join_count >= max_joins {
                        self.feed_msg(
                            &mut conn_state.stream,
                            ErrTooManyChannels405 {
                                client,
                                channel: chname_str,
                            },
                        )
                        .await?;
                    }
                    join && join_count < max_joins
                } else {
                    join
                };

                joined_created.push((do_join, create));
                if do_join {
                    join_count += 1;
                }
                i += 1;
            }

            // insert create channel or add user to channel
            for ((join, create), chname_str) in joined_created.iter().zip(channels.iter()) {
                let chname = chname_str.to_string();

                if *join {
                    user.channels.insert(chname.clone());
                    user.invited_to.remove(&chname);
                    if *create {
                        state
                            .channels
                            .insert(chname, Channel::new_on_user_join(user_nick.clone()));
                    } else {
                        state
                            .channels
                            .get_mut(&chname)
                            .unwrap()
                            .add_user(&user_nick);
                    }
                }
            }
            // if something done - then change last activity
            if join_count != user_joined {
                user.last_activity = SystemTime::now()
                    .duration_since(UNIX_EPOCH)
                    .unwrap()
                    .as_secs();
            }
        }

        // sending messages
        {
            for ((join, _), chname_str) in joined_created.iter().zip(channels.iter()) {
                if *join {
                    let chanobj = state.channels.get(&chname_str.to_string()).unwrap();
                    let join_msg = plus("JOIN ".to_string(), chname_str);
                    {
                        let client = conn_state.user_state.client_name();
                        self.feed_msg_source(
                            &mut conn_state.stream,
                            &conn_state.user_state.source,
                            join_msg.as_str(),
                        )
                        .await?;
                        if let Some(ref topic) = chanobj.topic {
                            self.feed_msg(
                                &mut conn_state.stream,
                                RplTopic332 {
                                    client,
                                    channel: chname_str,
                                    topic: &topic.topic,
                                },
                            )
                            .await?;
                        }
                    }
                    self.send_names_from_channel(
                        conn_state,
                        chname_str,
                        chanobj,
                        &state.users,
                        true,
                    )
                    .await?;

                    // send message to other users in channel
                    for nick in chanobj.users.keys() {
                        if nick != user_nick.as_str() {
                            state.users.get(&nick.clone()).unwrap().send_msg_display(
                                &conn_state.user_state.source,
                                join_msg.as_str(),
                            )?;
                        }
                    }
                }
            }
        }

        Ok(())
    }
}

}
mod stubs {
    #[derive(Debug)]
    pub struct LinesCodecError { pub x: u8 }
    #[derive(Debug)]
    pub struct SendError { pub x: u8 }
}
impl<'a> fmt::Display for Reply<'a> { fn fmt(&self, f: &mut std::fmt::Formatter<'_>) -> std::fmt::Result { Ok(()) } }
fn main() {}
