#![feature(allocator_api)]
use vstd::prelude::*;
use std::collections::{HashMap, HashSet};
use std::error::Error;
use std::fmt;
verus! {
use vstd::std_specs::hash::*;

#[verifier::external_type_specification]
#[verifier::external_body]
pub struct ExLinesCodecError(tokio_util_stub::LinesCodecError);

pub struct HErr { pub k: u8 }
impl From<tokio_util_stub::LinesCodecError> for HErr {
    #[verifier::external_body]
    fn from(e: tokio_util_stub::LinesCodecError) -> HErr { HErr{k:0} }
}

pub enum Reply<'a> {
    ErrNoSuchChannel403 { client: &'a str, channel: &'a str },
    ErrNotOnChannel442 { client: &'a str, channel: &'a str },
}
use Reply::*;

pub struct BufferedLineStream { pub buffer: Vec<String> }
pub struct MainConfig { pub name: String }
pub struct MainState { pub config: MainConfig }
pub struct ConnState { pub stream: BufferedLineStream, pub nick: Option<String> }

impl MainState {
    #[verifier::external_body]
    async fn feed_msg<T: fmt::Display>(
        &self,
        stream: &mut BufferedLineStream,
        t: T,
    ) -> (r: Result<(), tokio_util_stub::LinesCodecError>)
        ensures r is Ok
    {
        unimplemented!()
    }

    pub async fn process_x<'a>(&self, conn_state: &mut ConnState, channel: &'a str) -> Result<(), HErr> {
        let client = "x";
        self.feed_msg(
            &mut conn_state.stream,
            ErrNoSuchChannel403 { client, channel },
        )
        .await?;
        Ok(())
    }
}

}
mod tokio_util_stub {
    #[derive(Debug)]
    pub struct LinesCodecError { pub x: u8 }
    impl std::fmt::Display for LinesCodecError { fn fmt(&self, f: &mut std::fmt::Formatter<'_>) -> std::fmt::Result { Ok(()) } }
    impl std::error::Error for LinesCodecError {}
}
impl<'a> fmt::Display for Reply<'a> { fn fmt(&self, f: &mut std::fmt::Formatter<'_>) -> std::fmt::Result { Ok(()) } }
fn main() {}
