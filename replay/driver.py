#!/usr/bin/env python3
"""Session-level replay: runs a witness script against the REAL server built from /repo's working tree.

usage: driver.py <witness.json> [--keep-log]
exit 1  the witness reproduces the bad behaviour on the real code (violation confirmed)
exit 0  the bad behaviour does not occur
exit 2  the replay could not be run (build failure, server did not start)

witness.json:
  { "properties": [...], "function": "...", "what": "...",
    "script": [ ["a","reg","alice"], ["a","send","JOIN #c"], ["a","recv","label"], ["b","close"], ... ],
    "bad_if": "<python expression over R (label -> list of lines), panic (bool), eof (set of conns that saw EOF)>" }
"""
import json
import os
import socket
import subprocess
import sys
import tempfile
import time

REPO = os.environ.get('VERIF_REPO', '/repo')

CFG = '''name = "irc.test"
admin_info = "a"
info = "i"
listen = "127.0.0.1"
port = %d
network = "N"
max_joins = 10
ping_timeout = 100
pong_timeout = 30
motd = "m"
dns_lookup = false
log_level = "INFO"

[default_user_modes]
invisible = false
oper = false
local_oper = false
registered = false
wallops = false

[[operators]]
name = "opnick"
password = "%s"
'''


class C:
    def __init__(self, port):
        self.s = socket.create_connection(("127.0.0.1", port))
        self.s.settimeout(0.5)
        self.buf = b""
        self.eof = False

    def send(self, line):
        try:
            self.s.sendall(line.encode() + b"\r\n")
        except OSError:
            self.eof = True

    def recv(self, wait=0.4):
        time.sleep(wait)
        try:
            while True:
                d = self.s.recv(65536)
                if not d:
                    self.eof = True
                    break
                self.buf += d
                if len(d) < 65536:
                    break
        except socket.timeout:
            pass
        except OSError:
            self.eof = True
        lines = self.buf.split(b"\r\n")
        self.buf = lines[-1]
        return [l.decode(errors="replace") for l in lines[:-1]]

    def close(self):
        try:
            self.s.close()
        except OSError:
            pass


def free_port():
    s = socket.socket()
    s.bind(("127.0.0.1", 0))
    p = s.getsockname()[1]
    s.close()
    return p


def main():
    w = json.load(open(sys.argv[1]))
    b = subprocess.run(['cargo', 'build', '--offline'], cwd=REPO, capture_output=True, text=True)
    binp = os.path.join(REPO, 'target', 'debug', 'simple-irc-server')
    if b.returncode != 0 or not os.path.exists(binp):
        print('REPLAY-ERROR build failed:\n' + b.stderr[-2000:])
        return 2
    h = subprocess.run([binp, '-g', '-P', 'operpass'], capture_output=True, text=True)
    hash_ = h.stdout.strip().split()[-1]
    d = tempfile.mkdtemp(prefix='verif_replay_', dir='/var/tmp')
    port = free_port()
    cfgp = os.path.join(d, 'cfg.toml')
    open(cfgp, 'w').write(CFG % (port, hash_))
    logp = os.path.join(d, 'server.log')
    logf = open(logp, 'w')
    env = dict(os.environ, RUST_BACKTRACE='0')
    srv = subprocess.Popen([binp, '-c', cfgp], stdout=logf, stderr=subprocess.STDOUT, env=env)
    ok = False
    for _ in range(50):
        time.sleep(0.1)
        try:
            socket.create_connection(("127.0.0.1", port)).close()
            ok = True
            break
        except OSError:
            pass
    if not ok:
        srv.kill()
        print('REPLAY-ERROR server did not start')
        return 2
    conns = {}
    R = {}
    transcript = []
    try:
        for step in w['script']:
            name, act = step[0], step[1]
            arg = step[2] if len(step) > 2 else None
            if name not in conns and act != 'close':
                conns[name] = C(port)
            c = conns.get(name)
            if act == 'send':
                c.send(arg)
                transcript.append('%s> %s' % (name, arg))
            elif act == 'reg':
                c.send('NICK ' + arg)
                c.send('USER %s 8 * :Real' % arg)
                lines = c.recv(0.6)
                transcript.append('%s> (register %s) <- %d lines' % (name, arg, len(lines)))
                R['reg_' + name] = lines
            elif act == 'recv':
                lines = c.recv(0.5)
                R[arg or ('recv_' + name)] = lines
                transcript.append('%s< %s' % (name, lines))
            elif act == 'close':
                if c:
                    c.close()
                transcript.append('%s> (close)' % name)
            elif act == 'sleep':
                time.sleep(float(arg))
        time.sleep(0.3)
    finally:
        srv.terminate()
        try:
            srv.wait(timeout=3)
        except subprocess.TimeoutExpired:
            srv.kill()
        logf.close()
    log = open(logp, errors='replace').read()
    panic = 'panicked' in log
    eof = {n for n, c in conns.items() if c.eof}
    for c in conns.values():
        c.close()
    bad = bool(eval(w['bad_if'], {'R': R, 'panic': panic, 'eof': eof, 'any': any, 'all': all, 'len': len, 'sum': sum}))
    print('\n'.join(transcript))
    if panic:
        print('--- server panic:')
        print('\n'.join(l for l in log.split('\n') if 'panicked' in l)[:1500])
    print('REPLAY %s: %s' % ('REPRODUCED' if bad else 'not reproduced', w.get('what', '')))
    if '--keep-log' not in sys.argv:
        subprocess.run(['rm', '-rf', d])
    return 1 if bad else 0


if __name__ == '__main__':
    sys.exit(main())
