#!/usr/bin/env python3
"""writes the generic witness scripts g2_*.json (one per handler group); run once by hand, the json files are what the checks use"""
import json, os
HERE = os.path.dirname(os.path.abspath(__file__))


def w(name, props, fn, what, script, bad, more=()):
    json.dump({"properties": props, "function": fn, "functions": list(more), "what": what, "script": script, "bad_if": bad},
              open(os.path.join(HERE, 'witness', name + '.json'), 'w'))


def reg(c, n):
    return [c, "reg", n]


w('g2_kick_ranks', ['C09', 'C04'], 'MainState::process_kick',
  'KICK by a plain member works, a half-operator kicks an operator, or a permitted kick is not carried out / announced',
  [reg('a', 'alice'), reg('b', 'bob'), reg('c', 'carol'), ['a', 'send', 'JOIN #kr'], ['a', 'recv'], ['b', 'send', 'JOIN #kr'], ['b', 'recv'],
   ['c', 'send', 'JOIN #kr'], ['c', 'recv'], ['a', 'recv'], ['b', 'recv'],
   ['c', 'send', 'KICK #kr bob'], ['c', 'recv', 'plain'], ['a', 'send', 'MODE #kr +h carol'], ['a', 'recv'], ['a', 'send', 'MODE #kr +o bob'], ['a', 'recv'],
   ['b', 'recv'], ['c', 'recv'],
   ['c', 'send', 'KICK #kr bob'], ['c', 'recv', 'halfop'], ['b', 'send', 'KICK #kr carol :out'], ['c', 'recv', 'victim'], ['a', 'recv', 'rest'],
   ['a', 'send', 'NAMES #kr'], ['a', 'recv', 'names']],
  "panic or not any(' 482 ' in l for l in R['plain']) or not any(' 972 ' in l for l in R['halfop']) "
  "or R['victim'] != [':bob!~bob@127.0.0.1 KICK #kr carol :out'] or R['rest'] != R['victim'] "
  "or any('carol' in l for l in R['names'] if ' 353 ' in l) or not any('@bob' in l for l in R['names'] if ' 353 ' in l)")

w('g2_oper_kill_wallops', ['C11'], 'MainState::process_oper',
  'operator status without the right OPER, or KILL / WALLOPS usable without it, or WALLOPS not reaching exactly the +w users',
  [reg('a', 'alice'), reg('b', 'bob'), reg('c', 'carol'), ['a', 'send', 'KILL bob :no'], ['a', 'recv', 'nokill'], ['a', 'send', 'WALLOPS :hi'],
   ['a', 'recv', 'nowall'], ['a', 'send', 'OPER opnick wrong'], ['a', 'recv', 'badpass'],
   ['a', 'send', 'OPER opnick operpass'], ['a', 'recv', 'oper'], ['b', 'send', 'MODE bob +w'], ['b', 'recv'], ['a', 'send', 'WALLOPS :attention'],
   ['b', 'recv', 'bob'], ['c', 'recv', 'carol'], ['a', 'send', 'KILL carol :bye'], ['c', 'recv', 'killed'], ['a', 'send', 'ISON carol'], ['a', 'recv', 'ison']],
  "panic or not any(' 481 ' in l for l in R['nokill']) or not any(' 481 ' in l for l in R['nowall']) or not any(' 464 ' in l for l in R['badpass']) "
  "or not any(' 381 ' in l for l in R['oper']) or R['bob'] not in ([':alice!~alice@127.0.0.1 WALLOPS :attention'], [':alice!~alice@127.0.0.1 WALLOPS attention']) or R['carol'] != [] "
  "or not any('ERROR :User killed by alice: bye' in l for l in R['killed']) or not any(' 303 ' in l and l.rstrip().endswith(':') for l in R['ison'])")

w('g2_kill_needs_oper', ['C11'], 'MainState::process_kill', 'KILL is usable by somebody who is not an operator',
  [reg('a', 'alice'), reg('b', 'bob'), ['a', 'send', 'KILL bob :no'], ['a', 'recv', 'nokill'], ['a', 'send', 'ISON bob'], ['a', 'recv', 'ison']],
  "panic or not any(' 481 ' in l for l in R['nokill']) or not any(' 303 ' in l and 'bob' in l.split(' 303 ')[1] for l in R['ison'])")

w('g2_quit_teardown', ['C06', 'C02', 'C16'], 'conn_loop_and_teardown', 'a session that ends leaves the user behind (roster, nickname, empty channel)',
  [reg('a', 'alice'), reg('b', 'bob'), ['a', 'send', 'JOIN #q1'], ['a', 'send', 'JOIN #q2'], ['a', 'recv'], ['b', 'send', 'JOIN #q1'], ['b', 'recv'],
   ['a', 'recv'], ['a', 'send', 'QUIT'], ['a', 'recv', 'bye'], ['a', 'close'], ['b', 'sleep', '0.4'],
   ['b', 'send', 'NAMES #q1'], ['b', 'recv', 'names'], ['b', 'send', 'LIST'], ['b', 'recv', 'list'], ['b', 'send', 'ISON alice'], ['b', 'recv', 'ison'],
   ['c', 'reg', 'alice'], ['c', 'send', 'WHOWAS alice'], ['c', 'recv', 'whowas']],
  "panic or any('alice' in l for l in R['names'] if ' 353 ' in l) or any('#q2' in l for l in R['list']) "
  "or not any(' 303 ' in l and l.rstrip().endswith(':') for l in R['ison']) or not any(' 001 ' in l for l in R['reg_c']) "
  "or not any(' 314 ' in l for l in R['whowas'])")

w('g2_teardown_on_close', ['C06', 'C02'], 'MainState::remove_user', 'a connection closed without QUIT leaves the user behind',
  [reg('a', 'alice'), reg('b', 'bob'), ['a', 'send', 'JOIN #tc'], ['a', 'recv'], ['b', 'send', 'JOIN #tc'], ['b', 'recv'], ['a', 'close'],
   ['b', 'sleep', '0.5'], ['b', 'send', 'NAMES #tc'], ['b', 'recv', 'names'], ['c', 'reg', 'alice']],
  "panic or any('alice' in l for l in R['names'] if ' 353 ' in l) or not any(' 001 ' in l for l in R['reg_c'])")

w('g2_registration_gate', ['C03', 'C02'], 'MainState::authenticate',
  'a command is acted on before registration, or registration completes without NICK and USER, or a taken nickname is handed out twice',
  [['x', 'send', 'JOIN #pre'], ['x', 'recv', 'pre'], ['x', 'send', 'NICK zed'], ['x', 'send', 'PRIVMSG zed :hi'], ['x', 'recv', 'pre2'],
   ['x', 'send', 'USER zed 8 * :Z'], ['x', 'recv', 'done'], ['y', 'reg', 'zed']],
  "panic or not any(' 451 ' in l for l in R['pre']) or not any(' 451 ' in l for l in R['pre2']) or not any(' 001 ' in l for l in R['done']) "
  "or not any(' 433 ' in l for l in R['reg_y'])")

w('g2_privmsg_restrictions', ['C10', 'C01'], 'privmsg_one_target',
  '+n / +m / ban are not enforced for PRIVMSG, NOTICE is answered, or away text is not reported',
  [reg('a', 'alice'), reg('b', 'bob'), reg('c', 'carol'), ['a', 'send', 'JOIN #r'], ['a', 'recv'], ['c', 'send', 'JOIN #r'], ['c', 'recv'], ['a', 'recv'],
   ['a', 'send', 'MODE #r +n'], ['a', 'recv'], ['c', 'recv'],
   ['b', 'send', 'PRIVMSG #r :outside'], ['b', 'recv', 'outside'], ['b', 'send', 'NOTICE #r :outside'], ['b', 'recv', 'notice'], ['a', 'recv', 'none1'],
   ['a', 'send', 'MODE #r +m'], ['a', 'recv'], ['c', 'recv'], ['c', 'send', 'PRIVMSG #r :muted'], ['c', 'recv', 'muted'], ['a', 'recv', 'none2'],
   ['a', 'send', 'MODE #r -m+b carol!*@*'], ['a', 'recv'], ['c', 'recv'], ['c', 'send', 'PRIVMSG #r :banned'], ['c', 'recv', 'banned'], ['a', 'recv', 'none3'],
   ['a', 'send', 'AWAY :lunch'], ['a', 'recv'], ['b', 'send', 'PRIVMSG alice :there?'], ['b', 'recv', 'away'], ['a', 'recv', 'got']],
  "panic or not any(' 404 ' in l for l in R['outside']) or R['notice'] != [] or R['none1'] != [] or not any(' 404 ' in l for l in R['muted']) "
  "or R['none2'] != [] or not any(' 404 ' in l for l in R['banned']) or R['none3'] != [] "
  "or not any(' 301 ' in l and 'lunch' in l for l in R['away']) or R['got'] != [':bob!~bob@127.0.0.1 PRIVMSG alice :there?']")

w('g2_names_who_secret', ['C12', 'C04'], 'MainState::send_names_from_channel',
  'NAMES / WHO reveal members of a secret channel or an invisible user to an outsider, or hide them from a member',
  [reg('a', 'alice'), reg('b', 'bob'), reg('c', 'carol'), ['a', 'send', 'JOIN #ns'], ['a', 'recv'], ['c', 'send', 'JOIN #ns'], ['c', 'recv'], ['a', 'recv'],
   ['a', 'send', 'MODE #ns +s'], ['a', 'recv'], ['c', 'recv'], ['c', 'send', 'MODE carol +i'], ['c', 'recv'],
   ['b', 'send', 'WHO #ns'], ['b', 'recv', 'who_out'], ['b', 'send', 'WHO carol'], ['b', 'recv', 'who_inv'], ['a', 'send', 'NAMES #ns'], ['a', 'recv', 'names_in'],
   ['a', 'send', 'WHO #ns'], ['a', 'recv', 'who_in']],
  "panic or any(' 352 ' in l for l in R['who_out']) or any(' 352 ' in l for l in R['who_inv']) "
  "or not any(' 353 ' in l and 'carol' in l and 'alice' in l for l in R['names_in']) or sum(1 for l in R['who_in'] if ' 352 ' in l) != 2")

w('g2_mode_user', ['C11', 'C19'], 'MainState::process_mode_user', "a user can make itself operator with MODE, or change another user's modes",
  [reg('a', 'alice'), reg('b', 'bob'), ['a', 'send', 'MODE alice +o'], ['a', 'send', 'MODE alice +O'], ['a', 'recv'], ['a', 'send', 'MODE bob +i'],
   ['a', 'recv', 'other'], ['a', 'send', 'STATS u'], ['a', 'recv', 'stats'], ['a', 'send', 'LUSERS'], ['a', 'recv', 'lusers']],
  "panic or not any(' 502 ' in l for l in R['other']) or not any(' 481 ' in l for l in R['stats']) "
  "or not any(' 252 ' in l and ' 0 ' in l for l in R['lusers']) or not any(' 251 ' in l and '2 users and 0 invisible' in l for l in R['lusers'])")
w('g2_whowas_count', ['C05', 'C06'], 'MainState::process_whowas',
  'WHOWAS with a count above (or below) the length of the record aborts the handler or shows the wrong number of entries',
  [reg('a', 'alice'), reg('b', 'bob'), ['b', 'send', 'NICK rob'], ['b', 'recv'], ['b', 'send', 'NICK bob'], ['b', 'recv'], ['b', 'send', 'NICK rob2'], ['b', 'recv'],
   ['a', 'send', 'WHOWAS bob 100'], ['a', 'recv', 'big'], ['a', 'send', 'WHOWAS bob 1'], ['a', 'recv', 'one'], ['a', 'send', 'WHOWAS bob'], ['a', 'recv', 'all'],
   ['a', 'send', 'WHOWAS nobody 5'], ['a', 'recv', 'none'], ['a', 'send', 'PING :alive'], ['a', 'recv', 'alive']],
  "panic or 'a' in eof or sum(1 for l in R['big'] if ' 314 ' in l) != 2 or sum(1 for l in R['one'] if ' 314 ' in l) != 1 "
  "or sum(1 for l in R['all'] if ' 314 ' in l) != 2 or not any(' 406 ' in l for l in R['none']) or not any('PONG' in l for l in R['alive'])")
w('g2_kick_empties_channel', ['C16', 'C09', 'C04'], 'MainState::process_kick',
  'a channel whose last members leave by KICK keeps existing (topic, modes, ranks survive; the next JOIN does not create a fresh channel)',
  [reg('a', 'alice'), reg('b', 'bob'), reg('c', 'carol'), ['a', 'send', 'JOIN #ke'], ['a', 'recv'], ['b', 'send', 'JOIN #ke'], ['b', 'recv'], ['a', 'recv'],
   ['a', 'send', 'TOPIC #ke :old topic'], ['a', 'send', 'MODE #ke +o bob'], ['a', 'recv'], ['b', 'recv'], ['a', 'send', 'PART #ke'], ['a', 'recv'], ['b', 'recv'],
   ['b', 'send', 'KICK #ke bob :alone'], ['b', 'recv', 'kick'], ['c', 'send', 'LIST'], ['c', 'recv', 'list'], ['c', 'send', 'JOIN #ke'], ['c', 'recv', 'join']],
  "panic or any('#ke' in l for l in R['list']) or any(' 332 ' in l for l in R['join']) or not any(' 353 ' in l and '~carol' in l for l in R['join'])")
w('g2_wildcard_literal_star', ['C14', 'C07'], 'match_wildcard',
  'a mask with * does not match a text that itself contains a literal * (or ?) where the mask star is first tried',
  [reg('a', 'alice'), ['a', 'send', 'JOIN #wc'], ['a', 'recv'], ['a', 'send', 'MODE #wc +b *ad!*@*'], ['a', 'recv'], ['b', 'reg', '*bad'], ['b', 'send', 'JOIN #wc'], ['b', 'recv', 'join'],
   ['a', 'send', 'MODE #wc -b *ad!*@*'], ['a', 'send', 'MODE #wc +b ?x*!*@*'], ['a', 'recv'], ['c', 'reg', '?xy'], ['c', 'send', 'JOIN #wc'], ['c', 'recv', 'join2']],
  "panic or not any(' 001 ' in l for l in R['reg_b']) or not any(' 474 ' in l for l in R['join']) or not any(' 474 ' in l for l in R['join2'])")
w('g3_whois_collection', ['C12', 'C05', 'C04'], 'MainState::process_whois',
  'WHOIS with wildcard masks / unknown names aborts the handler, answers about a user twice, or reveals an invisible stranger',
  [reg('a', 'alice'), reg('b', 'bob'), reg('c', 'carol'), ['a', 'send', 'MODE alice +i'], ['a', 'recv'],
   ['b', 'send', 'WHOIS al*'], ['b', 'recv', 'mask_inv'], ['b', 'send', 'WHOIS nosuch'], ['b', 'recv', 'nosuch'],
   ['b', 'send', 'WHOIS b*,nosuch,bob'], ['b', 'recv', 'dup'], ['b', 'send', 'WHOIS *'], ['b', 'recv', 'all'], ['b', 'send', 'WHOIS ?arol'], ['b', 'recv', 'q'],
   ['b', 'send', 'PING :alive'], ['b', 'recv', 'alive']],
  "panic or 'b' in eof or any(' 311 ' in l for l in R['mask_inv']) or not any(' 318 ' in l for l in R['mask_inv']) "
  "or any(' 311 ' in l for l in R['nosuch']) or not any(' 318 ' in l for l in R['nosuch']) "
  "or sum(1 for l in R['dup'] if ' 311 ' in l) != 1 or not any(' 311 ' in l and ' bob ' in l for l in R['dup']) "
  "or sorted(l.split()[3] for l in R['all'] if ' 311 ' in l) != ['bob', 'carol'] "
  "or [l.split()[3] for l in R['q'] if ' 311 ' in l] != ['carol'] or not any('PONG' in l for l in R['alive'])")
w('g3_help_time_pong', ['C05'], 'MainState::process_help',
  'HELP / TIME / PONG abort the handler, answer wrongly or change the session',
  [reg('a', 'alice'), ['a', 'send', 'HELP'], ['a', 'recv', 'main'], ['a', 'send', 'HELP COMMANDS'], ['a', 'recv', 'cmds'], ['a', 'send', 'HELP nosuch'], ['a', 'recv', 'bad'],
   ['a', 'send', 'TIME'], ['a', 'recv', 'time'], ['a', 'send', 'TIME other.server'], ['a', 'recv', 'time2'], ['a', 'send', 'PONG :x'], ['a', 'recv', 'pong'],
   ['a', 'send', 'PING :alive'], ['a', 'recv', 'alive']],
  "panic or 'a' in eof or not any(' 704 ' in l for l in R['main']) or not any(' 706 ' in l for l in R['main']) or not R['main'][-1].split()[1] == '706' "
  "or not any(' 704 ' in l for l in R['cmds']) or not R['cmds'][-1].split()[1] == '706' or sum(1 for l in R['cmds'] if ' 704 ' in l) != 1 "
  "or [l.split()[1] for l in R['bad']] != ['524'] or [l.split()[1] for l in R['time']] != ['391'] or [l.split()[1] for l in R['time2']] != ['400'] "
  "or R['pong'] != [] or not any('PONG' in l for l in R['alive'])", more=['MainState::process_time', 'MainState::process_pong'])
w('g3_parser_verbs', ['C13', 'C05', 'C03'], 'Command::parse_from_message',
  'a verb that is not a command name (non-ASCII look-alike letters) is executed instead of being answered with 421, an ASCII verb in lower case is refused, or a relayed text loses characters',
  [reg('a', 'alice'), reg('b', 'bob'), ['a', 'send', 'JOIN #pv'], ['a', 'recv'], ['b', 'send', 'JOIN #pv'], ['b', 'recv'], ['a', 'recv'],
   ['a', 'send', 'top\u0131c #pv :x'], ['a', 'recv', 'dotless'], ['b', 'recv', 'relay1'], ['a', 'send', 'pa\u00df x'], ['a', 'recv', 'sz'],
   ['a', 'send', 'privmsg #pv :lower  case '], ['b', 'recv', 'relay2'], ['a', 'send', 'PrIvMsG bob ::) x:y'], ['b', 'recv', 'relay3'],
   ['a', 'send', '  :alice!~alice@127.0.0.1 PRIVMSG bob :pre fix'], ['b', 'recv', 'relay4'], ['a', 'send', ':alice PRIVMSG bob :p2'], ['b', 'recv', 'relay5'],
   ['a', 'send', 'PING :alive'], ['a', 'recv', 'alive']],
  "panic or 'a' in eof or not any(' 421 ' in l for l in R['dotless']) or R['relay1'] != [] or not any(' 421 ' in l for l in R['sz']) "
  "or R['relay2'] != [':alice!~alice@127.0.0.1 PRIVMSG #pv :lower  case '] or R['relay3'] != [':alice!~alice@127.0.0.1 PRIVMSG bob ::) x:y'] or R['relay4'] != [':alice!~alice@127.0.0.1 PRIVMSG bob :pre fix'] or R['relay5'] != [':alice!~alice@127.0.0.1 PRIVMSG bob :p2'] "
  "or not any('PONG' in l for l in R['alive'])", more=['Command::from_message', 'Message::from_shared_str', 'Command::validate'])
w('g3_ban_exceptions', ['C07', 'C10'], 'ChannelModes::banned',
  'a user matching a ban mask and ONE of several exception masks is refused (or a banned user without exception is admitted / may speak)',
  [reg('a', 'alice'), ['a', 'send', 'JOIN #be'], ['a', 'recv'], ['a', 'send', 'MODE #be +b *!*@*'], ['a', 'send', 'MODE #be +e zed!*@*'], ['a', 'send', 'MODE #be +e bob!*@*'],
   ['a', 'send', 'MODE #be +e yan!*@*'], ['a', 'recv'], reg('b', 'bob'), reg('c', 'carol'), ['b', 'send', 'JOIN #be'], ['b', 'recv', 'bj'], ['c', 'send', 'JOIN #be'], ['c', 'recv', 'cj'],
   ['a', 'recv'], ['b', 'send', 'PRIVMSG #be :hi'], ['a', 'recv', 'heard'], ['c', 'send', 'PRIVMSG #be :hi'], ['c', 'recv', 'cmsg']],
  "panic or not any(l.endswith('JOIN #be') for l in R['bj']) or not any(' 474 ' in l for l in R['cj']) or R['heard'] != [':bob!~bob@127.0.0.1 PRIVMSG #be :hi'] "
  "or not any(' 404 ' in l for l in R['cmsg'])")
w('g3_join_quota', ['C07', 'C04', 'C16'], 'MainState::process_join',
  'a JOIN refused because of max_joins (405) still makes the user a member / creates the channel / is announced',
  [reg('a', 'alice'), reg('b', 'bob'), ['b', 'send', 'JOIN #jq'], ['b', 'recv'], ['a', 'send', 'JOIN #j0,#j1,#j2,#j3,#j4,#j5,#j6,#j7,#j8,#j9'], ['a', 'recv'],
   ['a', 'send', 'JOIN #jq'], ['a', 'recv', 'full'], ['b', 'recv', 'seen'], ['a', 'send', 'JOIN #jnew'], ['a', 'recv', 'full2'], ['b', 'send', 'NAMES #jq'], ['b', 'recv', 'names'],
   ['b', 'send', 'LIST #jnew'], ['b', 'recv', 'list'], ['a', 'send', 'PART #j0'], ['a', 'recv'], ['a', 'send', 'JOIN #jq'], ['a', 'recv', 'ok'], ['b', 'recv', 'seen2']],
  "panic or [l.split()[1] for l in R['full']] != ['405'] or R['seen'] != [] or [l.split()[1] for l in R['full2']] != ['405'] "
  "or any('alice' in l for l in R['names'] if ' 353 ' in l) or any(' 322 ' in l for l in R['list']) "
  "or not any(l.endswith('JOIN #jq') for l in R['ok']) or R['seen2'] != [':alice!~alice@127.0.0.1 JOIN #jq']")
w('g3_mode_query_text', ['C08', 'C11'], 'fmt::Display+for+ChannelModes::fmt',
  'a MODE query (324 / 221) does not show the modes that were set (letters, key, limit, each parameter in the order of its letter)',
  [reg('a', 'alice'), ['a', 'send', 'JOIN #mq'], ['a', 'recv'], ['a', 'send', 'MODE #mq +k sesame'], ['a', 'send', 'MODE #mq +l 10'], ['a', 'send', 'MODE #mq +nt'], ['a', 'recv'],
   ['a', 'send', 'MODE #mq'], ['a', 'recv', 'q1'], ['a', 'send', 'MODE #mq -k'], ['a', 'recv'], ['a', 'send', 'MODE #mq'], ['a', 'recv', 'q2'],
   ['a', 'send', 'MODE alice +iw'], ['a', 'recv'], ['a', 'send', 'MODE alice'], ['a', 'recv', 'u1']],
  "panic or not any(' 324 ' in l and ' +tnkl sesame 10 ' in (l + ' ') for l in R['q1']) or not any(' 324 ' in l and ' +tnl 10 ' in (l + ' ') for l in R['q2']) "
  "or not any(' 221 ' in l and l.split()[3] == '+iw' for l in R['u1'])", more=['fmt::Display+for+UserModes::fmt', 'MainState::process_mode_channel'])
w('g3_nick_case_and_prefix', ['C15', 'C01', 'C02'], 'MainState::process_nick',
  'a NICK that changes only the letter case is ignored, or messages sent after a rename still carry the old prefix',
  [reg('a', 'alice'), reg('b', 'bob'), ['a', 'send', 'JOIN #nc'], ['a', 'recv'], ['b', 'send', 'JOIN #nc'], ['b', 'recv'], ['a', 'recv'],
   ['a', 'send', 'NICK Alice'], ['a', 'recv', 'own'], ['b', 'recv', 'peer'], ['a', 'send', 'PRIVMSG bob :after rename'], ['b', 'recv', 'msg'],
   ['a', 'send', 'PRIVMSG #nc :to channel'], ['b', 'recv', 'msg2'], ['b', 'send', 'NICK alice'], ['b', 'recv', 'free']],
  "panic or R['own'] != [':alice!~alice@127.0.0.1 NICK Alice'] or R['peer'] != R['own'] or R['msg'] != [':Alice!~alice@127.0.0.1 PRIVMSG bob :after rename'] "
  "or R['msg2'] != [':Alice!~alice@127.0.0.1 PRIVMSG #nc :to channel'] or R['free'] != [':bob!~bob@127.0.0.1 NICK alice']")
w('g3_mode_nonmember', ['C05', 'C08'], 'mode_apply_letter',
  'MODE #chan +o/+v/.. naming a registered user that is not on the channel aborts the handler (or changes something)',
  [reg('a', 'alice'), reg('b', 'bob'), reg('c', 'carol'), ['a', 'send', 'JOIN #mn'], ['a', 'recv'], ['c', 'send', 'JOIN #mn'], ['c', 'recv'], ['a', 'recv'],
   ['a', 'send', 'MODE #mn +o bob'], ['a', 'recv', 'o'], ['a', 'send', 'MODE #mn +v bob'], ['a', 'recv', 'v'], ['a', 'send', 'MODE #mn -h bob'], ['a', 'recv', 'h'],
   ['a', 'send', 'MODE #mn +q bob'], ['a', 'recv', 'q'], ['a', 'send', 'MODE #mn +a bob'], ['a', 'recv', 'p'], ['c', 'recv', 'seen'], ['a', 'send', 'PING :alive'], ['a', 'recv', 'alive'],
   ['a', 'send', 'PRIVMSG #mn :still here'], ['c', 'recv', 'chan']],
  "panic or 'a' in eof or any([l.split()[1] for l in R[k]] != ['441'] for k in ('o', 'v', 'h', 'q', 'p')) or R['seen'] != [] or not any('PONG' in l for l in R['alive']) "
  "or R['chan'] != [':alice!~alice@127.0.0.1 PRIVMSG #mn :still here']", more=['MainState::process_mode_channel'])
print('written')
