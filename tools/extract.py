#!/usr/bin/env python3
"""Mechanical extractor + contract weaver (DESIGN.md §2.1, §2.2).

Reads contract templates (/verif/contracts/*.rs), pulls the *current* text of every
named function / type out of /repo/src, applies the closed list of rewrite rules,
weaves the contract text in, and writes one single-file Verus unit per unit name.

Template directives (a line starting with `//@`):

  //@type <file> <struct|enum> <Name> [derive=A,B] [drop=field1,field2]
  //@fn <file> <Owner::name|name> unit=<u> props=C04,C06 [rules=R1,R2,..] [as=<newname>] [ret=<name>]
      //@spec            requires/ensures text (placed between signature and body)
      //@open            text placed right after the body's opening brace
      //@close           text placed right before the body's closing brace
      //@loop ~regex [#k] [iter=<ghost name>]   invariant/decreases text for the loop whose header matches
      //@before ~regex [#k]                     text inserted before the line matching regex
      //@after ~regex [#k]                      text inserted after the line matching regex
      //@sigadd <text>   extra (ghost) parameters appended to the parameter list
  //@end
  //@block <file> <Owner::name|name> <name> unit=<u> props=.. [rules=..] from=~regex to=~regex
      //@head            complete synthetic signature text (up to but excluding `{`)
      (same sub-directives as //@fn)
  //@end

Exit status of the module's callers: ExtractError => exit 2 (undecided), never a violation.
"""
import hashlib
import json
import os
import re
import sys

sys.path.insert(0, os.path.dirname(os.path.abspath(__file__)))
import rustlex  # noqa: E402

REPO_SRC = os.environ.get('VERIF_REPO_SRC', '/repo/src')


class ExtractError(Exception):
    pass


# --------------------------------------------------------------------------- templates

class Directive:
    def __init__(self, kind, args, line_no, path):
        self.kind = kind
        self.args = args
        self.sections = []  # list of (name, argstr, text)
        self.line_no = line_no
        self.path = path

    def opt(self, key, default=None):
        for a in self.args:
            if a.startswith(key + '='):
                return a[len(key) + 1:]
        return default


def parse_template(path):
    segs = []
    cur = None
    sec = None
    raw = []
    with open(path) as f:
        lines = f.read().split('\n')
    for ln, line in enumerate(lines, 1):
        s = line.strip()
        if s.startswith('//@'):
            body = s[3:].strip()
            word = body.split()[0] if body else ''
            rest = body[len(word):].strip()
            if word in ('fn', 'block', 'type', 'handlerstubs', 'assumed'):
                if cur is not None:
                    raise ExtractError('%s:%d nested directive' % (path, ln))
                if raw:
                    segs.append('\n'.join(raw)); raw = []
                cur = Directive(word, _split_args(rest), ln, path)
                sec = None
                if word in ('type', 'handlerstubs', 'assumed'):
                    segs.append(cur); cur = None
                continue
            if word == 'end':
                if cur is None:
                    raise ExtractError('%s:%d stray //@end' % (path, ln))
                segs.append(cur); cur = None; sec = None
                continue
            if cur is None:
                raise ExtractError('%s:%d directive %s outside //@fn' % (path, ln, word))
            sec = [word, rest, []]
            cur.sections.append(sec)
            continue
        if cur is not None:
            if sec is None:
                if s:
                    raise ExtractError('%s:%d text before first section in //@fn' % (path, ln))
            else:
                sec[2].append(line)
        else:
            raw.append(line)
    if cur is not None:
        raise ExtractError('%s: unterminated directive at line %d' % (path, cur.line_no))
    if raw:
        segs.append('\n'.join(raw))
    return segs


def _split_args(s):
    # split on whitespace but keep from=~... and to=~... (regexes may contain spaces if quoted with |...|)
    out = []
    i = 0
    n = len(s)
    while i < n:
        while i < n and s[i].isspace():
            i += 1
        if i >= n:
            break
        j = i
        m = re.match(r'(\w+=)?~\|', s[i:])
        if m:
            k = s.find('|', i + len(m.group(0)))
            out.append(s[i:i + len(m.group(0)) - 1] + s[i + len(m.group(0)):k])
            i = k + 1
            continue
        while j < n and not s[j].isspace():
            j += 1
        out.append(s[i:j]); i = j
    return out


# --------------------------------------------------------------------------- source access

_src_cache = {}
REQ_FNS = set()   # names of contracted functions that carry a `requires` (filled by a pre-pass)


def read_src(rel):
    p = os.path.join(REPO_SRC, rel)
    if p not in _src_cache:
        try:
            with open(p) as f:
                _src_cache[p] = f.read()
        except OSError as e:
            raise ExtractError('cannot read %s: %s' % (p, e))
    return _src_cache[p]


def locate(rel, kind, qual):
    src = read_src(rel)
    try:
        res = rustlex.find_item(src, kind, qual.replace('+', ' '))   # `Trait+for+Type::name` names a trait-impl method
    except ValueError as e:
        raise ExtractError('lexing %s failed: %s' % (rel, e))
    # R9: drop items under non-default cargo features
    res = [it for it in res if not any(re.search(r'cfg\s*\(\s*feature', a) for a in it.attrs)]
    if len(res) != 1:
        raise ExtractError('lost anchor: %s %s in %s found %d times' % (kind, qual, rel, len(res)))
    return src, res[0]


# --------------------------------------------------------------------------- rewrite rules

LOG_RE = re.compile(r'^[ \t]*(info|error|debug|warn|trace)!\s*\(')


def strip_statement_macro(body, counts):
    """R3: delete logging statements (whole statement, may span lines)."""
    out = []
    lines = body.split('\n')
    i = 0
    while i < len(lines):
        if LOG_RE.match(lines[i]):
            # consume until the statement's closing ');'
            j = i
            text = lines[j]
            while not _balanced_stmt(text):
                j += 1
                if j >= len(lines):
                    raise ExtractError('R3: unterminated log statement')
                text += '\n' + lines[j]
            inner = text[text.index('(') + 1:text.rindex(')')]
            # arguments must be free of calls other than field access / format args
            if re.search(r'[A-Za-z_]\s*\(', re.sub(r'"(\\.|[^"\\])*"', '""', inner)):
                # method calls such as x.to_string() inside a log statement: refuse
                raise ExtractError('R3: log statement with a call in its arguments: %s' % text.strip())
            counts['R3'] = counts.get('R3', 0) + 1
            i = j + 1
            continue
        out.append(lines[i])
        i += 1
    return '\n'.join(out)


def _balanced_stmt(text):
    try:
        ct = rustlex.code_toks(rustlex.lex(text))
    except ValueError:
        return False
    d = 0
    for t in ct:
        if t.kind == 'p':
            if t.text in '([{': d += 1
            elif t.text in ')]}': d -= 1
    return d == 0 and text.rstrip().endswith(';')


LOCK_STMT = re.compile(r'^[ \t]*let\s+(mut\s+)?(state|statem)\s*=\s*(self|main_state)\.state\.(read|write)\(\)\.await;[ \t]*$', re.M)
DEREF_STMT = re.compile(r'^[ \t]*let\s+state\s*=\s*statem\.deref_mut\(\);[ \t]*$', re.M)
LOCK_EXPR = re.compile(r'self\.state\.(read|write)\(\)\.await\.')


SECTION_CALL = 'verif_section(state, &conn_state.receiver, Ghost(acq__)); proof { acq__ = true; } // [R1s]'


def _stmt_start_line(lines, li):
    """index of the line that starts the statement holding line li: the nearest line at or above li that is at round/square bracket
    depth 0 and whose predecessor (ignoring blank and comment lines) ends a statement or opens / closes a block"""
    depth_at = []
    depth = 0
    for l in lines:
        depth_at.append(depth)
        for ch in re.sub(r'//.*', '', l):
            if ch in '([':
                depth += 1
            elif ch in ')]':
                depth -= 1
    k = li
    while k > 0:
        if depth_at[k] <= 0:
            j = k - 1
            while j >= 0 and not re.sub(r'//.*', '', lines[j]).strip():
                j -= 1
            if j < 0 or re.sub(r'//.*', '', lines[j]).rstrip()[-1:] in ';{}':
                return k
        k -= 1
    return 0


def rule_r1(body, counts, info):
    """R1: the lock acquisitions `let [mut] state = self.state.read()/write().await;` and `self.state.read()/write().await.` are removed, the
    registry becomes the parameter `state`. R1s: a function that acquires the lock at more than one place runs in more than one critical
    section: in front of every acquisition goes `verif_section(..)`, which leaves the registry alone the first time it is reached on a
    path and afterwards replaces it by whatever the other connections may have made of it (assumed rely condition `others_ran`)."""
    n_acq = 0
    code = re.sub(r'//.*', '', body)
    multi = len(LOCK_STMT.findall(code)) + len(LOCK_EXPR.findall(code)) >= 2

    def repl(m):
        nonlocal n_acq
        n_acq += 1
        ind = re.match(r'[ \t]*', m.group(0)).group(0)
        return ind + '// [R1] ' + m.group(0).strip() + (('\n' + ind + SECTION_CALL) if multi else '')
    body = LOCK_STMT.sub(repl, body)
    body = DEREF_STMT.sub(lambda m: '// [R1] ' + m.group(0).strip(), body)
    while multi:
        m = None
        for mm in LOCK_EXPR.finditer(body):
            ls = body.rfind('\n', 0, mm.start()) + 1
            if '//' not in body[ls:mm.start()]:
                m = mm
                break
        if m is None:
            break
        n_acq += 1
        lines = body[:m.start()].split('\n')
        li = len(lines) - 1
        all_lines = body.split('\n')
        at = _stmt_start_line(all_lines, li)
        col = m.start() - (body.rfind('\n', 0, m.start()) + 1)
        all_lines[li] = all_lines[li][:col] + 'state.' + all_lines[li][col + len(m.group(0)):]
        ind = re.match(r'[ \t]*', all_lines[at]).group(0)
        all_lines.insert(at, ind + SECTION_CALL)
        body = '\n'.join(all_lines)

    def repl2(m):
        nonlocal n_acq
        n_acq += 1
        return 'state.'
    body = LOCK_EXPR.sub(repl2, body)
    if 'self.state.' in re.sub(r'//.*', '', body):
        raise ExtractError('R1: unrecognised lock use remains')
    if multi:
        body = '\n        let ghost mut acq__: bool = false; // [R1s]' + body
        counts['R1s'] = n_acq
    counts['R1'] = counts.get('R1', 0) + n_acq
    info['lock_acquisitions'] = n_acq
    return body


def rule_r2_sig(sig, counts):
    new = re.sub(r'Result<\s*\(\)\s*,\s*Box<dyn\s+Error>\s*>', 'Result<(), HErr>', sig)
    if new != sig:
        counts['R2'] = counts.get('R2', 0) + 1
    return new


def rule_r2_body(body, counts):
    # Err(Box::new(e)) -> Err(HErr::from(e)) ; .map_err(|_| X) -> .map_err(|_e| X)
    new, n = re.subn(r'Box::new\(', 'HErr::from(', body)
    new, n2 = re.subn(r'\|_\|', '|_e|', new)
    if n + n2:
        counts['R2'] = counts.get('R2', 0) + n + n2
    return new


def rule_r11_sig(sig, counts):
    new, n = re.subn(r'pub\s*\(\s*(super|crate)\s*\)', 'pub', sig)
    idx = [0]

    def r(m):
        idx[0] += 1
        return '%s_p%d:' % (m.group(1), idx[0])
    new, n2 = re.subn(r'([(,]\s*)_\s*:', r, new)
    if n + n2:
        counts['R11'] = counts.get('R11', 0) + n + n2
    return new


def rule_r5_body(body, counts):
    """R5: statement-position `E.iter().for_each(|x| { B });` -> `for x in E.iter() { B }` (also `E.keys()`)."""
    pat = re.compile(r'(?P<ind>^[ \t]*)(?P<e>[A-Za-z_][\w\.]*?)\.(?P<it>iter|keys)\(\)\.for_each\(\|(?P<x>\w+)\|\s*\{', re.M)
    while True:
        m = pat.search(body)
        if not m:
            break
        # locate the closing of the closure block and the `);`
        open_idx = m.end() - 1
        close_idx = _match_brace(body, open_idx)
        tail = body[close_idx + 1:]
        mt = re.match(r'\s*\)\s*;', tail)
        if not mt:
            raise ExtractError('R5: for_each closure not in statement position')
        inner = body[open_idx + 1:close_idx]
        if re.search(r'\b(return|break|continue)\b', re.sub(r'//.*', '', inner)):
            raise ExtractError('R5: closure body contains return/break/continue')
        body = (body[:m.start()] + m.group('ind') + 'for %s in %s.%s() {' % (m.group('x'), m.group('e'), m.group('it'))
                + inner + '}' + tail[mt.end():])
        counts['R5'] = counts.get('R5', 0) + 1
    return body


def rule_r5t_body(body, counts):
    """R5 (try_for_each): statement `E.iter().try_for_each(|x| { B })?;` -> `for x in E.iter() { ({ B })?; }`
    (definition of Iterator::try_for_each on Result: stop at the first Err and return it)."""
    pat = re.compile(r'(?P<ind>^[ \t]*)(?P<e>[A-Za-z_][\w\.]*?)\.(?P<it>iter|keys)\(\)\.try_for_each\(\|(?P<x>\w+|\([\w, ]+\))\|\s*\{', re.M)
    while True:
        m = pat.search(body)
        if not m:
            break
        open_idx = m.end() - 1
        close_idx = _match_brace(body, open_idx)
        tail = body[close_idx + 1:]
        mt = re.match(r'\s*\)\s*\?\s*;', tail)
        if not mt:
            raise ExtractError('R5: try_for_each closure not in `...)?;` statement position')
        inner = body[open_idx + 1:close_idx]
        if re.search(r'\b(return|break|continue)\b', re.sub(r'//.*', '', inner)):
            raise ExtractError('R5: closure body contains return/break/continue')
        ind = m.group('ind')
        body = (body[:m.start()] + ind + 'for %s in %s.%s() {\n' % (m.group('x'), m.group('e'), m.group('it'))
                + ind + '    ({' + inner + '})?; // [R5]\n' + ind + '}' + tail[mt.end():])
        counts['R5'] = counts.get('R5', 0) + 1
    return body


def _match_brace(text, open_idx):
    toks = rustlex.lex(text[open_idx:])
    d = 0
    for t in toks:
        if t.kind == 'p':
            if t.text in '([{': d += 1
            elif t.text in ')]}':
                d -= 1
                if d == 0:
                    return open_idx + t.start
    raise ExtractError('unbalanced braces')


def rule_r6_body(body, counts, names=('send_message', 'send_msg_display', 'sender\\.send'), extra=None):
    """R6: append the ghost argument `Tracked(outbox)` to calls of the sending functions."""
    for name in names:
        pos = 0
        pat = re.compile(r'\.\s*%s\s*\(' % name)
        while True:
            m = pat.search(body, pos)
            if not m:
                break
            open_idx = m.end() - 1
            close_idx = _match_brace(body, open_idx)
            inner = body[open_idx + 1:close_idx]
            sep = '' if inner.rstrip().endswith(',') or not inner.strip() else ', '
            body = body[:close_idx] + sep + (extra or 'Tracked(outbox)') + body[close_idx:]
            counts['R6'] = counts.get('R6', 0) + 1
            pos = close_idx
    return body


def rule_r10_body(body, counts):
    new, n = re.subn(r'"([^"\\]*)"\.to_string\(\)\s*\+\s*([A-Za-z_][\w\.]*)', r'verif_str_plus("\1".to_string(), \2)', body)
    if n:
        counts['R10'] = counts.get('R10', 0) + n
    return new


def rule_r4_body(body, counts):
    """R4: `for (i, x) in E.enumerate() { B }` -> counter `i__n` advanced at the START of each iteration
    (`let i = i__n; i__n += 1;`), which is the definition of Enumerate and stays correct under `continue`."""
    pat = re.compile(r'(?P<ind>^[ \t]*)for \((?P<i>\w+), (?P<x>\w+)\) in (?P<e>[^\n{]*?)\.enumerate\(\) \{', re.M)
    while True:
        m = pat.search(body)
        if not m:
            break
        open_idx = m.end() - 1
        close_idx = _match_brace(body, open_idx)
        inner = body[open_idx + 1:close_idx]
        ind = m.group('ind')
        i = m.group('i')
        new = (ind + 'let mut %s__n: usize = 0; // [R4]\n' % i + ind + 'for %s in %s {\n' % (m.group('x'), m.group('e'))
               + ind + '    let %s = %s__n; %s__n += 1; // [R4]' % (i, i, i) + inner + '}')
        body = body[:m.start()] + new + body[close_idx + 1:]
        counts['R4'] = counts.get('R4', 0) + 1
    return body


def rule_r5b_body(body, counts):
    """R5b: closure conversions (definition of Iterator::any / Option::map_or):
       `E.iter().any(|v| match_wildcard(v, S))`      -> `verif_any_match(E, S)`   (helper proved in contracts/)
       `RECV.map_or(false, |v| BODY)`                -> `(match RECV { Some(v) => BODY, None => false })`"""
    # `O.map(|(a, _)| a).unwrap_or(D)` -> `(match O { Some((a, _)) => a, None => D })`
    body, n0 = re.subn(r'\b(\w+)\.map\(\|\((\w+), _\)\| \2\)\.unwrap_or\(("[^"]*")\)', r'(match \1 { Some((\2, _)) => \2, None => \3 })', body)
    if n0:
        counts['R5b'] = counts.get('R5b', 0) + n0
    # `O.as_ref().map(|x| E)` (single line) -> `(match O.as_ref() { Some(x) => Some(E), None => None })`
    while True:
        m0 = re.search(r'\b([A-Za-z_][\w\.]*)\.as_ref\(\)\.map\(\|(\w+)\| ', body)
        if not m0:
            break
        op = body.index('(', m0.start() + len(m0.group(1)) + len('.as_ref().map') - 1)
        op = body.index('.map(', m0.start()) + 4
        cl = _match_brace(body, op)
        expr = body[m0.end():cl]
        if '\n' in expr:
            raise ExtractError('R5b: multi-line Option::map closure')
        body = body[:m0.start()] + '(match %s.as_ref() { Some(%s) => Some(%s), None => None })' % (m0.group(1), m0.group(2), expr.strip()) + body[cl + 1:]
        counts['R5b'] = counts.get('R5b', 0) + 1
    pat_any = re.compile(r'([A-Za-z_][\w]*)\s*\.iter\(\)\s*\.any\(\|(\w+)\|\s*match_wildcard\(\2,\s*([^()]+)\)\)')
    body, n = pat_any.subn(lambda m: 'verif_any_match(%s, %s)' % (m.group(1), m.group(3).strip()), body)
    if n:
        counts['R5b'] = counts.get('R5b', 0) + n
    while True:
        m = re.search(r'\.\s*map_or\(\s*false\s*,\s*\|(\w+)\|', body)
        if not m:
            break
        open_idx = body.index('(', m.start())
        close_idx = _match_brace(body, open_idx)
        expr = body[m.end():close_idx].strip()
        if expr.startswith('{') and _match_brace(expr, 0) == len(expr) - 1:
            expr = expr[1:-1].strip()
        # walk back over the receiver expression
        toks = [t for t in rustlex.lex(body[:m.start()])]
        i = len(toks) - 1
        start = m.start()
        depth = 0
        while i >= 0:
            t = toks[i]
            if t.kind in ('ws', 'lcom', 'bcom'):
                i -= 1
                continue
            if t.kind == 'p' and t.text in ')]':
                depth += 1
            elif t.kind == 'p' and t.text in '([':
                if depth == 0:
                    break
                depth -= 1
            elif depth == 0 and not (t.kind in ('id', 'num') or (t.kind == 'p' and t.text in '.:?')):
                break
            start = t.start
            i -= 1
        recv = body[start:m.start()].strip()
        recv = re.sub(r'\s+', '', recv)
        if not recv:
            raise ExtractError('R5b: cannot find map_or receiver')
        new = '(match %s { Some(%s) => %s, None => false })' % (recv, m.group(1), expr)
        body = body[:start] + new + body[close_idx + 1:]
        counts['R5b'] = counts.get('R5b', 0) + 1
    return body


TIME_RE = re.compile(r'SystemTime::now\(\)\s*\.duration_since\(UNIX_EPOCH\)\s*\.unwrap\(\)\s*\.as_secs\(\)')


TIME_DIFF_RE = re.compile(r'SystemTime::now\(\)\s*\.duration_since\(UNIX_EPOCH\)\s*\.unwrap\(\)\s*\.as_secs\(\)\s*-\s*([\w\.]+)')


def rule_time(body, counts):
    # RT2: `now - X` (seconds since an earlier stamp X): the wall clock is assumed not to run backwards
    body, n2 = TIME_DIFF_RE.subn(lambda m: 'verif_secs_since(%s)' % m.group(1), body)
    if n2:
        counts['RT2'] = counts.get('RT2', 0) + n2
    """RT: the wall-clock expression becomes an opaque call (drops: panic if the clock is before the epoch)."""
    new, n = TIME_RE.subn('verif_now_secs()', body)
    if n:
        counts['RT'] = counts.get('RT', 0) + n
    return new


def rule_r14_body(body, counts):
    """R14: `for (k, v) in &MAP {` -> `for (k, v) in MAP.iter() {` (definition of IntoIterator for &HashMap / &Vec)."""
    new, n = re.subn(r'\bfor (\([\w, ]+\)|\w+) in &([A-Za-z_][\w\.]*) \{', r'for \1 in \2.iter() {', body)
    if n:
        counts['R14'] = counts.get('R14', 0) + n
    return new


def rule_r15_body(body, counts):
    """R15: `E.chars().collect()` -> `verif_chars(E)` (definition of str::chars + collect into Vec<char>)."""
    new, n = re.subn(r'\b([A-Za-z_]\w*)\.chars\(\)\.collect\(\)', r'verif_chars(\1)', body)
    if n:
        counts['R15'] = counts.get('R15', 0) + n
    return new


def rule_r18_body(body, counts):
    """R18: `E.parse::<usize>().unwrap()` -> `verif_parse_usize_unwrap(E)` (the panic condition becomes the stub's precondition)."""
    new, n = re.subn(r'\b([A-Za-z_]\w*)\.parse::<usize>\(\)\.unwrap\(\)', r'verif_parse_usize_unwrap(\1)', body)
    if n:
        counts['R18'] = counts.get('R18', 0) + n
    return new


def rule_r20_body(body, counts):
    """R20: `E.contains('c')` on a str -> `verif_str_has_char(E, 'c')`."""
    new, n = re.subn(r"\b([A-Za-z_]\w*)\.contains\(('(?:\\.|[^'])')\)", r'verif_str_has_char(\1, \2)', body)
    if n:
        counts['R20'] = counts.get('R20', 0) + n
    return new


RULES_BODY = {
    'R20': rule_r20_body,
    'R18': rule_r18_body,
    'R5t': rule_r5t_body,
    'R14': rule_r14_body,
    'R15': rule_r15_body,
    'R4': rule_r4_body,
    'R5': rule_r5_body,
    'R5b': rule_r5b_body,
    'R10': rule_r10_body,
}

# --------------------------------------------------------------------------- weaving


def block_range(lines, d, fname, at_line=None):
    """line range [a, b] of a `from=`/`to=` block; `fromk=K` takes the K-th line matching `from`; `balanced=1` ends the block where the
    brackets opened on the `from` line close again (one whole statement) instead of at a `to=` anchor"""
    frx = d.opt('from')
    a = at_line if at_line is not None else find_line(lines, frx.lstrip('~'), int(d.opt('fromk', '1')), fname + ' block-from')
    if d.opt('balanced'):
        depth = 0
        started = False
        for j in range(a, len(lines)):
            for t in rustlex.code_toks(rustlex.lex(lines[j])):
                if t.kind == 'p' and t.text in ('(', '[', '{'):
                    depth += 1; started = True
                elif t.kind == 'p' and t.text in (')', ']', '}'):
                    depth -= 1
            if started and depth == 0:
                return a, j
        raise ExtractError('lost anchor: block %s: statement does not close' % fname)
    trx = d.opt('to')
    after = lines[a:]
    b = find_line(after, trx.lstrip('~'), 1, fname + ' block-to') + a + int(d.opt('plus', '0'))
    return a, b


def _clauses_after(spec_txt, kw):
    """the text of the `kw` section of a spec (up to the next section keyword)"""
    m = re.search(r'^\s*%s\b' % kw, spec_txt, flags=re.M)
    if not m:
        return ''
    rest = spec_txt[m.end():]
    m2 = re.search(r'^\s*(requires|ensures|decreases)\b', rest, flags=re.M)
    return rest[:m2.start()] if m2 else rest


def _norm_clause_lines(txt):
    out = []
    for l in txt.split('\n'):
        l = re.sub(r'//.*', '', l).strip().rstrip(',').strip()
        if l:
            out.append(re.sub(r'\s+', ' ', l))
    return out


def resolve_pass(d):
    """A block with `passof=BASE` is a further PROOF PASS over the text of block BASE: same cut, same synthetic head (renamed), same
    prologue / glue / epilogue and rewrite rules; its own `requires` must be a subset of BASE's (line by line) and its `ensures`
    are added to the contract every caller of BASE sees. Splitting one contract over passes keeps each SMT query small."""
    base_name = d.opt('passof')
    if not base_name:
        return d
    base = BLOCKS.get(base_name)
    if base is None:
        raise ExtractError('block %s: passof=%s: no such block' % (d.args[2], base_name))
    nd = Directive('block', [], d.line_no, d.path)
    keep = [a for a in d.args[3:] if a.split('=')[0] in ('unit', 'props', 'passof')]
    inherit = [a for a in base.args[3:] if a.split('=')[0] not in ('unit', 'props', 'passof')]
    nd.args = [base.args[0], base.args[1], d.args[2]] + keep + inherit
    for (n, a, t) in base.sections:
        if n == 'head':
            nd.sections.append((n, a, [re.sub(r'\bfn\s+%s\b' % re.escape(base_name), 'fn ' + d.args[2], l) for l in t]))
        elif n in ('prologue', 'glue', 'epilogue', 'iterize', 'opaque', 'replace', 'callargs', 'ascribe'):
            nd.sections.append((n, a, t))
    for (n, a, t) in d.sections:
        if n in ('head', 'prologue', 'glue', 'epilogue'):
            raise ExtractError('block %s: a proof pass inherits its %s from %s' % (d.args[2], n, base_name))
        nd.sections.append((n, a, t))
    own_req = _norm_clause_lines(_clauses_after('\n'.join('\n'.join(t) for (n, _, t) in d.sections if n == 'spec'), 'requires'))
    base_req = set(_norm_clause_lines(_clauses_after('\n'.join('\n'.join(t) for (n, _, t) in base.sections if n == 'spec'), 'requires')))
    for l in own_req:
        if l not in base_req:
            raise ExtractError('block %s: precondition line is not a precondition of %s: %s' % (d.args[2], base_name, l))
    return nd


def pass_ensures(base_name):
    """ensures clauses proved by the proof passes of a block (added to the stub every caller sees)"""
    out = []
    for nm in PASSES.get(base_name, []):
        d = BLOCKS[nm]
        spec = '\n'.join('\n'.join(t) for (n, _, t) in d.sections if n == 'spec')
        out.append('            // proved by pass %s (unit %s)' % (nm, d.opt('unit')))
        out.append(_clauses_after(spec, 'ensures').rstrip())
    return '\n'.join(out)


def depth_ok(tl, a, b):
    """lines a..b-1 of tl leave at least one bracket open (so line b is inside the statement that starts at line a), or a == b"""
    if a == b:
        return True
    depth = 0
    for li in range(a, b):
        for ch in re.sub(r'//.*', '', tl[li]):
            if ch in '([{':
                depth += 1
            elif ch in ')]}':
                depth -= 1
    return depth > 0


def rule_blockcall(body, argstr, text, fname, rel, qual, counts, info, at_line=None):
    """R8c: the body of the loop that a `//@block ... loopbody=` directive proves separately is replaced, in the enclosing
    function, by the call of that block given in the section text. Checked mechanically: the block exists, is cut from this
    very function with a loop-header anchor that is found here, every assignment to an accumulator variable (acc=) inside the
    replaced body is `<acc> = true;` (so `if r { acc = true; }` after the call is the same accumulation), and every `rebind=`
    variable is re-bound after the loop by the verbatim `let` statement found before the loop."""
    parts = argstr.split()
    bname = parts[0]
    opts = dict(p.split('=', 1) for p in parts[1:])
    blk = BLOCKS.get(bname)
    if blk is None:
        raise ExtractError('lost anchor: %s blockcall %s: no such block' % (fname, bname))
    if blk.args[0] != rel or blk.args[1] != qual:
        raise ExtractError('blockcall %s: block is not cut from %s' % (bname, qual))
    lines = body.split('\n')
    if not blk.opt('loopbody'):
        # a statement-range block: the range is replaced by the call text
        a, b = block_range(lines, blk, fname + ' blockcall', at_line)
        indent = re.match(r'\s*', lines[a]).group(0)
        counts['R8c'] = counts.get('R8c', 0) + 1
        info.setdefault('blockcalls', []).append({'block': bname, 'replaced_lines': b - a + 1})
        return '\n'.join(lines[:a] + [indent + t.strip() for t in text if t.strip()] + lines[b + 1:])
    a = find_line(lines, blk.opt('loopbody').lstrip('~'), 1, fname + ' blockcall-loop')
    head = '\n'.join(lines[:a])
    rest = '\n'.join(lines[a:])
    pos = _loop_open_brace(rest)
    if pos is None:
        raise ExtractError('lost anchor: %s blockcall %s: not a loop header' % (fname, bname))
    close = _match_brace(rest, pos)
    inner = rest[pos + 1:close]
    for acc in filter(None, opts.get('acc', '').split(',')):
        for m in re.finditer(r'\b%s\s*([-+|&^]?=)(?!=)\s*([^;]*);' % re.escape(acc), inner):
            if m.group(1) != '=' or m.group(2).strip() != 'true':
                raise ExtractError('blockcall %s: accumulator %s is assigned `%s` in the loop body (only `= true` is covered by the rule)'
                                   % (bname, acc, m.group(0)))
    indent = re.match(r'\s*', lines[a]).group(0) + '    '
    new_inner = '\n' + '\n'.join(indent + t.strip() for t in text if t.strip()) + '\n' + indent[:-4]
    tail = rest[close + 1:]
    rebinds = []
    for v in filter(None, opts.get('rebind', '').split(',')):
        ms = [l for l in lines[:a] if re.match(r'\s*let\s+%s\s*=.*;\s*$' % re.escape(v), l)]
        if len(ms) != 1:
            raise ExtractError('lost anchor: %s blockcall rebind %s: %d let statements found' % (fname, v, len(ms)))
        tl = tail.split('\n')
        use = [i for i, l in enumerate(tl) if re.search(r'\b%s\b' % re.escape(v), re.sub(r'//.*', '', l))]
        if use:
            # the re-binding goes in front of the STATEMENT that holds the first use (the use may be inside a multi-line expression)
            at = use[0]
            depth = 0
            stmt = 0
            prev_end = True
            for li in range(use[0] + 1):
                code = re.sub(r'//.*', '', tl[li])
                if depth == 0 and code.strip():
                    stmt_candidate = li
                    if li == 0 or prev_end:
                        stmt = li
                for ch in code:
                    if ch in '([{':
                        depth += 1
                    elif ch in ')]}':
                        depth -= 1
                if code.strip():
                    prev_end = depth <= 0 and code.rstrip()[-1:] in ';}{'
                    if depth < 0:
                        depth = 0
            at = stmt if depth_ok(tl, stmt, use[0]) else use[0]
            ind2 = re.match(r'\s*', tl[at]).group(0)
            tl.insert(at, ind2 + ms[0].strip() + ' // [R8c] re-bound')
            tail = '\n'.join(tl)
    counts['R8c'] = counts.get('R8c', 0) + 1
    info.setdefault('blockcalls', []).append({'block': bname, 'replaced_lines': inner.count('\n') + 1, 'rebound': opts.get('rebind', '')})
    return head + '\n' + rest[:pos + 1] + new_inner + '}' + tail


def rule_r21_body(body, counts):
    """R21: `for X in HashSet::<T>::from_iter(V.iter()) {` -> `let distinct__ = verif_distinct_refs(&V); for X in distinct__ {`
    (by-value HashSet iteration is outside the Verus subset; the stub returns the distinct references in an unspecified order)."""
    body, n = re.subn(r'^([ \t]*)for (\w+) in HashSet::<[^>]*>::from_iter\((\w+)\.iter\(\)\) \{',
                      r'\1let distinct__ = verif_distinct_refs(&\3);\n\1for \2 in distinct__ {', body, flags=re.M)
    if n:
        counts['R21'] = counts.get('R21', 0) + n
    return body


RULES_BODY['R21'] = rule_r21_body


def rule_r24_block(body, counts):
    """R24 for a loop-body block: the block text is the body of a `for`; wrap it in a dummy loop header, apply R24, unwrap."""
    wrapped = 'for x__ in y__ {\n' + body + '\n}'
    out = rule_r24_body(wrapped, counts)
    ob = out.index('{')
    cb = out.rindex('}')
    return out[ob + 1:cb]


def rule_r24_body(body, counts):
    """R24 (always on): a guard `if C { continue; }` that is a top-level statement of a `for` body is replaced by wrapping the rest of
    that body in `if !(C) { .. }` (Verus 0.2026.09.13: "for-loops do not yet support continue"). Any other `continue` is left alone."""
    changed = True
    while changed:
        changed = False
        for m in re.finditer(r'^[ \t]*for\b[^\n]*', body, flags=re.M):
            pos = _loop_open_brace(body[m.start():])
            if pos is None:
                continue
            ob = m.start() + pos
            cb = _match_brace(body, ob)
            inner = body[ob + 1:cb]
            # top-level statements of the loop body: scan for `if` at depth 0
            depth = 0
            i = 0
            toks = rustlex.code_toks(rustlex.lex(inner))
            stmt_start = True
            hit = None
            for ti, t in enumerate(toks):
                if t.kind == 'p' and t.text in '([{' and len(t.text) == 1:
                    depth += 1
                elif t.kind == 'p' and t.text in ')]}' and len(t.text) == 1:
                    depth -= 1
                    if depth == 0 and t.text == '}':
                        stmt_start = True
                        continue
                if depth == 0 and stmt_start and t.kind == 'id' and t.text == 'if' and not (ti > 0 and toks[ti - 1].kind == 'id' and toks[ti - 1].text == 'else'):
                    # find its block
                    j = ti + 1
                    d2 = 0
                    while j < len(toks):
                        tj = toks[j]
                        if tj.kind == 'p' and tj.text in ('(', '['):
                            d2 += 1
                        elif tj.kind == 'p' and tj.text in (')', ']'):
                            d2 -= 1
                        elif tj.kind == 'p' and tj.text == '{' and d2 == 0:
                            break
                        j += 1
                    if j + 3 < len(toks) + 1 and j + 3 <= len(toks) - 0 and toks[j + 1].kind == 'id' and toks[j + 1].text == 'continue' \
                            and toks[j + 2].text == ';' and toks[j + 3].text == '}' \
                            and not (j + 4 < len(toks) and toks[j + 4].kind == 'id' and toks[j + 4].text == 'else'):
                        hit = (t.start, toks[ti + 1].start, toks[j].start, toks[j + 3].end)
                        break
                if depth == 0 and t.kind == 'p' and t.text == ';':
                    stmt_start = True
                elif not (t.kind == 'p' and t.text == '}'):
                    stmt_start = False if depth > 0 or t.kind != 'p' or t.text != ';' else True
            if hit:
                if_s, cond_s, brace_s, end_e = hit
                cond = inner[cond_s:brace_s].strip()
                rest = inner[end_e:]
                new_inner = inner[:if_s] + 'if !(%s) { // [R24] was: if %s { continue; }' % (cond, ' '.join(cond.split())) + rest.rstrip() + '\n} // [R24]\n'
                body = body[:ob + 1] + new_inner + body[cb:]
                counts['R24'] = counts.get('R24', 0) + 1
                changed = True
                break
    return body


def rule_r0_body(body, counts):
    """R0 (layout only): a line that starts with `.` continues the method chain of the previous line (rustfmt breaks long chains);
    the pieces are joined so that the expression-level rules, which work on single lines, see the whole chain."""
    lines = body.split('\n')
    out = []
    n = 0
    for l in lines:
        if out and l.lstrip().startswith('.') and not l.lstrip().startswith('..') and not out[-1].rstrip().endswith(('{', ';', '}')) \
                and '//' not in out[-1]:
            out[-1] = out[-1].rstrip() + l.lstrip()
            n += 1
        else:
            out.append(l)
    if n:
        counts['R0'] = counts.get('R0', 0) + n
    return '\n'.join(out)


def _wrap_loop_body(body, for_start, new_header, n_close):
    """replace the header of the `for` statement starting at for_start (up to and including its `{`) by new_header and add n_close
    closing braces before the loop's own closing brace"""
    pos = _loop_open_brace(body[for_start:])
    ob = for_start + pos
    cb = _match_brace(body, ob)
    return body[:for_start] + new_header + body[ob + 1:cb].rstrip() + '\n' + ('} ' * n_close) + '// [R22]\n' + body[cb:]


def rule_r22_body(body, counts):
    """R22: iterator adapters in a `for` header are turned into guards inside the loop (definition of Iterator::filter / filter_map):
       `for P in R.filter(|CP| C) {B}`  ->  `for P in R { if C {B} }`   (CP binds a subset of the names of P at the same tuple positions;
                                                                          C uses them only through field / method access)
       `for (a, b) in R.filter_map(|a| { O[.filter(|b| C)].map(|b| (a, b)) }) {B}`  ->  `for a in R { if let Some(b) = O { [if C {] B [}] } }`"""
    # filter_map form (the closure is a block; after R0 its chain stands on one line)
    pat_fm = re.compile(r'for \((\w+), (\w+)\) in ([^\n{|]+?)\.filter_map\(\|(\w+)\| \{\s*\n?\s*([^\n]+?)\.map\(\|(\w+)\| \((\w+), (\w+)\)\)\s*\n?\s*\}\) \{')
    while True:
        m = pat_fm.search(body)
        if not m:
            break
        a, b, recv, ca, opt, mb, ta, tb = m.groups()
        cond = None
        mf = None
        fi = opt.find('.filter(|')
        if fi >= 0:
            op_ = fi + len('.filter')
            cl_ = _match_brace(opt, op_)
            mp = re.match(r'\|(\w+)\| (.+)$', opt[op_ + 1:cl_], flags=re.S)
            if cl_ == len(opt) - 1 and mp:
                mf = (opt[:fi], mp.group(1), mp.group(2).strip())
        if mf:
            opt, fb, cond = mf
            if fb != b:
                raise ExtractError('R22: filter parameter %s is not the loop variable %s' % (fb, b))
        if not (a == ca == ta and b == mb == tb):
            raise ExtractError('R22: filter_map closure does not rebuild the loop pattern (%s, %s)' % (a, b))
        if cond is not None and re.search(r'(\*\s*%s\b|\b%s\s*[=!]=|[=!]=\s*%s\b)' % (b, b, b), cond):
            raise ExtractError('R22: filter condition uses %s by value' % b)
        hdr = 'for %s in %s {\nif let Some(%s) = %s { ' % (a, recv, b, opt) + ('if %s { ' % cond if cond is not None else '') + '// [R22]'
        body = _wrap_loop_body(body, m.start(), hdr, 2 if cond is not None else 1)
        counts['R22'] = counts.get('R22', 0) + 1
    pat_f = re.compile(r'for (\([^)]*\)|\w+) in ([^\n{|]+?)\.filter\(\|(\([^)]*\)|\w+)\| ([^\n]+?)\) \{')
    while True:
        m = pat_f.search(body)
        if not m:
            break
        pat, recv, cpat, cond = m.groups()
        pn = [x.strip() for x in pat.strip('()').split(',')]
        cn = [x.strip() for x in cpat.strip('()').split(',')]
        if len(pn) != len(cn) or any(c != '_' and c != p_ for c, p_ in zip(cn, pn)):
            raise ExtractError('R22: filter closure pattern %s does not match the loop pattern %s' % (cpat, pat))
        for c in cn:
            if c != '_' and re.search(r'(\*\s*%s\b|\b%s\s*[=!]=|[=!]=\s*%s\b)' % (c, c, c), cond):
                raise ExtractError('R22: filter condition uses %s by value' % c)
        hdr = 'for %s in %s {\nif %s { // [R22]' % (pat, recv, cond.strip())
        body = _wrap_loop_body(body, m.start(), hdr, 1)
        counts['R22'] = counts.get('R22', 0) + 1
    return body


def rule_r25_body(body, counts):
    """R25: `let N = R.iter().filter_map(|P| {B}).collect::<Vec<_>>();`  ->  `let mut N = Vec::new(); for P in R.iter() { let fm__ = {B}; if let Some(x__) = fm__ { N.push(x__); } }`
    (definition of filter_map + collect into a Vec; the closure body B is kept verbatim as a block expression and must not contain `return` or `?`)."""
    pat = re.compile(r'^([ \t]*)let (\w+) = ([^\n;]+?)\.iter\(\)\.filter_map\(\|(\w+)\| \{', flags=re.M)
    while True:
        m = pat.search(body)
        if not m:
            break
        ob = m.end() - 1
        cb = _match_brace(body, ob)
        tail = re.match(r'\)\s*\.collect::<Vec<_>>\(\);', body[cb + 1:])
        if not tail:
            raise ExtractError('R25: filter_map closure is not followed by .collect::<Vec<_>>();')
        inner = body[ob + 1:cb]
        code = re.sub(r'//.*', '', inner)
        if re.search(r'\breturn\b', code) or '?' in re.sub(r'"(\\.|[^"\\])*"', '""', code):
            raise ExtractError('R25: closure body contains return or ?')
        ind, name, recv, p_ = m.group(1), m.group(2), m.group(3), m.group(4)
        new = ('%slet mut %s = Vec::new(); // [R25]\n%sfor %s in %s.iter() {\n%s    let fm__ = {%s};\n%s    if let Some(x__) = fm__ { %s.push(x__); }\n%s}'
               % (ind, name, ind, p_, recv, ind, inner, ind, name, ind))
        body = body[:m.start()] + new + body[cb + 1 + tail.end():]
        counts['R25'] = counts.get('R25', 0) + 1
    return body


def rule_r26_body(body, counts):
    """R26: `let N = R.iter().filter(|P| C).copied().collect::<Vec<_>>();` -> `let mut N = Vec::new(); for P in R.iter() { if C { N.push(*P); } }`
            `let N = R.iter().filter_map(|P| E).map(|P2| {B}).collect::<Vec<_>>();` -> `let mut N = Vec::new(); for P in R.iter() { if let Some(P2) = E { let m__ = {B}; N.push(m__); } }`
    (definitions of the adapters; C, E, B are kept verbatim; they must not contain `return` or `?`)."""
    def clean(txt):
        code = re.sub(r'//.*', '', txt)
        return not (re.search(r'\breturn\b', code) or '?' in re.sub(r'"(\\.|[^"\\])*"', '""', code))
    pat1 = re.compile(r'^([ \t]*)let (\w+) = ([^\n;]+?)\.iter\(\)\.filter\(\|(\w+)\| ', flags=re.M)
    while True:
        m = pat1.search(body)
        if not m:
            break
        op = body.rindex('(', 0, m.end() - len('|%s| ' % m.group(4)))
        cl = _match_brace(body, op)
        cond = body[m.end():cl]
        tail = re.match(r'\.copied\(\)\.collect::<Vec<_>>\(\);', body[cl + 1:])
        if not tail:
            break
        if not clean(cond):
            raise ExtractError('R26: closure contains return or ?')
        ind, name, recv, p_ = m.group(1), m.group(2), m.group(3), m.group(4)
        new = '%slet mut %s = Vec::new(); // [R26]\n%sfor %s in %s.iter() {\n%s    if %s { %s.push(*%s); }\n%s}' % (ind, name, ind, p_, recv, ind, cond.strip(), name, p_, ind)
        body = body[:m.start()] + new + body[cl + 1 + tail.end():]
        counts['R26'] = counts.get('R26', 0) + 1
    pat2 = re.compile(r'^([ \t]*)let (\w+) = ([^\n;]+?)\.iter\(\)\.filter_map\(\|(\w+)\| ', flags=re.M)
    while True:
        m = pat2.search(body)
        if not m:
            break
        op = body.rindex('(', 0, m.end() - len('|%s| ' % m.group(4)))
        cl = _match_brace(body, op)
        e = body[m.end():cl]
        m2 = re.match(r'\.map\(\|(\([^)]*\)|\w+)\| \{', body[cl + 1:])
        if not m2:
            break
        ob = cl + 1 + m2.end() - 1
        cb = _match_brace(body, ob)
        tail = re.match(r'\)\.collect::<Vec<_>>\(\);', body[cb + 1:])
        if not tail:
            break
        blk = body[ob + 1:cb]
        if not clean(e) or not clean(blk):
            raise ExtractError('R26: closure contains return or ?')
        ind, name, recv, p_, p2 = m.group(1), m.group(2), m.group(3), m.group(4), m2.group(1)
        e = e.strip()
        bind = ''
        # `BASE.map(|w| T)` inside the filter_map closure: Option::map is unfolded as well (`if let Some(w) = BASE { let P2 = T; .. }`)
        mi = e.rfind('.map(|')
        if mi >= 0 and _match_brace(e, mi + 4) == len(e) - 1:
            mm = re.match(r'\|(\w+)\| (.+)$', e[mi + 5:len(e) - 1], flags=re.S)
            if mm:
                bind = 'let %s = %s; ' % (p2, mm.group(2).strip())
                p2_outer, e = mm.group(1), e[:mi]
            else:
                p2_outer = p2
        else:
            p2_outer = p2
        new = ('%slet mut %s = Vec::new(); // [R26]\n%sfor %s in %s.iter() {\n%s    if let Some(%s) = %s {\n%s        %slet m__ = {%s};\n%s        %s.push(m__);\n%s    }\n%s}'
               % (ind, name, ind, p_, recv, ind, p2_outer, e, ind, bind, blk, ind, name, ind, ind))
        body = body[:m.start()] + new + body[cb + 1 + tail.end():]
        counts['R26'] = counts.get('R26', 0) + 1
    return body


def rule_r28_body(body, counts):
    """R28: statement-position `E[..N].iter().for_each(|x| { B });` -> `let n__ = N; let mut i__: usize = 0; while i__ < n__ { let x = &E[i__]; B i__ += 1; }`
    (a prefix slice walked by index; both forms panic exactly when N > E.len())."""
    pat = re.compile(r'(?P<ind>^[ \t]*)(?P<e>[A-Za-z_][\w\.]*?)\[\.\.(?P<n>[^\]\n]+)\]\.iter\(\)\.for_each\(\|(?P<x>\w+)\|\s*\{', re.M)
    while True:
        m = pat.search(body)
        if not m:
            break
        open_idx = m.end() - 1
        close_idx = _match_brace(body, open_idx)
        tail = body[close_idx + 1:]
        mt = re.match(r'\s*\)\s*;', tail)
        if not mt:
            raise ExtractError('R28: for_each closure not in statement position')
        inner = body[open_idx + 1:close_idx]
        if re.search(r'\b(return|break|continue)\b', re.sub(r'//.*', '', inner)):
            raise ExtractError('R28: closure body contains return/break/continue')
        ind = m.group('ind')
        body = (body[:m.start()] + ind + 'let n__ = %s; let mut i__: usize = 0; // [R28]\n' % m.group('n').strip()
                + ind + 'while i__ < n__ {\n' + ind + '    let %s = &%s[i__];' % (m.group('x'), m.group('e'))
                + inner.rstrip() + '\n' + ind + '    i__ += 1;\n' + ind + '}' + tail[mt.end():])
        counts['R28'] = counts.get('R28', 0) + 1
    return body


def rule_r27_body(body, counts):
    """R27: `E.find(|c| c == 'a' || c == 'b' ..).is_some()` -> `verif_str_has_any(E, &['a', 'b', ..])`;  `E.contains(char::is_whitespace)` -> `verif_str_has_whitespace(E)`."""
    def repl(m):
        chars = re.findall(r"%s == ('(?:\\.|[^'])')" % re.escape(m.group(2)), m.group(3))
        parts = [x.strip() for x in m.group(3).split('||')]
        if len(chars) != len(parts):
            return m.group(0)
        counts['R27'] = counts.get('R27', 0) + 1
        return 'verif_str_has_any(%s, &[%s])' % (m.group(1), ', '.join(chars))
    body = re.sub(r"\b([A-Za-z_]\w*)\.find\(\|(\w+)\| ([^)]*?)\)\.is_some\(\)", repl, body)
    body, n = re.subn(r"\b([A-Za-z_]\w*)\.contains\(char::is_whitespace\)", r'verif_str_has_whitespace(\1)', body)
    if n:
        counts['R27'] = counts.get('R27', 0) + n
    return body


def rule_r29_body(body, counts):
    """R29: `for X in E.iter().rev().take(N) {` -> an index loop over the last min(N, E.len()) elements, newest first
    (definition of rev + take on a slice iterator)."""
    pat = re.compile(r'^([ \t]*)for (\w+) in ([A-Za-z_][\w\.]*)\.iter\(\)\.rev\(\)\.take\(([^()\n]+)\) \{', flags=re.M)
    while True:
        m = pat.search(body)
        if not m:
            break
        ind, x, e, n = m.groups()
        hdr = ('%slet n__ = if %s < %s.len() { %s } else { %s.len() }; let mut i__: usize = 0; // [R29]\n%swhile i__ < n__ {\n%s    let %s = &%s[%s.len() - 1 - i__]; i__ += 1;'
               % (ind, n.strip(), e, n.strip(), e, ind, ind, x, e, e))
        body = body[:m.start()] + hdr + body[m.end():]
        counts['R29'] = counts.get('R29', 0) + 1
    return body


def rule_r23_body(body, counts):
    """R23: `format!("p0{}p1{}p2", a, b)` -> `verif_fmt2("p0", &a, "p1", &b, "p2")` (only plain `{}` placeholders, at most 3, literal
    format string without escaped braces); the stub's result is the concatenation of the literal pieces and the Display text of the
    arguments. Anything else is left to Verus (format! with an unspecified result)."""
    out = []
    pos = 0
    n_done = 0
    for m in re.finditer(r'\bformat!\(', body):
        if m.start() < pos:
            continue
        open_idx = m.end() - 1
        close_idx = _match_brace(body, open_idx)
        inner = body[open_idx + 1:close_idx]
        lm = re.match(r'\s*"((?:\\.|[^"\\])*)"\s*(,|$)', inner)
        if not lm:
            continue
        lit = lm.group(1)
        if '{{' in lit or '}}' in lit or re.search(r'\{[^}]', lit):
            continue
        pieces = lit.split('{}')
        rest = inner[lm.end():].strip().rstrip(',')
        # split the arguments at top-level commas
        args = []
        depth = 0
        cur = ''
        for ch in rest:
            if ch in '([{':
                depth += 1
            elif ch in ')]}':
                depth -= 1
            if ch == ',' and depth == 0:
                args.append(cur.strip()); cur = ''
            else:
                cur += ch
        if cur.strip():
            args.append(cur.strip())
        if len(args) != len(pieces) - 1 or not (1 <= len(args) <= 5) or any('=' in a and not '==' in a for a in args):
            continue
        parts = []
        for i, a in enumerate(args):
            parts.append('"%s"' % pieces[i])
            parts.append('&' + a)
        parts.append('"%s"' % pieces[-1])
        out.append(body[pos:m.start()] + 'verif_fmt%d(%s)' % (len(args), ', '.join(parts)))
        pos = close_idx + 1
        n_done += 1
    out.append(body[pos:])
    if n_done:
        counts['R23'] = counts.get('R23', 0) + n_done
    return ''.join(out)


RULES_BODY['R23'] = rule_r23_body
RULES_BODY['R22'] = rule_r22_body
RULES_BODY['R25'] = rule_r25_body
RULES_BODY['R26'] = rule_r26_body
RULES_BODY['R27'] = rule_r27_body
RULES_BODY['R29'] = rule_r29_body
RULES_BODY['R28'] = rule_r28_body


def find_line(lines, regex, k, what):
    rx = re.compile(regex)
    hits = [i for i, l in enumerate(lines) if rx.search(l) and not l.lstrip().startswith('// [')]
    if len(hits) < k:
        raise ExtractError('lost anchor: %s ~%s #%d (found %d)' % (what, regex, k, len(hits)))
    return hits[k - 1]


def parse_anchor(argstr):
    """'~regex #k iter=name' -> (regex, k, opts)"""
    a = argstr.strip()
    if not a.startswith('~'):
        raise ExtractError('anchor must start with ~: %s' % argstr)
    a = a[1:]
    opts = {}
    m = re.search(r'\s+iter=(\w+)\s*$', a)
    if m:
        opts['iter'] = m.group(1); a = a[:m.start()]
    k = 1
    m = re.search(r'\s+#(\d+)\s*$', a)
    if m:
        k = int(m.group(1)); a = a[:m.start()]
    return a, k, opts


def weave_body(body, d, fname):
    """body: text between the braces (exclusive). Returns new body text."""
    lines = body.split('\n')
    inserts_before = {}
    inserts_after = {}
    loop_edits = []
    open_txt = []
    close_txt = []
    for name, argstr, text in d.sections:
        if name == 'open':
            open_txt += text
        elif name == 'close':
            close_txt += text
        elif name == 'before':
            rx, k, _ = parse_anchor(argstr)
            i = find_line(lines, rx, k, fname + ' before')
            inserts_before.setdefault(i, []).extend(text)
        elif name == 'after':
            rx, k, _ = parse_anchor(argstr)
            i = find_line(lines, rx, k, fname + ' after')
            inserts_after.setdefault(i, []).extend(text)
        elif name in ('afterloop', 'endloop'):
            rx, k, _ = parse_anchor(argstr)
            i = find_line(lines, rx, k, fname + ' ' + name)
            rest = '\n'.join(lines[i:])
            pos = _loop_open_brace(rest)
            if pos is None:
                raise ExtractError('lost anchor: %s %s ~%s is not a loop header' % (fname, name, rx))
            close = _match_brace(rest, pos)
            j = i + rest[:close].count('\n')
            if name == 'afterloop':
                inserts_after.setdefault(j, []).extend(text)
            else:
                # the closing brace must stand alone on its line (rustfmt layout)
                if lines[j].strip() != '}':
                    raise ExtractError('lost anchor: %s endloop ~%s: closing brace shares its line' % (fname, rx))
                inserts_before.setdefault(j, []).extend(text)
        elif name in ('afterblock', 'endblock'):
            # like afterloop / endloop, for any statement that opens a `{` block on (or after) the anchored line: if / if let / match / loop
            rx, k, _ = parse_anchor(argstr)
            i = find_line(lines, rx, k, fname + ' ' + name)
            rest = '\n'.join(lines[i:])
            pos = _stmt_open_brace(rest)
            if pos is None:
                raise ExtractError('lost anchor: %s %s ~%s does not open a block' % (fname, name, rx))
            close = _match_brace(rest, pos)
            j = i + rest[:close].count('\n')
            if name == 'afterblock':
                if lines[j].strip() != '}':
                    raise ExtractError('lost anchor: %s afterblock ~%s: the block does not end on a line of its own' % (fname, rx))
                inserts_after.setdefault(j, []).extend(text)
            else:
                if lines[j].strip() != '}':
                    raise ExtractError('lost anchor: %s endblock ~%s: closing brace shares its line' % (fname, rx))
                inserts_before.setdefault(j, []).extend(text)
        elif name == 'loop':
            rx, k, opts = parse_anchor(argstr)
            i = find_line(lines, rx, k, fname + ' loop')
            if not re.search(r'\b(for|while|loop)\b', lines[i]):
                raise ExtractError('lost anchor: %s loop ~%s does not hit a loop header: %s' % (fname, rx, lines[i].strip()))
            loop_edits.append((i, text, opts))
    # loop edits: operate on the joined text from the header line on
    for i, text, opts in loop_edits:
        if 'iter' in opts:
            new, n = re.subn(r'\bin\s+', 'in %s: ' % opts['iter'], lines[i], count=1)
            if n != 1:
                raise ExtractError('%s: cannot place ghost iterator name' % fname)
            lines[i] = new
        # find line holding the loop's opening brace
        j = i
        joined = lines[j]
        while True:
            pos = _loop_open_brace(joined)
            if pos is not None:
                break
            j += 1
            if j >= len(lines):
                raise ExtractError('%s: loop header without body' % fname)
            joined += '\n' + lines[j]
        # position pos is in joined; translate to line j / column
        prefix_len = len(joined) - len(lines[j])
        col = pos - prefix_len
        if col < 0:
            raise ExtractError('%s: loop brace position confusion' % fname)
        lines[j] = lines[j][:col] + '\n' + '\n'.join(text) + '\n' + lines[j][col:]
    if close_txt:
        # place the closing proof text before a tail expression (e.g. `Ok(())`), else at the very end
        last = len(lines) - 1
        while last >= 0 and not lines[last].strip():
            last -= 1
        if last >= 0 and not re.search(r'[;}]\s*$', lines[last]) and not lines[last].lstrip().startswith('//'):
            inserts_before.setdefault(last, []).extend(close_txt)
            close_txt = []
    out = []
    out += open_txt
    for i, l in enumerate(lines):
        if i in inserts_before:
            out += inserts_before[i]
        out.append(l)
        if i in inserts_after:
            out += inserts_after[i]
    out += close_txt
    return '\n'.join(out)


def _stmt_open_brace(text):
    """offset of the first '{' at bracket depth 0 in the text (the block opened by the statement that starts there), or None."""
    try:
        toks = rustlex.lex(text)
    except ValueError:
        return None
    d = 0
    for t in toks:
        if t.kind == 'p':
            if t.text in '([': d += 1
            elif t.text in ')]': d -= 1
            elif t.text == '{' and d == 0:
                return t.start
    return None


def _loop_open_brace(text):
    """offset of the '{' opening the loop body in `for .. in .. {` / `while .. {` text, or None."""
    try:
        toks = rustlex.lex(text)
    except ValueError:
        return None
    d = 0
    seen_kw = False
    for t in toks:
        if t.kind == 'id' and t.text in ('for', 'while', 'loop') and not seen_kw:
            seen_kw = True
            continue
        if not seen_kw:
            continue
        if t.kind == 'p':
            if t.text in '([': d += 1
            elif t.text in ')]': d -= 1
            elif t.text == '{' and d == 0:
                return t.start
    return None


# --------------------------------------------------------------------------- emission

KEEP_DERIVES_DEFAULT = ()


def emit_type(d, report):
    rel, kind, name = d.args[0], d.args[1], d.args[2]
    src, it = locate(rel, kind, name)
    text = src[it.start:it.end]
    counts = {}
    keep = set(filter(None, (d.opt('derive', '') or '').split(',')))
    # R7: strip attributes of serde / validator / clap / derive (keep selected derives)
    toks = rustlex.lex(text)
    ct = rustlex.code_toks(toks)
    cut = []
    i = 0
    while i < len(ct):
        if ct[i].kind == 'p' and ct[i].text == '#' and i + 1 < len(ct) and ct[i + 1].text == '[':
            e = rustlex.match_close(ct, i + 1)
            cut.append((ct[i].start, ct[e].end))
            i = e + 1
        else:
            i += 1
    for a, b in reversed(cut):
        text = text[:a] + text[b:]
        counts['R7'] = counts.get('R7', 0) + 1
    # also drop doc comments that were attached
    text = re.sub(r'^\s*///.*\n', '', text, flags=re.M)
    text, n = re.subn(r'pub\s*\(\s*(super|crate)\s*\)', 'pub', text)
    if n:
        counts['R11'] = n
    if kind == 'struct':
        # R11: private fields become pub (visibility is not behaviour; Verus needs it for public spec functions)
        text, n2 = re.subn(r'^(\s+)(?!pub\b)([a-z_][A-Za-z0-9_]*\s*:)', r'\1pub \2', text, flags=re.M)
        if n2:
            counts['R11'] = counts.get('R11', 0) + n2
    drop = set(filter(None, (d.opt('drop', '') or '').split(',')))
    if drop:
        for f in drop:
            text, n = re.subn(r'^\s*(pub\s+)?%s\s*:[^\n]*,\s*\n' % re.escape(f), '', text, flags=re.M)
            if n != 1:
                raise ExtractError('type %s: cannot drop field %s' % (name, f))
            counts['drop-field'] = counts.get('drop-field', 0) + 1
    if keep:
        text = '#[derive(%s)]\n' % ', '.join(sorted(keep)) + text.lstrip()
    text = text.strip() + '\n'
    if not text.startswith('pub') and not text.startswith('#'):
        text = 'pub ' + text
    report['types'].append({'name': name, 'file': rel, 'rules': counts, 'dropped_fields': sorted(drop),
                            'sha': hashlib.sha256(src[it.start:it.end].encode()).hexdigest()[:12]})
    return text


def emit_handler_stubs(d, report):
    """one trusted stub per command handler, generated from the REAL signature; the gated ones (all but `ungated=`, the six
    verbs the property statement lists) carry `requires old(conn_state).user_state.authenticated`, so that the registration
    gate of the dispatcher becomes a call-site obligation."""
    files = (d.opt('files') or '').split(',')
    ungated = set((d.opt('ungated') or '').split(','))
    skip = set((d.opt('skip') or '').split(','))
    out = []
    names = []
    for rel in files:
        src = read_src(rel)
        for it in rustlex.items(src):
            if it.kind != 'fn' or it.owner != 'MainState' or not it.name.startswith('process_') or it.name in skip:
                continue
            if any(re.search(r'cfg\s*\(\s*feature', a) for a in it.attrs) or it.body_start is None:
                continue
            sig, _ = split_fn(src, it)
            counts = {}
            sig = rule_r11_sig(sig, counts)
            sig = rule_r2_sig(sig, counts)
            sig = name_return(sig, 'r')
            if not re.search(r'\bpub\b', sig):
                sig = re.sub(r'^(\s*)(async\s+)?fn', r'\1pub \2fn', sig, count=1)
            out.append('    #[verifier::external_body]')
            out.append(sig.rstrip())
            if it.name not in ungated:
                out.append('        requires old(conn_state).user_state.authenticated, // @prop C03')
            out.append('    { unimplemented!() }')
            names.append(it.name)
    report.setdefault('handler_stubs', []).extend(names)
    if not names:
        raise ExtractError('handlerstubs: no handler found')
    for u in ungated:
        if u and u not in names:
            raise ExtractError('lost anchor: ungated handler %s not found' % u)
    return '\n'.join(out)


def split_fn(src, it):
    head = src[it.start:it.sig_end]
    body = src[it.body_start + 1:it.body_end]
    # strip attributes / doc comments from head
    head = re.sub(r'^\s*#\[[^\]]*\]\s*\n', '', head, flags=re.M)
    head = re.sub(r'^\s*//.*\n', '', head, flags=re.M)
    return head, body


def add_params(sig, extra):
    """append `extra` to the parameter list of a fn signature text."""
    toks = rustlex.lex(sig)
    ct = rustlex.code_toks(toks)
    # first '(' after fn name (skip generics)
    i = 0
    while i < len(ct) and not (ct[i].kind == 'id' and ct[i].text == 'fn'):
        i += 1
    i += 2
    if ct[i].text == '<':
        depth = 0
        while True:
            if ct[i].text == '<': depth += 1
            elif ct[i].text == '>':
                depth -= 1
                if depth == 0:
                    i += 1
                    break
            i += 1
    if ct[i].text != '(':
        raise ExtractError('cannot find parameter list in: %s' % sig.strip()[:80])
    e = rustlex.match_close(ct, i)
    inner = sig[ct[i].end:ct[e].start]
    sep = '' if inner.rstrip().endswith(',') or not inner.strip() else ', '
    return sig[:ct[e].start] + sep + extra + sig[ct[e].start:]


def name_return(sig, retname):
    """`-> T` becomes `-> (r: T)` so that ensures clauses can name the result."""
    m = re.search(r'->\s*', sig)
    if not m:
        # Verus quirk (0.2026.09.13): an `async fn` without a declared return value loses its ensures at call sites;
        # `-> ()` is the same signature
        if re.search(r'\basync\s+fn\b', sig):
            return sig.rstrip() + ' -> (%s: ())' % retname
        return sig
    # return type runs until `where` or end of signature
    tail = sig[m.end():]
    mw = re.search(r'\bwhere\b', tail)
    rt = tail[:mw.start()] if mw else tail
    rest = tail[mw.start():] if mw else ''
    return sig[:m.end()] + '(%s: %s)' % (retname, rt.strip()) + ' ' + rest


def fn_after_self(sig, extra):
    """insert `extra` parameter right after `&self,` / `&mut self,` if present, else append."""
    m = re.search(r'&\s*(mut\s+)?self\s*,', sig)
    if m:
        return sig[:m.end()] + ' ' + extra + ',' + sig[m.end():]
    return add_params(sig, extra)


def check_assumed(d, unit, report):
    """//@assumed FILE QUALNAME sha=HEX [units=u1,u2]: the contract of this function is ASSUMED (written by inspection of its text, not
    proved). The assumption is tied to that text: when the text of the function in /repo is no longer the pinned one, the units that
    rely on the assumption cannot be decided (exit 2; the witness scripts of that function are then tried). Pins are renewed only by
    the deliberate maintenance step tools/update_allowlist.py --pins."""
    units = [u for u in (d.opt('units') or '').split(',') if u]
    rel, qual = d.args[0], d.args[1]
    src, it = locate(rel, 'fn', qual)
    sha = hashlib.sha256(src[it.start:it.end].encode()).hexdigest()[:12]
    report.setdefault('assumed_pins', []).append({'fn': qual, 'file': rel, 'pinned': d.opt('sha'), 'now': sha})
    if units and unit not in units:
        return
    if sha != d.opt('sha'):
        # not an abort: the functions proved in this unit are still verified (a failing obligation among them is reported as such)
        report.setdefault('pin_mismatch', []).append('lost anchor: %s: the text of this function, whose contract is ASSUMED, is not the text '
                                                     'the assumption was made for (pinned %s, now %s)' % (qual, d.opt('sha'), sha))


def emit_fn(d, unit, report, canaries):
    if d.kind == 'block' and d.opt('passof'):
        if d.opt('unit') != unit:
            return '', None   # a proof pass is never called: no stub outside its home unit
        d = resolve_pass(d)
    if d.kind == 'fn':
        rel, qual = d.args[0], d.args[1]
        src, it = locate(rel, 'fn', qual)
        if it.body_start is None:
            raise ExtractError('fn %s has no body' % qual)
        sig, body = split_fn(src, it)
        orig_text = src[it.start:it.end]
        fname = qual
    elif d.opt('unit') != unit:
        # a block that is not proved in this unit: only its synthetic head is needed for the stub
        rel, qual, fname = d.args[0], d.args[1], d.args[2]
        heads = [t for (n, _, t) in d.sections if n == 'head']
        if not heads:
            raise ExtractError('block %s lacks //@head' % fname)
        sig = '\n'.join(heads[0])
        body = ''
        orig_text = ''
        class _It:  # minimal stand-in
            name = fname
        it = _It()
    else:  # block
        rel, qual, fname = d.args[0], d.args[1], d.args[2]
        src, it = locate(rel, 'fn', qual)
        whole = src[it.body_start + 1:it.body_end]
        lines = whole.split('\n')
        if d.opt('loopbody'):
            # the block is the body of the loop whose header matches
            a = find_line(lines, d.opt('loopbody').lstrip('~'), 1, fname + ' block-loopbody')
            rest = '\n'.join(lines[a:])
            pos = _loop_open_brace(rest)
            if pos is None:
                raise ExtractError('lost anchor: block %s: not a loop header' % fname)
            close = _match_brace(rest, pos)
            body = rest[pos + 1:close]
        else:
            a, b = block_range(lines, d, fname)
            body = '\n'.join(lines[a:b + 1])
        heads = [t for (n, _, t) in d.sections if n == 'head']
        if not heads:
            raise ExtractError('block %s lacks //@head' % fname)
        sig = '\n'.join(heads[0])
        orig_text = body
        pre_counts = {}
        if d.opt('loopbody'):
            body = rule_r24_block(body, pre_counts)
        # prologue: lines that must occur verbatim in the enclosing real function (they set up the block's environment)
        pro = []
        stripped = set(l.strip() for l in lines)
        for (n, _, t) in d.sections:
            if n == 'prologue':
                for l in t:
                    if l.strip() and l.strip() not in stripped:
                        raise ExtractError('lost anchor: block %s prologue line not in %s: %s' % (fname, qual, l.strip()))
                pro += t
        epi = []
        for (n, _, t) in d.sections:
            if n == 'epilogue':
                epi += t
        # glue: parameter passing of the synthetic head (`let mut x = x_in;` - Verus has no `mut` parameters); each line must have that shape
        glue = []
        for (n, _, t) in d.sections:
            if n == 'glue':
                for l in t:
                    if l.strip() and not re.match(r'^let mut (\w+) = \1_in;$', l.strip()):
                        raise ExtractError('block %s: glue line is not `let mut x = x_in;`: %s' % (fname, l.strip()))
                glue += t
        body = '\n'.join(pro) + '\n' + '\n'.join(glue) + '\n' + body + '\n' + '\n'.join(epi)
    home = d.opt('unit')
    props = (d.opt('props', '') or '').split(',')
    rules = list(filter(None, (d.opt('rules', '') or '').split(',')))
    counts = dict(locals().get('pre_counts') or {})
    info = {}
    newname = d.opt('as')
    # --- signature
    sig = rule_r11_sig(sig, counts)
    if 'R2' in rules:
        sig = rule_r2_sig(sig, counts)
    if 'R1' in rules and d.kind == 'fn':
        sig = fn_after_self(sig, 'state: &mut VolatileState')
    if 'R6' in rules and d.kind == 'fn':
        sig = add_params(sig, 'Tracked(outbox): Tracked<&mut Outbox>')
    if 'R6q' in rules and d.kind == 'fn':
        sig = add_params(sig, 'Tracked(sig): Tracked<&mut Signals>')
    if 'R6c' in rules and d.kind == 'fn':
        sig = add_params(sig, 'Tracked(cnt): Tracked<&mut SlotCounter>')
    for name, argstr, text in d.sections:
        if name == 'sigadd':
            sig = add_params(sig, argstr)
    ret = d.opt('ret', 'r')
    if d.kind == 'fn':
        sig = name_return(sig, ret)
    if newname:
        sig = re.sub(r'\bfn\s+%s\b' % re.escape(it.name), 'fn ' + newname, sig, count=1)
    spec = []
    for name, argstr, text in d.sections:
        if name == 'spec':
            spec += text
    spec_txt = '\n'.join(spec)
    proved = (unit == home)
    entry = {'fn': fname, 'file': rel, 'unit': home, 'props': props, 'proved_here': proved,
             'sha': hashlib.sha256(orig_text.encode()).hexdigest()[:12], 'kind': d.kind}
    out = []
    if not proved:
        out.append('    #[verifier::external_body]')
        out.append(sig.rstrip())
        out.append(spec_txt)
        if d.kind == 'block' and PASSES.get(fname):
            if not re.search(r'^\s*ensures\b', spec_txt, flags=re.M):
                raise ExtractError('block %s has proof passes but no ensures section' % fname)
            out.append(pass_ensures(fname))
        out.append('    { unimplemented!() }')
        entry['rules'] = counts
        report['fns'].append(entry)
        return '\n'.join(out), None
    # --- body
    # block calls: all ranges are located on the original text, then replaced from the bottom up
    bcs = [(argstr, text) for name, argstr, text in d.sections if name == 'blockcall']
    if bcs:
        orig_lines = body.split('\n')
        located = []
        for argstr, text in bcs:
            blk = BLOCKS.get(argstr.split()[0])
            if blk is None:
                raise ExtractError('lost anchor: %s blockcall %s: no such block' % (fname, argstr.split()[0]))
            if blk.opt('loopbody'):
                pos = find_line(orig_lines, blk.opt('loopbody').lstrip('~'), 1, fname + ' blockcall-loop')
            else:
                pos = block_range(orig_lines, blk, fname + ' blockcall')[0]
            located.append((pos, argstr, text))
        for pos, argstr, text in sorted(located, key=lambda x: -x[0]):
            body = rule_blockcall(body, argstr, text, fname, rel, qual, counts, info, at_line=pos)
    body = strip_statement_macro(body, counts)
    if 'R0' in rules:
        body = rule_r0_body(body, counts)
    if 'R22' in rules:
        body = rule_r22_body(body, counts)
    body = rule_r24_body(body, counts)
    body = rule_time(body, counts)
    if 'R1' in rules:
        body = rule_r1(body, counts, info)
    if 'R2' in rules:
        body = rule_r2_body(body, counts)
    if 'R6' in rules:
        body = rule_r6_body(body, counts)
    if 'R6q' in rules:
        body = rule_r6_body(body, counts, names=('quit\\.store',), extra='Tracked(sig)')
    if 'R6c' in rules:
        body = rule_r6_body(body, counts, names=('conns_count\\.fetch_add', 'conns_count\\.fetch_sub'), extra='Tracked(cnt)')
    for r in rules:
        if r in RULES_BODY:
            body = RULES_BODY[r](body, counts)
    for name, argstr, text in d.sections:
        if name == 'callargs':
            # calls of a function that received injected parameters (R1 state / R6 outbox / R6q sig) get the matching arguments
            fn_name, spec = argstr.split(None, 1)
            pre = [a for a in spec.split(',') if a and not a.startswith('+')]
            post = [a[1:] for a in spec.split(',') if a.startswith('+')]
            pos = 0
            pat = re.compile(r'\.\s*%s\s*\(' % re.escape(fn_name))
            n_calls = 0
            while True:
                m = pat.search(body, pos)
                if not m:
                    break
                open_idx = m.end() - 1
                close_idx = _match_brace(body, open_idx)
                inner = body[open_idx + 1:close_idx]
                new_inner = ', '.join(pre + ([inner.strip().rstrip(',')] if inner.strip() else []) + post)
                body = body[:open_idx + 1] + new_inner + body[close_idx:]
                pos = open_idx + 1 + len(new_inner)
                n_calls += 1
            if n_calls == 0:
                raise ExtractError('lost anchor: %s callargs %s: no call found' % (fname, fn_name))
            counts['Rcall'] = counts.get('Rcall', 0) + n_calls
    for name, argstr, text in d.sections:
        if name == 'autocallargs':
            # Rcall, automatic: every call `self.NAME(` of a function that is under contract in this world gets the arguments for the
            # parameters the rules injected into NAME's signature (R1 state first; R6 outbox, R6q sig, //@sigadd parameters last)
            n_calls = 0
            for fn_name, fd in FNDIRS.items():
                frules = (fd.opt('rules', '') or '').split(',')
                pre = ['state'] if 'R1' in frules else []
                post = (['Tracked(outbox)'] if 'R6' in frules else []) + (['Tracked(sig)'] if 'R6q' in frules else [])
                post += [a.split(':')[0].strip() for (n2, a, _) in fd.sections if n2 == 'sigadd']
                if not pre and not post:
                    continue
                pos = 0
                pat = re.compile(r'\bself\s*\.\s*%s\s*\(' % re.escape(fn_name))
                while True:
                    m = pat.search(body, pos)
                    if not m:
                        break
                    open_idx = m.end() - 1
                    close_idx = _match_brace(body, open_idx)
                    inner = body[open_idx + 1:close_idx]
                    new_inner = ', '.join(pre + ([inner.strip().rstrip(',')] if inner.strip() else []) + post)
                    body = body[:open_idx + 1] + new_inner + body[close_idx:]
                    pos = open_idx + 1 + len(new_inner)
                    n_calls += 1
            counts['Rcall'] = counts.get('Rcall', 0) + n_calls
    for name, argstr, text in d.sections:
        if name == 'implicitdrop':
            # Rdrop: Rust drops a local value at the end of its scope unless it was moved out; Verus does not model that call. For a local
            # bound by `let X = <CTOR>(..);` every block result `None` in its scope (X not moved into the result) gets the explicit call
            # `<STUB>(X, ..)` in front; X may otherwise only occur as `Some(X)` (moved into the result) - anything else is refused.
            ctor, stub, extra = (argstr.split() + ['', ''])[:3]
            for m in list(re.finditer(r'^[ \t]*let (\w+) = %s\(' % re.escape(ctor), body, flags=re.M)):
                x = m.group(1)
                lines_ = body.split('\n')
                li = body[:m.start()].count('\n')
                uses = [l for l in lines_[li + 1:] if re.search(r'\b%s\b' % re.escape(x), re.sub(r'//.*', '', l))]
                if any(not re.fullmatch(r'\s*Some\(%s\)\s*' % re.escape(x), re.sub(r'//.*', '', l)) for l in uses):
                    raise ExtractError('Rdrop: %s is used other than as the result Some(%s)' % (x, x))
                n = 0
                for k in range(li + 1, len(lines_)):
                    if re.fullmatch(r'\s*None\s*', re.sub(r'//.*', '', lines_[k])):
                        ind = re.match(r'\s*', lines_[k]).group(0)
                        lines_[k] = ind + '%s(%s%s); // [Rdrop] end of scope of `%s`\n' % (stub, x, (', ' + extra) if extra else '', x) + lines_[k]
                        n += 1
                body = '\n'.join(lines_)
                counts['Rdrop'] = counts.get('Rdrop', 0) + n
    for name, argstr, text in d.sections:
        if name == 'ascribe':
            # R12: add a type annotation to a `let` (needed when ghost code mentions the variable before Rust infers its type)
            var, ty = argstr.split(None, 1)
            body, n = re.subn(r'\blet(\s+mut)?\s+%s\s*=' % re.escape(var), lambda m: 'let%s %s: %s =' % (m.group(1) or '', var, ty), body, count=1)
            if n != 1:
                raise ExtractError('lost anchor: %s ascribe %s' % (fname, var))
            counts['R12'] = counts.get('R12', 0) + 1
    for name, argstr, text in d.sections:
        if name == 'replace':
            # R19: a listed expression-level replacement `//@replace ~|regex| => text` (call of an assumed helper for an
            # iterator-adapter / slice API Verus cannot ingest); every application is reported with its text
            rx_part, new_txt = argstr.split('=>', 1)
            rx_part = rx_part.strip()
            if rx_part.startswith('~|') and rx_part.endswith('|'):
                rx = rx_part[2:-1]
            else:
                rx = rx_part.lstrip('~')
            body, n = re.subn(rx, new_txt.strip(), body)
            if n == 0:
                raise ExtractError('lost anchor: %s replace ~%s' % (fname, rx))
            counts['R19'] = counts.get('R19', 0) + n
            info.setdefault('replacements', []).append('%s => %s (x%d)' % (rx, new_txt.strip(), n))
    for name, argstr, text in d.sections:
        if name == 'iterize':
            # R14b: `for X in NAME {` with NAME a reference to a HashSet/HashMap -> `for X in NAME.iter() {`
            for nm in argstr.split(','):
                body, n = re.subn(r'\bfor (\w+) in %s \{' % re.escape(nm.strip()), r'for \1 in %s.iter() {' % nm.strip(), body)
                if n == 0:
                    raise ExtractError('lost anchor: %s iterize %s' % (fname, nm))
                counts['R14'] = counts.get('R14', 0) + n
    for name, argstr, text in d.sections:
        if name == 'opaque':
            # R17: a loop the verifier cannot ingest is replaced by the given call of an assumed stub; the dropped lines are reported
            rx, k, _ = parse_anchor(argstr)
            blines = body.split('\n')
            i = find_line(blines, rx, k, fname + ' opaque')
            rest = '\n'.join(blines[i:])
            pos = _loop_open_brace(rest) if re.match(r'\s*(for|while|loop)\b', blines[i]) else (
                _stmt_open_brace(rest) if re.match(r'\s*(match|if)\b', blines[i]) else None)
            if pos is not None:
                close = _match_brace(rest, pos)
            else:
                # a statement: up to the line on which brackets balance and a `;` ends it
                j = i
                text_acc = blines[j]
                while not _balanced_stmt(text_acc):
                    j += 1
                    if j >= len(blines):
                        raise ExtractError('lost anchor: %s opaque ~%s: unterminated statement' % (fname, rx))
                    text_acc += '\n' + blines[j]
                close = len(text_acc) - 1
            dropped = rest[:close + 1]
            indent = re.match(r'\s*', blines[i]).group(0)
            body = '\n'.join(blines[:i]) + '\n' + indent + '// [R17] opaque region (%d lines not verified)\n' % (dropped.count('\n') + 1) \
                + '\n'.join(indent + t.strip() for t in text if t.strip()) + rest[close + 1:]
            counts['R17'] = counts.get('R17', 0) + 1
            info.setdefault('opaque_regions', []).append(dropped)
    n_builtin = count_builtin(body)
    n_calls = count_call_sites(body)
    body = weave_body(body, d, fname)
    entry['rules'] = counts
    entry.update(info)
    entry['verbatim'] = (sum(counts.values()) == 0)
    entry['builtin_sites'] = n_builtin
    entry['call_site_preconditions'] = n_calls
    entry['ensures'] = count_clauses(spec_txt, 'ensures')
    entry['requires'] = count_clauses(spec_txt, 'requires')
    entry['invariants'] = sum(count_clauses('\n'.join(t), 'invariant') for (n, _, t) in d.sections if n == 'loop')
    entry['orig_lines'] = orig_text.count('\n') + 1
    attrs = [a for (n, a, _) in d.sections if n == 'attr']
    for a in attrs:
        out.append('    ' + a)
    out.append(sig.rstrip())
    out.append(spec_txt)
    out.append('    {')
    out.append(body)
    out.append('    }')
    report['fns'].append(entry)
    # canary: same signature without return type, same requires, body assert(false)
    can = None
    req = extract_requires(spec_txt)
    csig = re.sub(r'\bfn\s+(\w+)', lambda m: 'fn canary__' + m.group(1), sig, count=1)
    csig = re.sub(r'->\s*\(.*$', '', csig, flags=re.S).rstrip()
    can = '\n'.join(['    #[verifier::exec_allows_no_decreases_clause]', csig,
                     ('        requires\n' + req) if req.strip() else '',
                     '    { assert(false); }'])
    return '\n'.join(out), can


def extract_requires(spec_txt):
    m = re.search(r'^\s*requires\b', spec_txt, flags=re.M)
    if not m:
        return ''
    rest = spec_txt[m.end():]
    m2 = re.search(r'^\s*(ensures|decreases|returns|no_unwind|opens_invariants)\b', rest, flags=re.M)
    return rest[:m2.start()] if m2 else rest


def count_clauses(text, kw):
    m = re.search(r'\b%s\b' % kw, text)
    if not m:
        return 0
    rest = text[m.end():]
    m2 = re.search(r'^\s*(requires|ensures|decreases|returns|invariant)\b', rest, flags=re.M)
    seg = rest[:m2.start()] if m2 else rest
    seg = re.sub(r'//.*', '', seg)
    try:
        ct = rustlex.code_toks(rustlex.lex(seg))
    except ValueError:
        return 1
    d = 0
    n = 0
    pending = False
    for t in ct:
        if t.kind == 'p' and t.text in '([{': d += 1
        elif t.kind == 'p' and t.text in ')]}': d -= 1
        elif t.kind == 'p' and t.text == ',' and d == 0:
            if pending:
                n += 1
            pending = False
            continue
        elif t.kind == 'p' and t.text == '|' and d == 0:
            pass
        pending = True
    if pending:
        n += 1
    return n


def count_builtin(body):
    b = re.sub(r'//.*', '', body)
    b = re.sub(r'"(\\.|[^"\\])*"', '""', b)
    n = len(re.findall(r'\.unwrap\(\)', b))
    n += len(re.findall(r'\.expect\(', b))
    n += len(re.findall(r'[\w\)\]]\[[^\]]+\]', b))       # index / slice
    n += len(re.findall(r'[\w\)\]] [-+*/] [\w\(]', b))   # arithmetic
    n += len(re.findall(r' [-+*/]= ', b))
    n += len(re.findall(r'\b(panic|unreachable|assert)!', b))
    return n


BLOCKS = {}
FNDIRS = {}   # function name -> //@fn directive (for //@autocallargs)
PASSES = {}   # base block -> names of the additional proof passes over the same text


def prepass(world_files):
    """collect the names of functions whose contract has a precondition: a call of one of them is a call-site obligation"""
    REQ_FNS.clear()
    BLOCKS.clear()
    for wf in world_files:
        for seg in parse_template(wf):
            if not isinstance(seg, str) and seg.kind == 'block':
                BLOCKS[seg.args[2]] = seg
    FNDIRS.clear()
    for wf in world_files:
        for seg in parse_template(wf):
            if not isinstance(seg, str) and seg.kind == 'fn':
                FNDIRS[seg.opt('as') or seg.args[1].split('::')[-1]] = seg
    PASSES.clear()
    for nm, seg in BLOCKS.items():
        if seg.opt('passof'):
            PASSES.setdefault(seg.opt('passof'), []).append(nm)
    for wf in world_files:
        for seg in parse_template(wf):
            if isinstance(seg, str):
                for m in re.finditer(r'fn\s+(\w+)[^{;]*?\brequires\b', seg, flags=re.S):
                    REQ_FNS.add(m.group(1))
            elif seg.kind in ('fn', 'block'):
                spec = '\n'.join('\n'.join(t) for (n, _, t) in seg.sections if n == 'spec')
                if re.search(r'\brequires\b', spec):
                    nm = seg.args[1].split('::')[-1] if seg.kind == 'fn' else seg.args[2]
                    REQ_FNS.add(seg.opt('as') or nm)
            elif seg.kind == 'handlerstubs':
                ungated = set((seg.opt('ungated') or '').split(','))
                skip = set((seg.opt('skip') or '').split(','))
                for rel in (seg.opt('files') or '').split(','):
                    for it in rustlex.items(read_src(rel)):
                        if it.kind == 'fn' and it.owner == 'MainState' and it.name.startswith('process_') and it.name not in skip and it.name not in ungated:
                            REQ_FNS.add(it.name)


def count_call_sites(body):
    b = re.sub(r'//.*', '', body)
    n = 0
    for name in REQ_FNS:
        n += len(re.findall(r'[\.:\s]%s\s*\(' % re.escape(name), b))
    return n


def build_unit(world_files, unit, outdir):
    prepass(world_files)
    report = {'unit': unit, 'fns': [], 'types': [], 'linemap': []}
    main_lines = []
    linemap = []
    for wf in world_files:
        for seg in parse_template(wf):
            if isinstance(seg, str):
                main_lines.extend(seg.split('\n'))
            elif seg.kind == 'type':
                main_lines.extend(emit_type(seg, report).split('\n'))
            elif seg.kind == 'handlerstubs':
                main_lines.extend(emit_handler_stubs(seg, report).split('\n'))
            elif seg.kind == 'assumed':
                check_assumed(seg, unit, report)
            else:
                txt, _can = emit_fn(seg, unit, report, None)
                s = len(main_lines) + 1
                main_lines.extend(txt.split('\n'))
                fname = seg.args[1] if seg.kind == 'fn' else seg.args[2]
                linemap.append({'fn': fname, 'start': s, 'end': len(main_lines),
                                'props': (seg.opt('props', '') or '').split(','),
                                'proved_here': seg.opt('unit') == unit})
    report['linemap'] = linemap
    os.makedirs(outdir, exist_ok=True)
    main_path = os.path.join(outdir, unit + '.rs')
    with open(main_path, 'w') as f:
        f.write('\n'.join(main_lines) + '\n')
    # tags: lines carrying `@prop Cxx`
    tags = {}
    for i, l in enumerate(main_lines, 1):
        m = re.search(r'@prop\s+([C0-9, ]+)', l)
        if m:
            tags[i] = [x.strip() for x in m.group(1).split(',') if x.strip()]
    report['tags'] = tags
    with open(os.path.join(outdir, unit + '.map.json'), 'w') as f:
        json.dump(report, f, indent=1)
    return main_path, report


def build_canary_unit(world_files, unit, outdir):
    """Canary file: every function as a trusted stub + one `assert(false)` canary per proved function."""
    report = {'unit': unit, 'fns': [], 'types': [], 'linemap': []}
    lines = []
    names = []
    for wf in world_files:
        for seg in parse_template(wf):
            if isinstance(seg, str):
                lines.extend(seg.split('\n'))
            elif seg.kind == 'type':
                lines.extend(emit_type(seg, report).split('\n'))
            elif seg.kind == 'handlerstubs':
                lines.extend(emit_handler_stubs(seg, report).split('\n'))
            elif seg.kind == 'assumed':
                pass
            else:
                txt, can = emit_fn(seg, unit, report, None)
                home = seg.opt('unit')
                if home == unit and can:
                    # stub version of the function itself
                    stub, _ = emit_fn(seg, '__none__', {'fns': [], 'types': []}, None)
                    lines.extend(stub.split('\n'))
                    s = len(lines) + 1
                    lines.extend(can.split('\n'))
                    fname = seg.args[1] if seg.kind == 'fn' else seg.args[2]
                    names.append({'fn': fname, 'start': s, 'end': len(lines)})
                else:
                    lines.extend(txt.split('\n'))
    path = os.path.join(outdir, unit + '_canary.rs')
    with open(path, 'w') as f:
        f.write('\n'.join(lines) + '\n')
    with open(os.path.join(outdir, unit + '_canary.map.json'), 'w') as f:
        json.dump(names, f, indent=1)
    return path, names


if __name__ == '__main__':
    import argparse
    ap = argparse.ArgumentParser()
    ap.add_argument('--world', required=True)
    ap.add_argument('--unit', required=True)
    ap.add_argument('--out', required=True)
    ap.add_argument('--canary', action='store_true')
    a = ap.parse_args()
    world = json.load(open(a.world))
    base = os.path.dirname(os.path.abspath(a.world))
    files = [os.path.join(base, f) for f in world['files']]
    try:
        if a.canary:
            p, _ = build_canary_unit(files, a.unit, a.out)
        else:
            p, _ = build_unit(files, a.unit, a.out)
        print(p)
    except ExtractError as e:
        print('EXTRACT-ERROR: %s' % e)
        sys.exit(2)
