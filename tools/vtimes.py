#!/usr/bin/env python3
"""dev helper: run verus on a file and print per-function times + errors"""
import json, subprocess, sys, os
os.environ.setdefault('CARGO_PKG_NAME','simple-irc-server'); os.environ.setdefault('CARGO_PKG_VERSION','0.1.8')
p = subprocess.run(['verus', sys.argv[1], '--output-json', '--time', '--triggers-mode', 'silent', '--multiple-errors', '5'] + sys.argv[2:], capture_output=True, text=True)
try:
    d = json.loads(p.stdout)
    for m in d['times-ms']['smt']['smt-run-module-times']:
        for f in sorted(m.get('function-breakdown', []), key=lambda f: -f['time'])[:12]:
            print('%6d ms %9d rl %s %s' % (f['time'], f['rlimit'], 'ok ' if f['success'] else 'FAIL', f['function']))
    print(d['verification-results'])
except Exception as e:
    print('no json', e)
import re
err = p.stderr
blocks = re.split(r'\n(?=error|warning|note)', err)
for b in blocks:
    if b.startswith('error'):
        print(b[:1500])
