#!/usr/bin/env python3
"""dev/thorough helper: re-verify every unit under several Z3 random seeds; a function that fails under some seed is brittle.
usage: stability.py [--seeds N] [unit ...]   (writes nothing to evidence; prints a table)"""
import concurrent.futures, json, os, subprocess, sys, tempfile
HERE = os.path.dirname(os.path.abspath(__file__))
sys.path.insert(0, HERE)
import extract, vcheck
def run(unit, seed, outdir):
    path = os.path.join(outdir, unit + '.rs')
    cmd = ['verus', path, '--output-json', '--time', '--triggers-mode', 'silent', '--rlimit', '30', '--num-threads', '2',
           '--smt-option', 'smt.random_seed=%d' % seed, '--smt-option', 'sat.random_seed=%d' % seed]
    p = subprocess.run(cmd, capture_output=True, text=True, cwd=outdir, env=vcheck.cargo_env())
    try:
        d = json.loads(p.stdout)
    except Exception:
        return unit, seed, ['<no json>'], 0
    bad = []
    worst = 0
    if 'smt' not in d.get('times-ms', {}):
        return unit, seed, ['<not verified: %s>' % (p.stderr[-200:].replace('\n', ' '))], 0
    for m in d['times-ms']['smt']['smt-run-module-times']:
        for f in m.get('function-breakdown', []):
            worst = max(worst, f['time'])
            if not f['success']:
                bad.append(f['function'])
    return unit, seed, bad, worst
def main():
    args = sys.argv[1:]
    seeds = 4
    if args and args[0] == '--seeds':
        seeds = int(args[1]); args = args[2:]
    units = args or sorted({d.opt('unit') for d in vcheck.all_directives()})
    outdir = tempfile.mkdtemp(prefix='stab_', dir='/var/tmp')
    for u in units:
        extract.build_unit(vcheck.world(u), u, outdir)
    jobs = [(u, s) for u in units for s in range(1, seeds + 1)]
    brittle = 0
    with concurrent.futures.ThreadPoolExecutor(max_workers=7) as ex:
        for u, s, bad, worst in ex.map(lambda a: run(a[0], a[1], outdir), jobs):
            print('%-10s seed=%d worst_fn_ms=%6d %s' % (u, s, worst, 'FAIL ' + ','.join(bad) if bad else 'ok'), flush=True)
            brittle += 1 if bad else 0
    subprocess.run(['rm', '-rf', outdir])
    print('brittle runs: %d of %d' % (brittle, len(jobs)))
    return 1 if brittle else 0
if __name__ == '__main__':
    sys.exit(main())
