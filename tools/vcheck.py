#!/usr/bin/env python3
"""Runner: extract units from /repo's working tree, discharge them with Verus, classify the
outcome per property, write evidence.  (DESIGN.md §2.4)

exit 0  every obligation attributed to the property was discharged (known findings are printed)
exit 1  VIOLATION property=<id> replay=<path> [no-failing-input-found]
exit 2  UNDECIDED (tool error, unsupported construct, lost anchor, resource limit) — never an alarm
"""
import concurrent.futures
import fcntl
import glob
import hashlib
import json
import os
import re
import subprocess
import sys
import time

HERE = os.path.dirname(os.path.abspath(__file__))
VERIF = os.path.dirname(HERE)
sys.path.insert(0, HERE)
import extract  # noqa: E402

REPO = os.environ.get('VERIF_REPO', '/repo')
extract.REPO_SRC = os.path.join(REPO, 'src')
CACHE = os.path.join(VERIF, '.cache')
VERUS = os.environ.get('VERUS', 'verus')

VERIF_FAIL_MSGS = (
    'postcondition not satisfied', 'precondition not satisfied', 'assertion failed',
    'invariant not satisfied before loop', 'invariant not satisfied at end of loop body',
    'possible arithmetic underflow/overflow', 'possible division by zero', 'decreases not satisfied',
    'loop invariant not satisfied', 'possible bit shift underflow/overflow', 'recommendation not met',
    'unreachable', 'assertion failure', 'might not be allowed', 'not satisfied',
)
UNDECIDED_MSGS = ('Resource limit', 'rlimit', 'timed out', 'could not be proved due to a timeout')
PANIC_KINDS = ('precondition not satisfied', 'possible arithmetic underflow/overflow', 'possible division by zero')


def unit_worlds():
    p = os.path.join(VERIF, 'units.json')
    return json.load(open(p)) if os.path.exists(p) else {}


def world(unit=None):
    """template files of the world a unit lives in (world.json unless units.json says otherwise)"""
    wf = unit_worlds().get(unit, 'world.json') if unit else 'world.json'
    w = json.load(open(os.path.join(VERIF, wf)))
    return [os.path.join(VERIF, f) for f in w['files']]


def all_world_files():
    out = []
    for wf in ['world.json'] + sorted(set(unit_worlds().values())):
        w = json.load(open(os.path.join(VERIF, wf)))
        for f in w['files']:
            p = os.path.join(VERIF, f)
            if p not in out:
                out.append(p)
    return out


def all_directives():
    out = []
    seen = set()
    for wf in ['world.json'] + sorted(set(unit_worlds().values())):
        w = json.load(open(os.path.join(VERIF, wf)))
        own_units = {u for u, x in unit_worlds().items() if x == wf}
        for f in w['files']:
            for seg in extract.parse_template(os.path.join(VERIF, f)):
                if not isinstance(seg, str) and seg.kind in ('fn', 'block'):
                    u = seg.opt('unit')
                    # a directive belongs to the world its unit is mapped to
                    if unit_worlds().get(u, 'world.json') != wf:
                        continue
                    key = (f, seg.line_no)
                    if key not in seen:
                        seen.add(key)
                        out.append(seg)
    return out


def dir_name(d):
    return d.args[1] if d.kind == 'fn' else d.args[2]


def units_for(prop):
    us = []
    for d in all_directives():
        if prop in (d.opt('props', '') or '').split(','):
            u = d.opt('unit')
            if u not in us:
                us.append(u)
    return us


def tree_hash():
    h = hashlib.sha256()
    files = sorted(glob.glob(os.path.join(REPO, 'src', '**', '*.rs'), recursive=True))
    files += all_world_files()
    files += sorted(glob.glob(os.path.join(HERE, '*.py')))
    files.append(os.path.join(VERIF, 'world.json'))
    for f in files:
        h.update(f.encode())
        with open(f, 'rb') as fh:
            h.update(fh.read())
    h.update(os.environ.get('VERIF_RLIMIT', '').encode())
    return h.hexdigest()[:20]


def cargo_env():
    """env!("CARGO_PKG_NAME") / env!("CARGO_PKG_VERSION") in the extracted code: taken from /repo/Cargo.toml as cargo would set them"""
    env = dict(os.environ)
    try:
        txt = open(os.path.join(REPO, 'Cargo.toml')).read()
        m = re.search(r'^name\s*=\s*"([^"]+)"', txt, re.M)
        v = re.search(r'^version\s*=\s*"([^"]+)"', txt, re.M)
        env['CARGO_PKG_NAME'] = m.group(1) if m else 'unknown'
        env['CARGO_PKG_VERSION'] = v.group(1) if v else '0.0.0'
    except OSError:
        pass
    return env


def run_verus(path, rlimit, nthreads=4, seed=None):
    cmd = [VERUS, path, '--output-json', '--time', '--triggers-mode', 'silent', '--multiple-errors', '8',
           '--rlimit', str(rlimit), '--num-threads', str(nthreads)]
    if seed is not None:
        cmd += ['--smt-option', 'smt.random_seed=%d' % seed, '--smt-option', 'sat.random_seed=%d' % seed]
    cmd += ['--', '--error-format=json']
    t0 = time.time()
    p = subprocess.run(cmd, capture_output=True, text=True, cwd=os.path.dirname(path), env=cargo_env())
    wall = time.time() - t0
    out = None
    try:
        out = json.loads(p.stdout)
    except Exception:
        out = None
    diags = []
    raw_err = []
    for l in p.stderr.split('\n'):
        l = l.strip()
        if not l:
            continue
        try:
            d = json.loads(l)
            if isinstance(d, dict) and '$message_type' in d:
                diags.append(d)
            else:
                raw_err.append(l)
        except Exception:
            raw_err.append(l)
    return {'rc': p.returncode, 'json': out, 'diags': diags, 'raw': raw_err, 'wall': wall, 'cmd': ' '.join(cmd)}


def classify_diag(d):
    msg = d.get('message', '')
    if d.get('level') not in ('error',):
        return None
    if msg.startswith('aborting due to'):
        return None
    for u in UNDECIDED_MSGS:
        if u in msg:
            return 'undecided'
    for m in VERIF_FAIL_MSGS:
        if m in msg:
            return 'verif'
    return 'tool'


def locate_fn(linemap, line):
    for e in linemap:
        if e['start'] <= line <= e['end']:
            return e
    return None


import threading
EXTRACT_LOCK = threading.Lock()
# assumed functions every reply passes through: when their pinned text changes, every witness script of the property is a candidate
GLOBAL_ASSUMED = ('Reply::fmt', 'MainState::feed_msg', 'MainState::feed_msg_source')


def process_unit(unit, outdir, rlimit):
    """extract + verify + canary; returns result dict (also written to outdir/unit.result.json)."""
    res = {'unit': unit, 'status': 'ok', 'errors': [], 'undecided': [], 'fn_results': {}, 'smt_ms': 0,
           'wall_s': 0.0, 'canary': {}, 'verus_cmd': ''}
    t0 = time.time()
    try:
        # the extractor keeps per-world registries in module globals: one extraction at a time (verification runs in parallel)
        with EXTRACT_LOCK:
            path, report = extract.build_unit(world(unit), unit, outdir)
            cpath, cnames = extract.build_canary_unit(world(unit), unit, outdir)
    except extract.ExtractError as e:
        res['status'] = 'undecided'
        res['undecided'].append('extract: %s' % e)
        res['wall_s'] = time.time() - t0
        return res
    res['report'] = report
    for pm in report.get('pin_mismatch', []):
        res['status'] = 'undecided'
        res['undecided'].append('extract: %s' % pm)
    proved_somewhere = {dir_name(d).split('::')[-1] for d in all_directives()}
    res['trusted_scan'] = [t for t in scan_trusted(path) if not (t.startswith('assumed contract (external_body fn) ') and t.split()[-1] in proved_somewhere)]
    src_lines = open(path).read().split('\n')
    with concurrent.futures.ThreadPoolExecutor(max_workers=2) as ex:
        f1 = ex.submit(run_verus, path, rlimit)
        f2 = ex.submit(run_verus, cpath, rlimit)
        r = f1.result()
        rc = f2.result()
    # A proof found under ANY solver seed is a proof (soundness does not depend on the seed); a failure that does not reproduce under
    # other seeds is solver instability, not a violation. So a run with failed obligations is repeated under up to 3 other seeds and
    # the first run in which every obligation is discharged counts; only an obligation that fails under every seed is reported.
    res['seed_retries'] = []
    def _has_verif_failure(rr):
        return any(classify_diag(d) in ('verif', 'undecided') for d in rr['diags'])
    if r['json'] and _has_verif_failure(r) and not any(classify_diag(d) == 'tool' for d in r['diags']):
        for sd in (1, 2, 3):
            r2 = run_verus(path, rlimit, seed=sd)
            ok2 = bool(r2['json']) and not any(classify_diag(d) for d in r2['diags'])
            res['seed_retries'].append({'seed': sd, 'all_discharged': ok2})
            if ok2:
                res['unstable_under_default_seed'] = True
                r = r2
                break
    res['verus_cmd'] = r['cmd']
    res['verus_version'] = (r['json'] or {}).get('verus', {})
    linemap = report['linemap']
    tags = {int(k): v for k, v in report['tags'].items()}
    # per-function smt results
    if r['json']:
        vr = r['json'].get('verification-results', {})
        res['verified'] = vr.get('verified'); res['n_errors'] = vr.get('errors')
        tm = r['json'].get('times-ms', {})
        res['smt_ms'] = (tm.get('smt') or {}).get('total', 0)
        res['total_ms'] = tm.get('total', 0)
        for mod in (tm.get('smt') or {}).get('smt-run-module-times', []):
            for fb in mod.get('function-breakdown', []):
                res['fn_results'][fb['function']] = {'ms': fb['time'], 'rlimit': fb['rlimit'], 'success': fb['success']}
        if vr.get('encountered-vir-error') or (vr.get('encountered-error') and not vr.get('errors')):
            pass
    else:
        res['status'] = 'undecided'
        res['undecided'].append('verus produced no JSON result (rc=%s): %s' % (r['rc'], ' | '.join(r['raw'][:5])))
    for d in r['diags']:
        k = classify_diag(d)
        if k is None:
            continue
        spans = d.get('spans', [])
        if k == 'tool':
            res['status'] = 'undecided'
            loc = ''
            for s in spans:
                if s.get('is_primary'):
                    fe = locate_fn(linemap, s['line_start'])
                    loc = ' at %s:%d (%s)' % (os.path.basename(s['file_name']), s['line_start'], fe['fn'] if fe else '-')
            res['undecided'].append('tool error: %s%s' % (d['message'][:300], loc))
            continue
        if k == 'undecided':
            res['status'] = 'undecided' if res['status'] != 'failed' else res['status']
            fnn = ''
            for s in spans:
                fe = locate_fn(linemap, s['line_start'])
                if fe:
                    fnn = fe['fn']
            res['undecided'].append('resource limit: %s %s' % (d['message'][:200], fnn))
            continue
        # verification failure: find the proved function it belongs to and the clause tags
        fn_entry = None
        clause_tags = []
        clause_text = ''
        site_text = ''
        foreign_clause = False
        base = os.path.basename(path)
        for s in spans:
            in_unit = os.path.basename(s['file_name']) == base
            label = s.get('label') or ''
            txt = s['text'][0]['text'].strip() if s.get('text') else ''
            if in_unit:
                fe = locate_fn(linemap, s['line_start'])
                is_clause = ('failed this' in label) or ('failed precondition' in label) or (s.get('is_primary') and 'not satisfied' in d['message'] and 'postcondition' not in d['message'] and 'precondition' not in d['message'])
                if ('failed this' in label) or ('failed precondition' in label) or (s.get('is_primary') and (
                        d['message'].startswith('invariant not satisfied') or d['message'].startswith('assertion failed')
                        or (d['message'].startswith('precondition not satisfied') and s['line_end'] - s['line_start'] < 3))):
                    for ln in range(s['line_start'], s['line_end'] + 1):
                        clause_tags += tags.get(ln, [])
                    clause_text = txt
                if fe and fe['proved_here']:
                    if not (('failed this' in label or 'failed precondition' in label) and fn_entry is not None):
                        # prefer the span that is the call site / exit over the clause span of a *callee*
                        if fn_entry is None or 'failed' not in label:
                            fn_entry = fe
                    if 'failed' not in label:
                        site_text = txt
            else:
                if 'failed precondition' in label or 'failed this' in label:
                    foreign_clause = True
                    clause_text = txt
        # a precondition span may lie in a stub (not proved here); then fn_entry comes from the call-site span
        kind = d['message']
        if fn_entry is None:
            res['status'] = 'undecided'
            res['undecided'].append('failure outside any function under contract: %s' % d['message'][:200])
            continue
        err = {'fn': fn_entry['fn'], 'kind': kind, 'clause': clause_text, 'site': site_text,
               'tags': sorted(set(clause_tags)), 'props': fn_entry['props'], 'rendered': d.get('rendered', '')[:3000],
               'panic_kind': kind in PANIC_KINDS and not re.search(r'\blemma_|^proof\b|^assert', site_text)}
        res['errors'].append(err)
        res['status'] = 'failed'
    # any function reported unsuccessful without a diagnostic → undecided
    # canaries
    bad = []
    cd_by_line = []
    for d in rc['diags']:
        if d.get('level') == 'error' and 'assertion failed' in d.get('message', ''):
            for s in d.get('spans', []):
                cd_by_line.append(s['line_start'])
    tool_err = [d['message'] for d in rc['diags'] if classify_diag(d) == 'tool']
    if tool_err or not rc['json']:
        res['canary']['status'] = 'tool-error'
        res['canary']['detail'] = tool_err[:3] + rc['raw'][:3]
        res['status'] = 'undecided' if res['status'] == 'ok' else res['status']
        res['undecided'].append('canary unit did not compile: %s' % (tool_err[:2] + rc['raw'][:2]))
    else:
        for c in cnames:
            if not any(c['start'] <= ln <= c['end'] for ln in cd_by_line):
                bad.append(c['fn'])
        res['canary'] = {'status': 'ok' if not bad else 'vacuous', 'checked': len(cnames), 'vacuous': bad}
        if bad:
            res['status'] = 'undecided'
            res['undecided'].append('BROKEN-CHECK vacuous precondition in: %s' % ', '.join(bad))
    res['wall_s'] = time.time() - t0
    return res


def get_unit_result(unit, key, rlimit):
    d = os.path.join(CACHE, key)
    os.makedirs(d, exist_ok=True)
    rp = os.path.join(d, '%s.r%d.result.json' % (unit, rlimit))
    if rlimit > 30 and os.path.exists(os.path.join(d, '%s.r30.result.json' % unit)):
        # a unit fully verified within the smaller resource limit needs no second run under the larger one
        r0 = json.load(open(os.path.join(d, '%s.r30.result.json' % unit)))
        if r0.get('status') == 'ok':
            r0['cached'] = True
            return r0
    lock = open(os.path.join(d, unit + '.lock'), 'w')
    fcntl.flock(lock, fcntl.LOCK_EX)
    try:
        if os.path.exists(rp):
            r = json.load(open(rp))
            r['cached'] = True
            return r
        r = process_unit(unit, d, rlimit)
        with open(rp, 'w') as f:
            json.dump(r, f, indent=1)
        r['cached'] = False
        return r
    finally:
        fcntl.flock(lock, fcntl.LOCK_UN)
        lock.close()


def prune_cache(keep):
    if not os.path.isdir(CACHE):
        return
    ents = sorted((os.path.getmtime(os.path.join(CACHE, e)), e) for e in os.listdir(CACHE))
    for _, e in ents[:-4]:
        if e != keep:
            subprocess.run(['rm', '-rf', os.path.join(CACHE, e)])


def load_known():
    p = os.path.join(VERIF, 'known_findings.json')
    if os.path.exists(p):
        return json.load(open(p))
    return {'findings': [], 'fixed': []}


def finding_matches(f, prop, err):
    if f['property'] != prop:
        return False
    if f.get('function') and f['function'] != err['fn']:
        return False
    if f.get('kind') and f['kind'] not in err['kind']:
        return False
    fp = f.get('expr_fingerprint')
    if fp:
        blob = re.sub(r'\s+', '', err.get('site', '') + '|' + err.get('clause', ''))
        if re.sub(r'\s+', '', fp) not in blob:
            return False
    return True


def err_props(err):
    """properties an error is attributed to"""
    ps = set(err['tags']) if err['tags'] else (set(err['props']) - {'C05'})   # C05 is about panics only
    if err['panic_kind'] and not err['tags']:
        ps.add('C05')
        ps |= set(err['props'])
    return ps


def scan_assumptions(units_reports):
    """mechanical scan of the generated text for trusted constructs"""
    found = {}
    for key in ('assume(', 'admit(', 'external_body', 'assume_specification', 'axiom fn', 'uninterp spec fn'):
        found[key] = 0
    return found


def main(argv):
    import argparse
    ap = argparse.ArgumentParser()
    ap.add_argument('prop')
    ap.add_argument('--tier', default=os.environ.get('VERIF_TIER', 'quick'))
    ap.add_argument('--replay')
    a = ap.parse_args(argv)
    prop = a.prop
    tier = a.tier if a.tier in ('quick', 'thorough') else 'quick'
    if a.replay:
        # re-run the input recorded in a replay file against the real code built from the current tree: a witness script over TCP,
        # or (no concrete input recorded) the obligations themselves
        try:
            rec = json.load(open(a.replay))
        except Exception as e:
            print('UNDECIDED cannot read replay file: %s' % e)
            return 2
        w = rec.get('witness')
        if w and w.get('path') and os.path.exists(os.path.join(VERIF, 'replay', 'witness', os.path.basename(w['path']))):
            w['path'] = os.path.join(VERIF, 'replay', 'witness', os.path.basename(w['path']))
            rr = run_replay(w)
            print(rr.get('output', '')[-1500:])
            if rr.get('reproduced'):
                print('VIOLATION property=%s replay=%s' % (prop, a.replay))
                return 1
            print('OK property=%s replay: the recorded script does not show the bad behaviour on this tree' % prop)
            return 0
    t0 = time.time()
    seed = int(os.environ.get('VERIF_SEED', '0') or 0)
    meta = json.load(open(os.path.join(VERIF, 'props_meta.json')))
    if prop not in meta:
        print('UNDECIDED property %s is not claimed' % prop)
        return 2
    rlimit = 30 if tier == 'quick' else 120
    os.environ['VERIF_RLIMIT'] = str(rlimit)
    try:
        units = units_for(prop)
        if tier == 'thorough':
            # all units: a broken callee contract anywhere is relevant
            for d in all_directives():
                if d.opt('unit') not in units:
                    units.append(d.opt('unit'))
        key = tree_hash()
    except extract.ExtractError as e:
        print('UNDECIDED template error: %s' % e)
        return 2
    with concurrent.futures.ThreadPoolExecutor(max_workers=8) as ex:
        results = list(ex.map(lambda u: get_unit_result(u, key, rlimit), units))
    prune_cache(key)
    known = load_known()
    allow_p = os.path.join(VERIF, 'trusted_allowlist.json')
    allow = set(json.load(open(allow_p))) if os.path.exists(allow_p) else None
    violations = []
    known_hits = []
    undecided = []
    fns = []
    n_obl = 0
    n_dis = 0
    smt_ms = 0
    samples = []
    trusted = []
    own_units = units_for(prop)
    for r in results:
        if allow is not None and r['unit'] in units_for(prop):
            extra = [t for t in r.get('trusted_scan', []) if t not in allow and not t.startswith('opaque region')]
            if extra:
                undecided.append('%s: trusted construct not in trusted_allowlist.json: %s' % (r['unit'], ', '.join(sorted(set(extra))[:5])))
    for r in results:
        smt_ms += r.get('smt_ms', 0)
        if r['status'] == 'undecided' and (r['unit'] in own_units):
            undecided += ['%s: %s' % (r['unit'], u) for u in r['undecided']]
        for e in r['errors']:
            if prop in err_props(e):
                hit = None
                for f in known['findings']:
                    if finding_matches(f, prop, e):
                        hit = f
                        break
                if hit:
                    known_hits.append((hit, e))
                else:
                    violations.append((r['unit'], e))
        rep = r.get('report')
        if not rep:
            continue
        failed_fns = {}
        for e in r['errors']:
            failed_fns.setdefault(e['fn'], []).append(e)
        for f in rep['fns']:
            if prop not in f['props']:
                continue
            if f['proved_here']:
                nob = f.get('ensures', 0) + f.get('invariants', 0) + f.get('builtin_sites', 0) + f.get('call_site_preconditions', 0) + 1
                errs = [e for e in failed_fns.get(f['fn'], []) if prop in err_props(e)]
                nknown = sum(1 for e in errs if any(finding_matches(kf, prop, e) for kf in known['findings']))
                nfail = len(errs) - nknown
                nob -= nknown   # obligations listed as known findings are reported separately, not counted
                n_obl += nob
                n_dis += max(0, nob - nfail) if r['status'] != 'undecided' else 0
                fns.append({'fn': f['fn'], 'file': f['file'], 'unit': r['unit'],
                            'text': 'verbatim' if f.get('verbatim') else 'rules ' + json.dumps(f.get('rules', {})),
                            'source_sha': f['sha'], 'obligations': nob,
                            'lock_acquisitions': f.get('lock_acquisitions')})
            elif f['unit'] not in units:
                trusted.append('assumed contract (not proved in the units of this run): %s' % f['fn'])
        if r['unit'] in own_units:
            trusted += r.get('trusted_scan', [])
    # samples: a few obligations written out
    for d in all_directives():
        if prop in (d.opt('props', '') or '').split(',') and len(samples) < 6:
            for n, _, t in d.sections:
                if n == 'spec':
                    cl = [x.strip() for x in t if '@prop' in x and prop in x]
                    for c in cl[:2]:
                        samples.append({'function': dir_name(d), 'clause': c[:300]})
    # ---- thorough tier: replay the witness scripts of this property on the real server, re-verify under other solver seeds
    witness_runs = []
    seed_runs = []
    if tier == 'thorough' and not violations and not undecided:
        wd = os.path.join(VERIF, 'replay', 'witness')
        known_w = {f.get('witness') for f in known['findings']}
        for wp in sorted(glob.glob(os.path.join(wd, '*.json'))):
            w = json.load(open(wp))
            if prop not in w.get('properties', []):
                continue
            w['path'] = wp
            rr = run_replay(w)
            rel = os.path.relpath(wp, VERIF)
            witness_runs.append({'witness': rel, 'reproduced': rr.get('reproduced'), 'known_finding': rel in known_w})
            if rr.get('reproduced') and rel not in known_w:
                violations.append(('replay', {'fn': w.get('function', '?'), 'kind': 'witness replay reproduces on the real server',
                                              'clause': w.get('what', ''), 'site': rel, 'rendered': rr.get('output', ''), 'tags': [prop],
                                              'props': [prop], 'panic_kind': False, 'replayed': True}))
        # solver-seed sweep (information only: a proof that fails under another seed is brittle, not a violation); cached per tree
        try:
            import tempfile
            cdir = os.path.join(VERIF, '.cache', key)
            os.makedirs(cdir, exist_ok=True)
            def _sweep(job):
                u, sdv = job
                cp = os.path.join(cdir, 'sweep_%s_%d_r%d.json' % (u, sdv, rlimit))
                if os.path.exists(cp):
                    return json.load(open(cp))
                sd = tempfile.mkdtemp(prefix='verif_seeds_', dir='/var/tmp')
                try:
                    with EXTRACT_LOCK:
                        pth, _ = extract.build_unit(world(u), u, sd)
                    cmd = [VERUS, pth, '--output-json', '--triggers-mode', 'silent', '--rlimit', str(rlimit), '--num-threads', '2',
                           '--smt-option', 'smt.random_seed=%d' % sdv, '--smt-option', 'sat.random_seed=%d' % sdv]
                    pr = subprocess.run(cmd, capture_output=True, text=True, cwd=sd, env=cargo_env())
                    try:
                        vr = json.loads(pr.stdout)['verification-results']
                        res_ = {'unit': u, 'seed': sdv, 'verified': vr.get('verified'), 'errors': vr.get('errors')}
                    except Exception:
                        res_ = {'unit': u, 'seed': sdv, 'verified': None, 'errors': None}
                    json.dump(res_, open(cp, 'w'))
                    return res_
                finally:
                    subprocess.run(['rm', '-rf', sd])
            jobs = [(u, sdv) for u in own_units for sdv in (1 + seed, 2 + seed)]
            with concurrent.futures.ThreadPoolExecutor(max_workers=6) as ex2:
                seed_runs = list(ex2.map(_sweep, jobs))
        except Exception as e:  # never let the sweep decide anything
            seed_runs.append({'error': str(e)})
    # ---- bounded stand-ins (Kani) for functions outside the deductive verifier's reach: labelled bounded, never counted as proved
    bounded_runs = []
    for bc in meta[prop].get('bounded_checks', []):
        n = bc['n_thorough'] if tier == 'thorough' else bc['n_quick']
        cdir = os.path.join(VERIF, '.cache', key)
        os.makedirs(cdir, exist_ok=True)
        cp = os.path.join(cdir, 'bounded_%s_%d.json' % (bc['id'], n))
        if os.path.exists(cp):
            br = json.load(open(cp)); br['cached'] = True
        else:
            try:
                pb = subprocess.run([sys.executable, os.path.join(VERIF, bc['script']), str(n)], capture_output=True, text=True, timeout=3000)
                last = [l for l in pb.stdout.strip().split('\n') if l.strip()][-1] if pb.stdout.strip() else ''
                br = json.loads(last) if last.startswith('{') else {'ok': False, 'failed': False, 'note': (pb.stdout + pb.stderr)[-400:]}
                br['rc'] = pb.returncode
            except Exception as e:
                br = {'ok': False, 'failed': False, 'note': str(e), 'rc': 2}
            br['cached'] = False
            if br.get('ok') or br.get('failed'):
                json.dump(br, open(cp, 'w'))
        br['id'] = bc['id']; br['function'] = bc['function']; br['tool'] = bc.get('tool', 'kani')
        bounded_runs.append(br)
        if br.get('failed'):
            e = {'fn': bc['function'], 'kind': 'bounded check failed (Kani, %s)' % br.get('bound', ''), 'clause': '; '.join(br.get('failed_checks', []))[:300],
                 'site': 'counterexample %r' % br.get('counterexample_text', ''), 'rendered': br.get('tail', '')[-1500:],
                 'replayed': bool(br.get('replayed_natively')), 'input': br.get('counterexample_text')}
            violations.append(('kani:' + bc['id'], e))
        elif not br.get('ok'):
            undecided.append('bounded check %s could not be run: %s' % (bc['id'], (br.get('note') or br.get('tail') or '')[-200:]))
    wall = time.time() - t0
    status = 0
    out_lines = []
    for hit, e in known_hits:
        out_lines.append('KNOWN-FINDING: property=%s %s' % (prop, hit['what']))
    replay_dir = os.path.join(VERIF, 'evidence', 'replay')
    if undecided and not violations:
        # The verifier could not ingest / decide the current text (exit 2 territory). Before giving up, the witness scripts of this
        # property - concrete histories written for defects of exactly this kind - are played against the real server built from
        # this tree: a script whose bad behaviour SHOWS is a failing input on the real code, i.e. a violation with a replayed input;
        # if none shows, the answer stays UNDECIDED (never an alarm).
        wd = os.path.join(VERIF, 'replay', 'witness')
        known_w = {f.get('witness') for f in known['findings']}
        und_fns = ' '.join(undecided)
        tried_u = []
        for wp in sorted(glob.glob(os.path.join(wd, '*.json'))):
            w = json.load(open(wp))
            if prop not in w.get('properties', []) or os.path.relpath(wp, VERIF) in known_w:
                continue
            # only scripts about a function that is among the undecided ones
            # (a change inside the rendering of the replies or inside feed_msg concerns every script: they all read replies)
            if not any(g in und_fns for g in GLOBAL_ASSUMED) and not any(fn.split('::')[-1] in und_fns for fn in [w.get('function', '')] + w.get('functions', []) if fn):
                continue
            w['path'] = wp
            rr = run_replay(w)
            tried_u.append({'witness': os.path.basename(wp), 'reproduced': rr.get('reproduced')})
            if rr.get('reproduced'):
                e = {'fn': w.get('function', '?'), 'kind': 'witness script reproduces on the real server while the proof is undecided (%s)' % '; '.join(undecided)[:200],
                     'clause': w.get('what', '')[:300], 'site': os.path.basename(wp), 'rendered': rr.get('output', '')[-1500:], 'replayed': True,
                     'input': json.dumps(w.get('script'))[:1500]}
                violations.append(('replay', e))
                break
            if len(tried_u) >= (12 if any(g in und_fns for g in GLOBAL_ASSUMED) else 4):
                break
        if not violations:
            for u in undecided:
                out_lines.append('UNDECIDED %s' % u)
            if tried_u:
                out_lines.append('UNDECIDED witness scripts played on the real server, none shows the bad behaviour: %s' % ', '.join(t['witness'] for t in tried_u))
            status = 2
    if violations:
        os.makedirs(replay_dir, exist_ok=True)
        rp = os.path.join(replay_dir, '%s.json' % prop)
        # candidate inputs for the failed obligations: every witness script of that function is played against the real server
        # built from this tree; the first one that shows the bad behaviour is the replayed counterexample
        witness = None
        replayed = None
        tried = []
        for w in find_witnesses(prop, violations)[:4]:
            rr = run_replay(w)
            tried.append({'witness': os.path.basename(w['path']), 'reproduced': rr.get('reproduced')})
            witness, replayed = w, rr
            if rr.get('reproduced'):
                break
        rec = {'property': prop, 'failed_obligations': [
            {'unit': u, 'function': e['fn'], 'kind': e['kind'], 'clause': e['clause'], 'site': e['site'],
             'verifier_output': e['rendered'], **({'counterexample_input': e['input'], 'replayed_on_real_code': e.get('replayed')} if e.get('input') is not None else {})} for u, e in violations],
            'witness': witness, 'witnesses_tried': tried}
        if witness:
            rec['replay_result'] = replayed
        with open(rp, 'w') as f:
            json.dump(rec, f, indent=1)
        suffix = '' if ((replayed and replayed.get('reproduced')) or any(e.get('replayed') for _, e in violations)) else ' no-failing-input-found'
        for u, e in violations[:10]:
            out_lines.append('FAILED-OBLIGATION property=%s unit=%s fn=%s kind="%s" clause="%s" site="%s"' % (
                prop, u, e['fn'], e['kind'], e['clause'][:120], e['site'][:120]))
        out_lines.append('VIOLATION property=%s replay=%s%s' % (prop, rp, suffix))
        status = 1
    # evidence
    m = meta[prop]
    ev = {
        'property_id': prop, 'tier': tier, 'seed': seed, 'level': 'proof',
        'coverage': {
            'obligations': n_obl, 'discharged': n_dis,
            'checker_cmd': 'verus <unit>.rs --output-json --time --rlimit %d  (units: %s; Verus %s, Z3)' % (
                rlimit, ', '.join(units), json.dumps((results[0].get('verus_version') or {}).get('version', '?')) if results else '?'),
            'trusted_base': sorted(set(trusted + m.get('trusted_base', []) + common_trusted())),
            'functions_under_contract': fns,
            'units': [{'unit': r['unit'], 'status': r['status'], 'verified_items': r.get('verified'), 'errors': r.get('n_errors'),
                       'smt_ms': r.get('smt_ms'), 'wall_s': round(r.get('wall_s', 0), 2), 'cached': r.get('cached'),
                       'canary': r.get('canary'), 'seed_retries': r.get('seed_retries', []),
                       'unstable_under_default_seed': bool(r.get('unstable_under_default_seed'))} for r in results],
            'solver_time_ms': smt_ms,
            'samples': samples,
            'rule': 'obligations = ensures clauses + loop invariant clauses + built-in no-panic sites (unwrap/index/slice/arithmetic) + call sites of contracted functions that carry a precondition + 1 (termination / remaining call preconditions) per function, counted by the weaver on the extracted text of this run',
            'not_covered': m.get('not_covered', []),
            'bounded': m.get('bounded', []) + [{'function': b['function'], 'tool': b['tool'], 'bound': b.get('bound'), 'ok': b.get('ok'), 'wall_s': b.get('wall_s'), 'cached': b.get('cached'),
                                                'note': 'BOUNDED stand-in, not counted among the discharged obligations'} for b in bounded_runs],
        },
        'assumptions': m.get('assumptions', []) + ['rewrite rules applied by the extractor (R1 lock elision = handler body is one atomic step; R2 opaque errors; R3 logging dropped; R6 ghost outbox)'],
        'wall_s': round(wall, 2),
        'violations': len(violations),
        'known_findings_reported': [h['what'] for h, _ in known_hits],
        'witness_replays': witness_runs,
        'solver_seed_sweep': seed_runs,
        'undecided': undecided,
    }
    os.makedirs(os.path.join(VERIF, 'evidence'), exist_ok=True)
    with open(os.path.join(VERIF, 'evidence', prop + '.json'), 'w') as f:
        json.dump(ev, f, indent=1)
    for l in out_lines:
        print(l)
    if status == 0:
        print('OK property=%s tier=%s obligations=%d discharged=%d units=%s wall=%.1fs' % (prop, tier, n_obl, n_dis, ','.join(units), wall))
        if n_obl == 0 or n_obl != n_dis:
            print('UNDECIDED obligation count mismatch (vacuity guard): obligations=%d discharged=%d' % (n_obl, n_dis))
            return 2
    return status


def scan_trusted(path):
    """mechanical scan of a generated unit for everything that is assumed rather than proved"""
    out = []
    try:
        txt = open(path).read()
    except OSError:
        return out
    for m in re.finditer(r'broadcast axiom fn\s+(\w+)', txt):
        out.append('axiom ' + m.group(1))
    for m in re.finditer(r'assume_specification(?:<[^\[]*>)?\s*\[([^\]]+)\]', txt):
        out.append('assumed std spec ' + re.sub(r'\s+', '', m.group(1)))
    for m in re.finditer(r'uninterp spec fn\s+(\w+)', txt):
        out.append('uninterpreted ' + m.group(1))
    for m in re.finditer(r'#\[verifier::external_body\]\s*(?:#\[[^\]]*\]\s*)*(?:pub\s+)?(?:async\s+)?(fn|struct)\s+(\w+)', txt):
        out.append(('assumed contract (external_body fn) ' if m.group(1) == 'fn' else 'opaque external type ') + m.group(2))
    for m in re.finditer(r'\bassume\s*\(|\badmit\s*\(', txt):
        out.append('ASSUME/ADMIT in text at offset %d' % m.start())
    for m in re.finditer(r'// \[R17\] opaque region \((\d+) lines not verified\)', txt):
        out.append('opaque region R17 (%s lines not verified)' % m.group(1))
    return out


def common_trusted():
    return ['extraction rules R1..R20 as counted per function (tools/extract.py)', 'Verus 0.2026.09.13 + Z3 + vstd']


def find_witnesses(prop, violations):
    """witness scripts attached to known patterns (replay/witness/*.json): matched by property+function; all matches, in name order"""
    wd = os.path.join(VERIF, 'replay', 'witness')
    out = []
    if not os.path.isdir(wd):
        return out
    for p in sorted(glob.glob(os.path.join(wd, '*.json'))):
        w = json.load(open(p))
        for u, e in violations:
            if prop in w.get('properties', []) and e['fn'] in ([w.get('function')] + w.get('functions', [])) and (
                    not w.get('kind') or w['kind'] in e['kind']) and (
                    not w.get('expr') or re.sub(r'\s+', '', w['expr']) in re.sub(r'\s+', '', e['site'] + '|' + e['clause'])):
                w['path'] = p
                out.append(w)
                break
    return out


def find_witness(prop, violations):
    """witness scripts attached to known patterns (replay/witness/*.json): matched by property+function"""
    wd = os.path.join(VERIF, 'replay', 'witness')
    if not os.path.isdir(wd):
        return None
    for p in sorted(glob.glob(os.path.join(wd, '*.json'))):
        w = json.load(open(p))
        for u, e in violations:
            if prop in w.get('properties', []) and e['fn'] in ([w.get('function')] + w.get('functions', [])) and (
                    not w.get('kind') or w['kind'] in e['kind']) and (
                    not w.get('expr') or re.sub(r'\s+', '', w['expr']) in re.sub(r'\s+', '', e['site'] + '|' + e['clause'])):
                w['path'] = p
                return w
    return None


def run_replay(w):
    drv = os.path.join(VERIF, 'replay', 'driver.py')
    if not os.path.exists(drv):
        return {'reproduced': False, 'note': 'no replay driver'}
    try:
        p = subprocess.run([sys.executable, drv, w['path']], capture_output=True, text=True, timeout=600)
        ok = p.returncode == 1  # driver exits 1 when the witness fails against the real code
        runs = 1
        # a script talks to a live server over TCP with fixed waits: a misbehaviour counts only if it shows in three runs out of three
        while ok and runs < 3:
            p2 = subprocess.run([sys.executable, drv, w['path']], capture_output=True, text=True, timeout=600)
            runs += 1
            if p2.returncode != 1:
                ok = False
        return {'reproduced': ok, 'runs': runs, 'output': (p.stdout + p.stderr)[-3000:]}
    except Exception as e:
        return {'reproduced': False, 'note': str(e)}


if __name__ == '__main__':
    try:
        rc = main(sys.argv[1:])
    except SystemExit:
        raise
    except Exception as e:   # an internal error of the machinery is never an alarm
        import traceback
        traceback.print_exc()
        print('UNDECIDED internal error of the checker: %s' % e)
        rc = 2
    sys.exit(rc)
