#!/usr/bin/env python3
"""DELIBERATE maintenance step (never run by a check): adds the trusted constructs found in the cached unit results to trusted_allowlist.json"""
import json, glob
p = '/verif/trusted_allowlist.json'
allow = set(json.load(open(p)))
before = len(allow)
for r in glob.glob('/verif/.cache/*/*.result.json'):
    allow |= set(t for t in json.load(open(r)).get('trusted_scan', []) if not t.startswith('opaque region'))
json.dump(sorted(allow), open(p, 'w'), indent=1)
print('allow-list: %d -> %d entries' % (before, len(allow)))
