#!/usr/bin/env python3
"""writes MANIFEST.json from props_meta.json (single source for levels / notes)"""
import json, os
V = os.path.dirname(os.path.dirname(os.path.abspath(__file__)))
meta = json.load(open(os.path.join(V, 'props_meta.json')))
na = json.load(open(os.path.join(V, 'not_applicable.json')))
checks = []
for pid in sorted(meta):
    m = meta[pid]
    checks.append({
        'property_id': pid,
        'quick_cmd': './bin/check %s --tier quick' % pid,
        'thorough_cmd': './bin/check %s --tier thorough' % pid,
        'evidence_file': 'evidence/%s.json' % pid,
        'replay_cmd_template': './bin/check %s --replay {path}' % pid,
        'engine': 'verus-contracts',
        'level_claimed': {'category': 'proof', 'text': m['level_text'], 'design_ref': m.get('design_ref', 'DESIGN.md §4 ' + pid)},
        'level_note': m['level_note'],
        'technique': m.get('technique', 'contract-based deductive verification (Verus/Z3) of the real functions, extracted mechanically from /repo on every run'),
    })
man = {
    'version': 1,
    'setup_cmd': 'python3 tools/selfcheck.py',
    'hooks': {'guard': 'none (no source hooks: contracts are woven into a mechanical extraction outside /repo)',
              'enable': 'not needed: bin/check reads /repo/src from the working tree on every run',
              'baseline_off_cmd': 'cd /repo && cargo test --workspace --no-fail-fast --offline',
              'source_commits': [], 'add_only': True},
    'engines': [{'name': 'verus-contracts', 'path': 'tools/vcheck.py', 'serves_properties': sorted(meta),
                 'kind_free_text': 'mechanical extractor + contract weaver (tools/extract.py), Verus 0.2026.09.13 (Z3) as the deductive back end, canary vacuity guard'}],
    'checks': checks,
    'notes': 'exit 0 = all obligations of the property discharged; exit 1 = VIOLATION; exit 2 = UNDECIDED (tool limit / lost anchor), never an alarm. See DESIGN.md.',
    'not_applicable': na,
}
json.dump(man, open(os.path.join(V, 'MANIFEST.json'), 'w'), indent=1)
print('MANIFEST.json written: %d checks, %d not applicable' % (len(checks), len(na)))
