#!/usr/bin/env python3
"""setup: verify the tool chain is present (nothing to build; everything is interpreted)"""
import shutil, subprocess, sys
ok = True
for t in ('verus',):
    if not shutil.which(t):
        print('missing tool', t); ok = False
if ok:
    p = subprocess.run(['verus', '--version'], capture_output=True, text=True)
    print(p.stdout.strip().split('\n')[0])
sys.exit(0 if ok else 1)
