#!/usr/bin/env python3
"""runs the repository test-suite (guard off; there is no guard) and compares with the 38 stable tests of BASELINE.json"""
import json, re, subprocess, sys
b = json.load(open('/root/.vp/BASELINE.json'))
stable = [s.split('::', 2)[2].replace('bin/simple-irc-server::', '') for s in b['stable_pass']]
p = subprocess.run('cd /repo && cargo test --workspace --no-fail-fast --offline 2>&1', shell=True, capture_output=True, text=True)
res = {}
for l in p.stdout.split('\n'):
    m = re.match(r'test (\S+) \.\.\. (\w+)', l)
    if m:
        res[m.group(1)] = m.group(2)
bad = [s for s in stable if res.get(s) != 'ok']
print('%d stable tests, failing: %s; %d ok of %d run' % (len(stable), bad, sum(1 for v in res.values() if v == 'ok'), len(res)))
sys.exit(1 if bad else 0)
