#!/usr/bin/env python3
"""DELIBERATE maintenance step (never run by a check): re-pins every `//@assumed FILE FN sha=...` directive to the text FN has in /repo now.
To be run only after the assumed contract of FN was re-read against the new text."""
import glob, hashlib, os, re, sys
sys.path.insert(0, os.path.dirname(os.path.abspath(__file__)))
import extract
n = 0
for p in sorted(glob.glob('/verif/contracts/*.rs')):
    s = open(p).read()
    def repl(m):
        global n
        src, it = extract.locate(m.group(1), 'fn', m.group(2))
        sha = hashlib.sha256(src[it.start:it.end].encode()).hexdigest()[:12]
        if sha != m.group(3):
            n += 1
            print('%s: %s %s -> %s' % (os.path.basename(p), m.group(2), m.group(3), sha))
        return '//@assumed %s %s sha=%s' % (m.group(1), m.group(2), sha)
    s2 = re.sub(r'//@assumed (\S+) (\S+) sha=([0-9a-f]+)', repl, s)
    if s2 != s:
        open(p, 'w').write(s2)
print('%d pins renewed' % n)
