#!/usr/bin/env python3
"""BOUNDED stand-in (never counted as proved): cuts get_privmsg_target_type and its flags! declaration out of /repo on every run and
checks them with Kani for every ASCII target up to N bytes. usage: kani_bounded.py [N]   exit 0 ok / 1 failed / 2 could not run"""
import os, re, subprocess, sys, shutil, tempfile, json, time
HERE = os.path.dirname(os.path.abspath(__file__))
sys.path.insert(0, HERE)
import rustlex
REPO = os.environ.get('VERIF_REPO', '/repo')
VERIF = os.path.dirname(HERE)

def main():
    n = int(sys.argv[1]) if len(sys.argv) > 1 else 5
    src = open(os.path.join(REPO, 'src/state/structs.rs')).read()
    its = rustlex.find_item(src, 'fn', 'get_privmsg_target_type')
    m = re.search(r'^flags! \{\n(?:.*\n)*?^\}\n', src, flags=re.M)
    if len(its) != 1 or not m or 'PrivMsgTargetType' not in m.group(0):
        print('BOUNDED-UNDECIDED lost anchor: get_privmsg_target_type / flags!'); return 2
    fn_txt = src[its[0].start:its[0].end]
    extracted = (m.group(0) + '\n' + fn_txt).replace('pub(super)', 'pub')
    work = tempfile.mkdtemp(prefix='kani_tt_', dir='/var/tmp')
    try:
        shutil.copytree(os.path.join(VERIF, 'kani', 'target_type'), os.path.join(work, 'c'))
        c = os.path.join(work, 'c')
        tpl = open(os.path.join(c, 'harness.rs.in')).read()
        open(os.path.join(c, 'src', 'lib.rs'), 'w').write(tpl.replace('//@EXTRACTED', extracted).replace('@N@', str(n)).replace('@UNWIND@', str(n + 2)))
        if os.path.exists(os.path.join(REPO, 'Cargo.lock')):   # pin the dependency versions of the repository when it records them
            shutil.copy(os.path.join(REPO, 'Cargo.lock'), os.path.join(c, 'Cargo.lock'))
        env = dict(os.environ, CARGO_NET_OFFLINE='true', CARGO_TARGET_DIR=os.path.join(work, 'target'))
        t0 = time.time()
        p = subprocess.run(['cargo', 'kani', '--harness', 'target_type_bounded', '--harness', 'target_type_examples', '--harness', 'flags_model_faithful',
                            '-Z', 'concrete-playback', '--concrete-playback=print'], cwd=c, env=env,
                           capture_output=True, text=True, timeout=int(os.environ.get('VERIF_KANI_TIMEOUT', '1500')))
        out = p.stdout + p.stderr
        ok = out.count('VERIFICATION:- SUCCESSFUL') >= 3 and 'VERIFICATION:- FAILED' not in out
        failed = 'VERIFICATION:- FAILED' in out
        res = {'bound': 'every ASCII target of at most %d bytes' % n, 'harnesses': ['target_type_bounded', 'target_type_examples', 'flags_model_faithful'],
               'ok': ok, 'failed': failed, 'wall_s': round(time.time() - t0, 1), 'tail': out[-1500:],
               'failed_checks': re.findall(r'Failed Checks: (.*)', out)[:5]}
        if failed:
            # Kani's counterexample (concrete playback): the first N one-byte values are the target bytes, the 8-byte value its length;
            # it is replayed natively (plain `cargo test`, no Kani) on the same extracted function
            mm = re.search(r'let concrete_vals: Vec<Vec<u8>> = vec!\[(.*?)\];', out, flags=re.S)
            if mm:
                vals = [[int(x) for x in v.split(',') if x.strip()] for v in re.findall(r'vec!\[([^\]]*)\]', mm.group(1))]
                bs = [v[0] for v in vals if len(v) == 1][:n]
                ln = [int.from_bytes(bytes(v), 'little') for v in vals if len(v) == 8]
                if ln and ln[0] <= len(bs):
                    inp = bs[:ln[0]]
                    res['counterexample_bytes'] = inp
                    res['counterexample_text'] = bytes(inp).decode('ascii', 'replace')
                    env2 = dict(env, VERIF_TT_INPUT=','.join(map(str, inp)))
                    p2 = subprocess.run(['cargo', 'test', '--offline', 'replay_counterexample'], cwd=c, env=env2, capture_output=True, text=True, timeout=600)
                    res['replayed_natively'] = ('test result: FAILED' in p2.stdout) or ('panicked' in p2.stdout + p2.stderr)
                    res['replay_output'] = (p2.stdout + p2.stderr)[-800:]
        print(json.dumps(res))
        return 0 if ok else (1 if failed else 2)
    except subprocess.TimeoutExpired:
        print('BOUNDED-UNDECIDED kani timeout'); return 2
    finally:
        shutil.rmtree(work, ignore_errors=True)

if __name__ == '__main__':
    sys.exit(main())
