"""Minimal Rust lexer + item locator used by the mechanical extractor.

Only what extraction needs: a token stream that is exact about comments, string /
char literals and lifetimes, so that brace / paren matching is reliable, and the
spans of items (fn / struct / enum / impl blocks) in a source file.
"""
import re

IDENT_RE = re.compile(r'[A-Za-z_][A-Za-z0-9_]*')
NUM_RE = re.compile(r'[0-9][0-9A-Za-z_]*(\.[0-9][0-9A-Za-z_]*)?')


class Tok:
    __slots__ = ('kind', 'text', 'start', 'end')

    def __init__(self, kind, text, start, end):
        self.kind, self.text, self.start, self.end = kind, text, start, end

    def __repr__(self):
        return 'Tok(%s,%r,%d)' % (self.kind, self.text, self.start)


def lex(src):
    """Return list of Tok. kinds: ws, lcom, bcom, str, chr, life, id, num, p (punct, 1 char)."""
    toks = []
    i, n = 0, len(src)
    while i < n:
        c = src[i]
        if c.isspace():
            j = i + 1
            while j < n and src[j].isspace():
                j += 1
            toks.append(Tok('ws', src[i:j], i, j)); i = j; continue
        if src.startswith('//', i):
            j = src.find('\n', i)
            if j < 0: j = n
            toks.append(Tok('lcom', src[i:j], i, j)); i = j; continue
        if src.startswith('/*', i):
            depth, j = 1, i + 2
            while j < n and depth:
                if src.startswith('/*', j): depth += 1; j += 2
                elif src.startswith('*/', j): depth -= 1; j += 2
                else: j += 1
            toks.append(Tok('bcom', src[i:j], i, j)); i = j; continue
        # raw strings r"..", r#".."#, br".."
        m = re.match(r'b?r(#*)"', src[i:i + 20])
        if m:
            hashes = m.group(1)
            endpat = '"' + hashes
            j = src.find(endpat, i + len(m.group(0)))
            if j < 0: raise ValueError('unterminated raw string at %d' % i)
            j += len(endpat)
            toks.append(Tok('str', src[i:j], i, j)); i = j; continue
        if c == '"' or (c == 'b' and i + 1 < n and src[i + 1] == '"'):
            j = i + (2 if c == 'b' else 1)
            while j < n and src[j] != '"':
                if src[j] == '\\': j += 2
                else: j += 1
            j += 1
            toks.append(Tok('str', src[i:j], i, j)); i = j; continue
        if c == "'" or (c == 'b' and i + 1 < n and src[i + 1] == "'"):
            k = i + (1 if c == 'b' else 0)
            # char literal: '\..' or 'x' ; lifetime: 'ident (no closing quote right after one char)
            if k + 1 < n and src[k + 1] == '\\':
                j = k + 2
                while j < n and src[j] != "'":
                    j += 1
                j += 1
                toks.append(Tok('chr', src[i:j], i, j)); i = j; continue
            # find possible closing quote after exactly one (unicode) char
            if k + 2 < n and src[k + 2] == "'":
                j = k + 3
                toks.append(Tok('chr', src[i:j], i, j)); i = j; continue
            m = IDENT_RE.match(src, k + 1)
            if m:
                toks.append(Tok('life', src[i:m.end()], i, m.end())); i = m.end(); continue
            raise ValueError('bad quote at %d' % i)
        m = IDENT_RE.match(src, i)
        if m:
            toks.append(Tok('id', m.group(0), i, m.end())); i = m.end(); continue
        m = NUM_RE.match(src, i)
        if m:
            toks.append(Tok('num', m.group(0), i, m.end())); i = m.end(); continue
        toks.append(Tok('p', c, i, i + 1)); i += 1
    return toks


def code_toks(toks):
    return [t for t in toks if t.kind not in ('ws', 'lcom', 'bcom')]


OPEN = {'(': ')', '[': ']', '{': '}'}
CLOSE = {')': '(', ']': '[', '}': '{'}


def match_close(ct, i):
    """ct: code tokens; ct[i] is an opening bracket; return index of matching close."""
    depth = 0
    j = i
    while j < len(ct):
        t = ct[j]
        if t.kind == 'p':
            if t.text in OPEN: depth += 1
            elif t.text in CLOSE:
                depth -= 1
                if depth == 0:
                    return j
        j += 1
    raise ValueError('unbalanced bracket at offset %d' % ct[i].start)


class Item:
    def __init__(self, kind, name, owner, start, end, sig_end, body_start, body_end, attrs):
        self.kind = kind          # fn | struct | enum | impl
        self.name = name
        self.owner = owner        # impl header text (normalised) or '' for free items
        self.start = start        # offset of first attribute / keyword
        self.end = end            # offset one past the closing brace / semicolon
        self.sig_end = sig_end    # for fn: offset of body '{'
        self.body_start = body_start
        self.body_end = body_end  # offset of closing '}'
        self.attrs = attrs        # list of attribute texts

    def __repr__(self):
        return 'Item(%s %s::%s %d-%d)' % (self.kind, self.owner, self.name, self.start, self.end)


def _norm_impl_header(text):
    t = re.sub(r'\s+', ' ', text).strip()
    # drop leading generics  impl<'a> X<'a>
    t = re.sub(r'^<[^>]*>\s*', '', t)
    t = t.replace('super::', '').replace('crate::', '')
    # strip generic args
    t = re.sub(r'<[^<>]*>', '', t)
    t = re.sub(r'<[^<>]*>', '', t)
    return t.strip()


def items(src):
    """Locate items of a file, skipping `mod test {}`/cfg(test) modules. Returns list of Item."""
    toks = lex(src)
    ct = code_toks(toks)
    out = []

    def scan(lo, hi, owner):
        i = lo
        while i < hi:
            t = ct[i]
            # collect attributes
            attr_start = None
            attrs = []
            j = i
            while j < hi and ct[j].kind == 'p' and ct[j].text == '#' and j + 1 < hi and ct[j + 1].text in ('[', '!'):
                k = j + 1
                if ct[k].text == '!':
                    k += 1
                e = match_close(ct, k)
                if attr_start is None: attr_start = ct[j].start
                attrs.append(src[ct[j].start:ct[e].end])
                j = e + 1
            i0 = j
            if i0 >= hi:
                break
            # visibility / qualifiers
            k = i0
            start_tok = ct[k]
            while k < hi and ct[k].kind == 'id' and ct[k].text in ('pub', 'async', 'const', 'unsafe', 'extern', 'default'):
                if ct[k].text == 'pub' and k + 1 < hi and ct[k + 1].text == '(':
                    k = match_close(ct, k + 1) + 1
                elif ct[k].text == 'extern' and k + 1 < hi and ct[k + 1].kind == 'str':
                    k += 2
                else:
                    k += 1
            if k >= hi:
                break
            kw = ct[k]
            start = attr_start if attr_start is not None else start_tok.start
            if kw.kind == 'id' and kw.text == 'fn' and k + 1 < hi and ct[k + 1].kind == 'id':
                name = ct[k + 1].text
                # find body '{' or ';' at depth 0
                m = k + 2
                depth = 0
                while m < hi:
                    tt = ct[m]
                    if tt.kind == 'p':
                        if tt.text in '([': depth += 1
                        elif tt.text in ')]': depth -= 1
                        elif tt.text == '{' and depth == 0: break
                        elif tt.text == ';' and depth == 0: break
                    m += 1
                if ct[m].text == ';':
                    out.append(Item('fn', name, owner, start, ct[m].end, ct[m].start, None, None, attrs))
                    i = m + 1
                else:
                    e = match_close(ct, m)
                    out.append(Item('fn', name, owner, start, ct[e].end, ct[m].start, ct[m].start, ct[e].start, attrs))
                    i = e + 1
                continue
            if kw.kind == 'id' and kw.text in ('struct', 'enum', 'union') and k + 1 < hi:
                name = ct[k + 1].text
                m = k + 2
                depth = 0
                while m < hi:
                    tt = ct[m]
                    if tt.kind == 'p':
                        if tt.text in '([<' : depth += 1 if tt.text != '<' else 0
                        elif tt.text in ')]': depth -= 1
                        elif tt.text == '{' and depth == 0: break
                        elif tt.text == ';' and depth == 0: break
                    m += 1
                if ct[m].text == ';':
                    end = ct[m].end
                else:
                    e = match_close(ct, m)
                    end = ct[e].end
                    m = e
                out.append(Item(kw.text, name, owner, start, end, None, None, None, attrs))
                i = m + 1
                continue
            if kw.kind == 'id' and kw.text in ('impl', 'mod', 'trait'):
                m = k + 1
                while m < hi and not (ct[m].kind == 'p' and ct[m].text in '{;'):
                    m += 1
                if ct[m].text == ';':
                    i = m + 1
                    continue
                e = match_close(ct, m)
                header = src[ct[k + 1].start:ct[m].start]
                if kw.text == 'impl':
                    h = _norm_impl_header(header)
                    out.append(Item('impl', h, owner, start, ct[e].end, ct[m].start, ct[m].start, ct[e].start, attrs))
                    scan(m + 1, e, h)
                elif kw.text == 'mod':
                    is_test = any('cfg(test)' in a.replace(' ', '') for a in attrs) or header.strip() == 'test'
                    if not is_test:
                        scan(m + 1, e, owner)
                i = e + 1
                continue
            # anything else: skip to next ';' or matching brace at depth 0
            m = k
            while m < hi:
                tt = ct[m]
                if tt.kind == 'p' and tt.text in OPEN:
                    m = match_close(ct, m)
                    if tt.text == '{':
                        # item ended by block (macro invocation like flags! { } or const fn)
                        m += 1
                        if m < hi and ct[m].text == ';': m += 1
                        break
                elif tt.kind == 'p' and tt.text == ';':
                    m += 1
                    break
                m += 1
            i = m
    scan(0, len(ct), '')
    return out


def find_item(src, kind, qual):
    """qual: 'name' for free items, 'Owner::name' for impl members ('Trait for Type::name' allowed)."""
    its = items(src)
    if '::' in qual:
        owner, name = qual.rsplit('::', 1)
    else:
        owner, name = '', qual
    res = [it for it in its if it.kind == kind and it.name == name and it.owner == owner]
    return res
